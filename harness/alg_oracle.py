"""Oracle loop for the driver op `algebraic_all_intersections` (Lean model of the algebraic strategy's
`all_intersections`, lean/BezierVerif/Model/AlgebraicAssembly.lean, lean/Driver/Ops/AlgebraicAssembly.lean).

The model runs in exact rationals; its external numerics (np.sqrt inside polynomial_norm, np.linalg.matrix_rank
inside _check_non_simple, polynomial.polyroots for the intersection polynomial and inside every locate_point,
polynomial.polyfit for the pairs 2-3, 2-4, 3-3) are answered by the CALLER: the op replies `[0, kind, key]`
while a needed oracle value is missing from the tables `[sqrtTab, rankTab, rootsTab, fitTab]`; this module
computes it with numpy on the floats of `key`, appends `[key, value]` and asks again (all pending cases of a
batch share one driver process per round; a case needs 2 + 2 * (number of t-roots) rounds at most, + 1 for a
polyfit pair, + 1 for a matrix_rank call).

NOTE for comparisons with the library: everything between the oracle calls is EXACT in the model and rounded in
the library, so discrete outcomes (a root kept / dropped at a threshold, locate_point accepting) may only be
compared when the decision margin is clear; for degree products <= 4 the parameters agree to ~1e-12 on random
nets, for the polyfit pairs (products 6, 8, 9) the thresholds sit at the noise level of the float run.

    import alg_oracle
    par = alg_oracle.alg_params(A, thr)              # A = bezier.hazmat.algebraic_intersection, thr = VS switch
    w = alg_oracle.wiggle_default(H)                 # H = bezier.hazmat.helpers
    out = alg_oracle.model_all_intersections(par, w, [(n1, n2), ...])
    # out[i] = ("ok", s_row, t_row, tables) | ("err", name, tables)     (rows = lists of Fractions)
"""
import inspect
from fractions import Fraction as Fr

import common as C

CONST_NAMES = ("L2_THRESHOLD", "COEFFICIENT_THRESHOLD", "NON_SIMPLE_THRESHOLD", "SIGMA_THRESHOLD",
               "UNIT_INTERVAL_WIGGLE_START", "UNIT_INTERVAL_WIGGLE_END", "IMAGINARY_WIGGLE", "ZERO_THRESHOLD")


def alg_params(A, thr=None, reduce_threshold=None):
    """the `Params` list of Driver/Ops/Algebraic.toParams? from the live module constants"""
    c = {k: Fr(float(getattr(A, "_" + k))) for k in CONST_NAMES}
    if thr is None:
        thr = C.generated("py_curve_vs_threshold", 55)
    if reduce_threshold is None:
        reduce_threshold = C.generated("py_curve_helpers_REDUCE_THRESHOLD")
    cheb = {n: [Fr(float(v)) for v in getattr(A, "_CHEB%d" % n)] for n in (7, 9, 10)}
    return [thr, cheb[7], cheb[9], cheb[10], Fr(reduce_threshold) ** 2, c["L2_THRESHOLD"] ** 2,
            c["COEFFICIENT_THRESHOLD"], c["NON_SIMPLE_THRESHOLD"], c["SIGMA_THRESHOLD"] ** 2,
            c["UNIT_INTERVAL_WIGGLE_START"], c["UNIT_INTERVAL_WIGGLE_END"], c["IMAGINARY_WIGGLE"],
            c["ZERO_THRESHOLD"]]


def wiggle_default(H):
    return Fr(float(inspect.signature(H.wiggle_interval).parameters["wiggle"].default))


def numpy_oracle(kind, key):
    """the value numpy gives for one oracle query (key in exact rationals, evaluated on its binary64 rounding)"""
    import numpy as np
    from numpy.polynomial import polynomial
    if kind == 0:
        return Fr(float(np.sqrt(float(key))))
    if kind == 1:
        m = np.asfortranarray([[float(x) for x in r] for r in key])
        return int(np.linalg.matrix_rank(m))
    if kind == 3:
        nodes, vals, deg = key
        c = polynomial.polyfit(np.array([float(x) for x in nodes]), np.array([float(x) for x in vals]), int(deg))
        return [Fr(float(x)) for x in c]
    r = np.atleast_1d(polynomial.polyroots(np.array([float(x) for x in key])))
    return [[Fr(float(z.real)), Fr(float(z.imag))] for z in r]


def model_all_intersections(par, wiggle, pairs, oracle=numpy_oracle, max_rounds=64):
    """run the model on every (nodes1, nodes2) of `pairs`; returns one tuple per pair (see module docstring)"""
    tabs = [[[], [], [], []] for _ in pairs]
    out = [None] * len(pairs)
    pending = list(range(len(pairs)))
    for _ in range(max_rounds):
        if not pending:
            break
        d = C.Driver()
        for i in pending:
            d.ask("algebraic_all_intersections", par, wiggle, tabs[i], pairs[i][0], pairs[i][1])
        nxt = []
        for i, (st, v) in zip(pending, d.run()):
            if st == "err":
                out[i] = ("err", v, tabs[i])
            elif int(v[0]) == 1:
                out[i] = ("ok", v[1], v[2], tabs[i])
            else:
                kind, key = int(v[1]), v[2]
                tabs[i][kind].append([key, oracle(kind, key)])
                nxt.append(i)
        pending = nxt
    if pending:
        raise SystemExit("alg_oracle: oracle loop did not terminate for %d case(s)" % len(pending))
    return out
