#!/venv/bin/python
"""Build the bezier package from /repo's *current working tree* (never the wheel in /venv).

Produces, under /var/tmp/bezier-verif/<hash>/ :
    pkg_pure/bezier/      the Python sources, no extension  -> every shim binds hazmat (pure Python)
    pkg_speedup/bezier/   the same sources + freshly compiled _speedup (gfortran + gcc, no cmake)
The hash covers every file that goes into the build; at most KEEP builds are kept.
Usage:  build_repo.py [--debug]   -> prints the build directory
"""
import hashlib
import os
import shutil
import subprocess
import sys
import sysconfig
import fcntl
import time

REPO = os.environ.get("BEZIER_REPO", "/repo")
ROOT = os.environ.get("BEZIER_VERIF_BUILD", "/var/tmp/bezier-verif")
KEEP = 3
F90_ORDER = ["types", "status", "helpers", "quadpack", "curve", "curve_intersection",
             "triangle", "triangle_intersection"]
PY = "/venv/bin/python"


def _files():
    out = []
    pyroot = os.path.join(REPO, "src/python/bezier")
    for d, _, fs in os.walk(pyroot):
        for f in fs:
            if f.endswith((".py", ".c", ".pxd", ".pyx")):
                out.append(os.path.join(d, f))
    froot = os.path.join(REPO, "src/fortran")
    for d, _, fs in os.walk(froot):
        for f in fs:
            if f.endswith((".f90", ".h")):
                out.append(os.path.join(d, f))
    return sorted(out)


def tree_hash(debug=False):
    h = hashlib.sha256()
    h.update(b"debug" if debug else b"release")
    for p in _files():
        h.update(p.encode())
        with open(p, "rb") as fh:
            h.update(fh.read())
    return h.hexdigest()[:16]


def _run(cmd, cwd):
    r = subprocess.run(cmd, cwd=cwd, stdout=subprocess.PIPE, stderr=subprocess.STDOUT, text=True)
    if r.returncode != 0:
        sys.stderr.write("BUILD FAILED: %s\n%s\n" % (" ".join(cmd), r.stdout))
        raise SystemExit(2)
    return r.stdout


def build(debug=False):
    os.makedirs(ROOT, exist_ok=True)
    hsh = tree_hash(debug)
    dest = os.path.join(ROOT, hsh)
    lock = open(os.path.join(ROOT, ".lock"), "w")
    fcntl.flock(lock, fcntl.LOCK_EX)
    try:
        if os.path.exists(os.path.join(dest, "OK")):
            os.utime(dest, None)
            return dest
        if os.path.exists(dest):
            shutil.rmtree(dest)
        # prune old builds
        olds = sorted((d for d in os.listdir(ROOT) if os.path.isdir(os.path.join(ROOT, d))),
                      key=lambda d: os.path.getmtime(os.path.join(ROOT, d)))
        for d in olds[:-(KEEP - 1)] if len(olds) >= KEEP else []:
            if time.time() - os.path.getmtime(os.path.join(ROOT, d)) < 2 * 3600:
                continue            # possibly in use by a check of another tree running side by side
            shutil.rmtree(os.path.join(ROOT, d), ignore_errors=True)
        os.makedirs(dest)
        src_py = os.path.join(REPO, "src/python/bezier")
        for name in ("pkg_pure", "pkg_speedup"):
            shutil.copytree(src_py, os.path.join(dest, name, "bezier"),
                            ignore=shutil.ignore_patterns("*.so", "__pycache__", "extra-dll", "lib", "include"))
        obj = os.path.join(dest, "obj")
        os.makedirs(obj)
        if debug:
            fflags = ["-O0", "-g", "-fcheck=all", "-fbacktrace"]
        else:
            fflags = ["-O3", "-funroll-loops", "-march=native"]
        procs = []
        # sequential: module dependencies
        for m in F90_ORDER:
            _run(["gfortran", "-c", "-fPIC", "-std=f2008", "-fno-second-underscore", "-J."] + fflags +
                 [os.path.join(REPO, "src/fortran", m + ".f90"), "-o", m + ".o"], obj)
        inc_py = sysconfig.get_paths()["include"]
        import numpy
        inc_np = numpy.get_include()
        ext = sysconfig.get_config_var("EXT_SUFFIX")
        so = os.path.join(dest, "pkg_speedup", "bezier", "_speedup" + ext)
        _run(["gcc", "-shared", "-fPIC", "-O1", "-w", "-DNPY_NO_DEPRECATED_API=NPY_1_7_API_VERSION",
              "-I" + inc_py, "-I" + inc_np, "-I" + os.path.join(REPO, "src/fortran/include"),
              os.path.join(REPO, "src/python/bezier/_speedup.c")] +
             [m + ".o" for m in F90_ORDER] + ["-lgfortran", "-lm", "-o", so], obj)
        shutil.rmtree(obj)
        with open(os.path.join(dest, "OK"), "w") as fh:
            fh.write(time.strftime("%Y-%m-%dT%H:%M:%S"))
        return dest
    finally:
        fcntl.flock(lock, fcntl.LOCK_UN)
        lock.close()


if __name__ == "__main__":
    print(build(debug="--debug" in sys.argv))
