"""C06 — input family for the NO-CONTACT branch of the triangle-triangle intersection (no edge meets an edge: the two
triangles are either nested or disjoint, `no_intersections` / the compiled equivalent decides by locating a corner).

The property: "Disjoint inputs give an empty list and containment returns the inner triangle itself; the answer does not
depend on argument order."  What decides between the two answers is the IMAGE of the triangles, never the control net.
This family makes the control net say something different from the image:

  nested   a curved triangle INNER (degree 2..4, one edge bulging outward, the others bulging in / out / straight) strictly
           inside a triangle OUTER (degree 1..4: straight, exactly elevated, other edges bulged, the near edge concave or
           convex) whose near side passes BETWEEN the bulging edge of INNER and the control points of that edge.  The
           position of the near side is a parameter: INNER's control points strictly outside OUTER's control-net bounding
           box (several margins), exactly ON that box (tie), outside the triangle OUTER but inside its box (tilted near
           side), or inside (control).  One or two sides of the box are attacked (a right-angled OUTER attacks two).
  pocket   a small triangle inside the control-net bounding box (and inside the convex hull of the control net) of INNER,
           under the bulging edge, but outside its image: disjoint, nested boxes.
  notch    a small triangle in the notch of a CONCAVE edge of a curved triangle: inside the straight triangle of its
           corners, inside its box, outside its image: disjoint.

Everything is built in a canonical frame (the attacked side of the box is the bottom, y minimal), then the corners of both
triangles are relabelled cyclically, both are rotated by a multiple of 90 degrees and shifted by an integer vector, and the
argument order is random: every side of the box, every corner labelling and both orders occur.

All coordinates are dyadic with at most 10 fractional bits (exact in binary64 and on the oracle's 2^-80 grid after 11
subdivisions of a degree-4 edge).  Validity is certified (all Bernstein coefficients of det J positive).  For a straight
OUTER the generator certifies the clearance of the near side exactly (Bernstein coefficients of the affine side function
along the three edges of INNER, subdivided); the VERDICT never rests on the construction: the caller computes the exact
common area with clip.curved_common_area (the enclosure is a point as soon as the two boundaries are separated).
"""
from fractions import Fraction as Fr
from math import factorial

import exact as X
import clip as K

CLEAR = Fr(1, 32)          # certified clearance between the two boundaries on the attacked side (canonical frame)


# ------------------------------------------------------------------ nets
def tri_net(c, d):
    """rows of the straight triangle with corners c presented with degree d"""
    rows = [[], []]
    for k in range(d + 1):
        for j in range(d + 1 - k):
            i = d - j - k
            for r in range(2):
                rows[r].append((i * c[0][r] + j * c[1][r] + k * c[2][r]) / d)
    return rows


def edge_nodes(d):
    """node indices of the three edges (each from its start corner to its end corner)"""
    return [[X.tri_index(d, j, 0) for j in range(d + 1)],
            [X.tri_index(d, d - k, k) for k in range(d + 1)],
            [X.tri_index(d, 0, d - k) for k in range(d + 1)]]


def tri_edges(nodes, d):
    return [tuple([r[q] for q in idx] for r in nodes) for idx in edge_nodes(d)]


def corners(nodes, d):
    n = len(nodes[0])
    return [(nodes[0][q], nodes[1][q]) for q in (0, d, n - 1)]


def relabel(rows, d, times):
    """the same triangle with its corners relabelled cyclically (new corner 0 = old corner 1); orientation kept"""
    for _ in range(times % 3):
        new = [[None] * len(rows[0]), [None] * len(rows[0])]
        for k in range(d + 1):
            for j in range(d + 1 - k):
                i = d - j - k
                # new exponents (i, j, k) of (l1, l2, l3) <- old exponents (k, i, j)
                for r in range(2):
                    new[r][X.tri_index(d, j, k)] = rows[r][X.tri_index(d, i, j)]
        rows = new
    return rows


def move(rows, rot, sh):
    xs, ys = rows
    for _ in range(rot % 4):
        xs, ys = [-y for y in ys], list(xs)
    return [[x + sh[0] for x in xs], [y + sh[1] for y in ys]]


def jacobian_positive(nodes, d):
    """all Bernstein coefficients (degree 2(d-1)) of det J positive => valid, positively oriented (sufficient)"""
    if d == 1:
        return K.cross((nodes[0][0], nodes[1][0]), (nodes[0][1], nodes[1][1]), (nodes[0][2], nodes[1][2])) > 0
    m = d - 1
    xs, ys = X.tri_jacobian_s(nodes[0], d), X.tri_jacobian_s(nodes[1], d)
    xt, yt = X.tri_jacobian_t(nodes[0], d), X.tri_jacobian_t(nodes[1], d)
    idx = [(m - j - k, j, k) for k in range(m + 1) for j in range(m + 1 - k)]

    def mult(a):
        return factorial(sum(a)) // (factorial(a[0]) * factorial(a[1]) * factorial(a[2]))
    coef = {}
    for ia, a in enumerate(idx):
        for ib, b in enumerate(idx):
            g = (a[0] + b[0], a[1] + b[1], a[2] + b[2])
            w = Fr(mult(a) * mult(b), mult(g))
            coef[g] = coef.get(g, 0) + w * (xs[ia] * yt[ib] - ys[ia] * xt[ib])
    return all(v > 0 for v in coef.values())


def bulge(rows, d, edge, vec, weights=None):
    """move the interior control points of one edge by weights[m] * vec"""
    idx = edge_nodes(d)[edge][1:-1]
    for m, q in enumerate(idx):
        w = Fr(1) if weights is None else weights[m]
        rows[0][q] += w * vec[0]
        rows[1][q] += w * vec[1]


def outward(nodes, d, edge, beta):
    """beta * (outward normal of the chord of `edge`, length of the chord) for a positively oriented triangle"""
    c = corners(nodes, d)
    p, q = c[edge], c[(edge + 1) % 3]
    return (beta * (q[1] - p[1]), -beta * (q[0] - p[0]))


# ------------------------------------------------------------------ certified bounds
def lower_bound(row, depth=3):
    """a lower bound of min over [0,1] of the polynomial with Bernstein coefficients `row` (hull of 2^depth pieces)"""
    pieces = [list(row)]
    for _ in range(depth):
        pieces = [h for p in pieces for h in K.subdivide_half(p)]
    return min(min(p) for p in pieces)


def image_lower_bound(nodes, d, r, depth=3):
    """lower bound of coordinate r over the image of a VALID triangle (the minimum is on the boundary)"""
    return min(lower_bound(e[r], depth) for e in tri_edges(nodes, d))


def side_clear(a, b, nodes, d, margin, depth=6):
    """certificate: every point of the (valid) triangle lies on the left of the line a -> b at sup-norm-scaled distance >= margin"""
    nrm = max(abs(b[0] - a[0]), abs(b[1] - a[1]))
    for e in tri_edges(nodes, d):
        f = [((b[0] - a[0]) * (y - a[1]) - (b[1] - a[1]) * (x - a[0])) / nrm - margin for x, y in zip(e[0], e[1])]
        if lower_bound(f, depth) <= 0:
            return False
    return True


def grid(v, den, step=1, up=False):
    """v rounded down (up) to a multiple of step/den"""
    q = v * den / step
    n = q.numerator // q.denominator
    if up and Fr(n) != q:
        n += 1
    return Fr(n * step, den)


# ------------------------------------------------------------------ the curved inner triangle (canonical frame)
def bulged_inner(rnd, d):
    """valid triangle of degree d whose FIRST edge (c0 -> c1, roughly horizontal, interior above) bulges DOWN so that its
    control points are the lowest points of the control net, clearly below the lowest point of the image.
    -> (rows, m_net, m_img) with m_net = min y of the net < m_img <= min y of the image, m_img - m_net >= 1/4"""
    for _ in range(400):
        w = Fr(3 * rnd.randint(4, 10), 4)
        s = Fr(3 * rnd.randint(-2, 2), 4)
        c = [(Fr(0), Fr(0)), (w, s), (Fr(3 * rnd.randint(-2, 12), 4), Fr(3 * rnd.randint(4, 10), 4))]
        if K.cross(*c) < 6:
            continue
        rows = tri_net(c, d)
        beta = Fr(rnd.choice([3, 4, 5, 6, 8]), 16)
        wts = {2: [[1]], 3: [[1, 1], [1, Fr(1, 2)], [Fr(1, 2), 1]], 4: [[1, 1, 1], [Fr(1, 2), 1, Fr(1, 2)], [1, Fr(1, 2), 1]]}[d]
        bulge(rows, d, 0, outward(rows, d, 0, beta), [Fr(x) for x in rnd.choice(wts)])
        for e in (1, 2):
            how = rnd.choice(["none", "out", "out", "in"])
            if how != "none":
                b2 = Fr(rnd.choice([1, 2, 3, 4]), 16) * (1 if how == "out" else -1)
                bulge(rows, d, e, outward(tri_net(c, d), d, e, b2))
        if d >= 3:
            edge_set = {q for idx in edge_nodes(d) for q in idx}
            for q in range(len(rows[0])):
                if q not in edge_set:
                    rows[0][q] += Fr(rnd.randint(-4, 4), 16)
                    rows[1][q] += Fr(rnd.randint(-4, 4), 16)
        if not jacobian_positive(rows, d):
            continue
        m_net = min(rows[1])
        m_img = image_lower_bound(rows, d, 1)
        if m_img - m_net < Fr(1, 4):
            continue
        return rows, m_net, m_img
    raise RuntimeError("no bulged inner triangle generated")


# ------------------------------------------------------------------ the outer triangle (canonical frame)
def outer_for(rnd, inner, d, m_net, m_img, where, do, style):
    """-> rows of OUTER (degree do) or None.  `where` places the near (bottom) side relative to the control points of the
    bulging edge of INNER: 'outside-far' / 'outside-near' (control points below the side and below OUTER's box),
    'tie' (lowest control point exactly on the bottom of the box), 'inside' (control net inside the box);
    `style`: 'plain', 'tilted', 'right-angle', 'others-bulged', 'near-concave', 'near-convex'"""
    upper = m_img - CLEAR                                     # the near side stays below this level
    three = 3 if do == 3 else 1                               # corners on a grid that keeps the elevated net dyadic
    if where == "tie":
        y_line = m_net
        if do == 3 and (m_net * 256 / 3).denominator != 1:
            return None
    elif where == "inside":
        y_line = grid(m_net - Fr(rnd.randint(1, 12), 8), 256, three)
    else:
        th = Fr(rnd.choice([1, 2]), 8) if where == "outside-near" else Fr(rnd.choice([4, 6, 8]), 8)
        y_line = grid(m_net + th * (upper - m_net), 256, three)
        if not (m_net < y_line <= upper):
            return None
    xs, ys = inner
    xl = grid(min(xs), 1, 3) - 3 * rnd.randint(1, 2)
    xr = grid(max(xs), 1, 3, up=True) + 3 * rnd.randint(1, 2)
    top = grid(max(ys), 1, 3, up=True) + 3 * rnd.randint(1, 3)
    ya = yb = y_line
    if style == "tilted" and where != "tie":
        tau = Fr(3 * rnd.randint(1, 24), 64)
        if rnd.random() < 0.5:
            yb = y_line + tau                                 # the box bottom stays y_line (corner A), the side rises
        else:
            ya = y_line + tau
    cx = None
    if style == "right-angle":
        # the left side is attacked as well when the net sticks out to the left of the image
        mx_net = min(xs)
        mx_img = image_lower_bound(inner, d, 0)
        if mx_img - mx_net >= Fr(1, 8) and where.startswith("outside"):
            xl = grid(mx_net + (mx_img - CLEAR - mx_net) / 2, 256, three)
            if not (mx_net < xl <= mx_img - CLEAR):
                return None
        cx = xl
    for grow in range(6):
        a = (xl - (0 if style == "right-angle" else 3 * grow), ya)
        b = (xr + 3 * grow * (3 if style == "right-angle" else 1), yb)
        cc = (cx if cx is not None else grid(Fr(rnd.randint(int(xl), int(xr))), 1, 3), top + 6 * grow)
        if K.cross(a, b, cc) <= 0:
            continue
        if side_clear(a, b, inner, d, CLEAR) and side_clear(b, cc, inner, d, CLEAR) and side_clear(cc, a, inner, d, CLEAR):
            break
    else:
        return None
    rows = tri_net([a, b, cc], do)
    if any((v * 1024).denominator != 1 for r in rows for v in r):
        return None
    if do >= 2 and style == "others-bulged":
        for e in (1, 2):
            bulge(rows, do, e, outward(rows, do, e, Fr(rnd.choice([1, 2, 3]), 32)))
    elif do >= 2 and style == "near-concave" and where != "tie":
        # the near edge of OUTER bends towards INNER: its hull is y_line .. y_line + bump <= upper
        bump = grid((upper - y_line) * Fr(rnd.choice([2, 3, 4]), 4), 256)
        if bump <= 0:
            return None
        bulge(rows, do, 0, (Fr(0), bump))
    elif do >= 2 and style == "near-convex" and where.startswith("outside"):
        # the near edge bends away: OUTER's box bottom becomes y_line - dip, still above the lowest control point of INNER
        dip = grid((y_line - m_net) * Fr(rnd.choice([1, 2, 3]), 4), 256)
        if not (0 < dip < y_line - m_net):
            return None
        bulge(rows, do, 0, (Fr(0), -dip))
    if not jacobian_positive(rows, do):
        return None
    return rows


def pocket_triangle(rnd, inner, d, m_net, m_img, dp):
    """a small valid triangle of degree dp under the bulging edge of INNER: y in (m_net, m_img - CLEAR], x around the lowest
    control point: inside INNER's control-net box (and the hull of the net), disjoint from INNER (separated by a horizontal line)"""
    q = min(range(len(inner[1])), key=lambda i: inner[1][i])
    x0 = inner[0][q]
    lo = m_net + (m_img - CLEAR - m_net) * Fr(rnd.choice([1, 2, 3]), 8)
    hi = m_img - CLEAR - (m_img - CLEAR - m_net) * Fr(rnd.choice([0, 1, 2]), 8)
    three = 3 if dp == 3 else 1
    lo, hi = grid(lo, 256, three, up=True), grid(hi, 256, three)
    hw = Fr(3 * rnd.randint(1, 6), 16)
    x0 = grid(x0 + Fr(rnd.randint(-4, 4), 8), 256, three)
    if hi - lo < Fr(3, 64):
        return None
    tri = [(x0 - hw, lo), (x0 + hw, grid(lo + (hi - lo) * Fr(rnd.randint(0, 2), 4), 256, three)), (x0 + hw * Fr(rnd.randint(-2, 2), 2), hi)]
    if K.cross(*tri) <= 0:
        return None
    rows = tri_net(tri, dp)
    if any((v * 1024).denominator != 1 for r in rows for v in r):
        return None
    return rows


def notch_pair(rnd):
    """a valid triangle of degree 2..4 whose first edge (on y = 0, interior above) is CONCAVE: it rises to about half of its
    bump; a small straight triangle sits in the notch between the chord and the edge: inside the corner triangle and the
    box, outside the image.  -> (curved rows, degree, small rows) or None"""
    d = rnd.choice([2, 3, 4])
    w = Fr(3 * rnd.randint(4, 8), 2)
    c = [(Fr(0), Fr(0)), (w, Fr(0)), (Fr(3 * rnd.randint(0, 8), 4), Fr(3 * rnd.randint(6, 10), 2))]
    rows = tri_net(c, d)
    bump = Fr(rnd.choice([4, 6, 8, 10]), 4)
    bulge(rows, d, 0, (Fr(0), bump))
    if not jacobian_positive(rows, d):
        return None
    # the edge over the middle: y(t) >= bump * (1 - B_0 - B_d)(t); take x in the middle third, where 1 - t^d - (1-t)^d >= 1 - (2/3)^d - (1/3)^d
    frac = 1 - Fr(2, 3) ** d - Fr(1, 3) ** d
    ceil_y = bump * frac - CLEAR
    hgt = grid(ceil_y * Fr(rnd.choice([2, 3, 4]), 4), 256)
    if hgt < Fr(1, 16):
        return None
    # x(t) of the edge is the uniform parametrisation t * w (the interior control points moved only in y)
    xa = w / 3 + (w / 3) * Fr(rnd.randint(0, 2), 8)
    xb = 2 * w / 3 - (w / 3) * Fr(rnd.randint(0, 2), 8)
    xa, xb = grid(xa, 64, up=True), grid(xb, 64)
    base = Fr(rnd.choice([1, 2]), 64)
    tri = [(xa, base), (xb, base), (grid((xa + xb) / 2, 64), hgt)]
    if K.cross(*tri) <= 0 or hgt <= base:
        return None
    return rows, d, tri_net(tri, 1)


# ------------------------------------------------------------------ classification of the control net against the other box
def net_vs_box(inner, outer, do):
    """where the control points of INNER lie relative to OUTER's control-net bounding box / corner triangle"""
    l, r, b, t = min(outer[0]), max(outer[0]), min(outer[1]), max(outer[1])
    pts = list(zip(inner[0], inner[1]))
    if any(x < l or x > r or y < b or y > t for x, y in pts):
        return "outside-box"
    if any(x == l or x == r or y == b or y == t for x, y in pts):
        return "on-box"
    c = corners(outer, do)
    if any(K.cross(c[i], c[(i + 1) % 3], p) < 0 for i in range(3) for p in pts):
        return "outside-corner-triangle"
    return "inside"


WHERE = ["outside-far", "outside-near", "outside-far", "tie", "outside-near", "inside"]
STYLE = ["plain", "right-angle", "tilted", "others-bulged", "near-convex", "near-concave", "plain", "right-angle"]


def case(rnd, k):
    """case number k of the family -> dict(n1, d1, n2, d2, family, expect-free tags); deterministic mix over k:
    degrees of INNER 2, 3, 4 in turn; every fourth case is a disjoint one (pocket / notch)"""
    for _ in range(200):
        d = (2, 3, 4)[k % 3]
        if k % 4 == 3 and (k // 4) % 2 == 1:
            got = notch_pair(rnd)
            if got is None:
                continue
            t1, d1, t2 = got
            fam, tags, d2 = "notch", {"net": net_vs_box(t2, t1, d1)}, 1
        else:
            inner, m_net, m_img = bulged_inner(rnd, d)
            if k % 4 == 3:
                dp = rnd.choice([1, 1, 2, 3])
                t2 = pocket_triangle(rnd, inner, d, m_net, m_img, dp)
                if t2 is None:
                    continue
                t1, d1, d2 = inner, d, dp
                fam, tags = "pocket", {"net": net_vs_box(t2, t1, d1)}
            else:
                where = WHERE[(k // 3) % len(WHERE)] if k >= 6 else ("outside-far", "outside-near")[k % 2]
                style = STYLE[(k // 2) % len(STYLE)] if k >= 6 else ("plain", "right-angle", "plain")[k % 3]
                do = rnd.choice([1, 1, 2, 3, 4]) if style in ("plain", "right-angle", "tilted") else rnd.choice([2, 3, 4])
                outer = outer_for(rnd, inner, d, m_net, m_img, where, do, style)
                if outer is None:
                    continue
                t1, d1, t2, d2 = inner, d, outer, do
                fam, tags = "nested", {"net": net_vs_box(inner, outer, do), "where": where, "style": style}
        t1, t2 = relabel(t1, d1, rnd.randint(0, 2)), relabel(t2, d2, rnd.randint(0, 2))
        rot, sh = rnd.randint(0, 3), (Fr(rnd.randint(-4, 4)), Fr(rnd.randint(-4, 4)))
        t1, t2 = move(t1, rot, sh), move(t2, rot, sh)
        if not (jacobian_positive(t1, d1) and jacobian_positive(t2, d2)):
            continue
        tags["side"] = ("bottom", "right", "top", "left")[rot]
        if rnd.random() < 0.5:
            t1, d1, t2, d2 = t2, d2, t1, d1
        return {"n1": t1, "d1": d1, "n2": t2, "d2": d2, "family": fam, "tags": tags}
    raise RuntimeError("no no-contact case generated")
