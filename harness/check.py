#!/venv/bin/python
"""./check <ID> <quick|thorough>   |   ./check <ID> --replay <file>

One property check =
  1. build the package from /repo's current working tree (pure + compiled)           [build_repo]
  2. re-extract constants / tables / closed forms -> Generated/Data.lean              [extract]
  3. `lake build` the property's Tables + Props modules; audit `#print axioms`        [Lean kernel]
  4. correspondence + property oracle on the real code, both configurations          [props/cXX.py]
  5. verdict: failing input -> VIOLATION (or KNOWN-FINDING if listed);
     broken obligation / correspondence without failing input -> extended search, then
     VIOLATION ... no-failing-input-found
  6. evidence/<ID>.json
exit 0 held / 1 violation / 2 infrastructure failure
"""
import fcntl
import hashlib
import json
import os
import re
import subprocess
import sys
import time

HERE = os.path.dirname(os.path.abspath(__file__))
VERIF = os.path.dirname(HERE)
LEAN = os.path.join(VERIF, "lean")
sys.path.insert(0, HERE)
import build_repo  # noqa: E402
import fingerprint  # noqa: E402
from registry import PROPS  # noqa: E402

PY = "/venv/bin/python"
ALLOWED_AXIOMS = {"propext", "Classical.choice", "Quot.sound"}
FORBIDDEN = re.compile(r"\b(sorry|admit|native_decide|bv_decide|implemented_by|maxHeartbeats 0)\b|^\s*axiom\s|\bunsafe\s")


def log(msg):
    print("[check] " + msg, flush=True)


def infra(msg):
    print("INFRASTRUCTURE-FAILURE: " + msg, flush=True)
    sys.exit(2)


# ---------------------------------------------------------------------------------- lean
_LOCK_DEPTH = [0, None]


class _Lock:
    def __init__(self, real):
        self.real = real

    def close(self):
        pass


def lake_lock():
    """exclusive lock on the Lean build directory AND on Generated/Data.lean (extraction + build must be
    atomic with respect to other checks); re-entrant within one process"""
    if _LOCK_DEPTH[0] == 0:
        fh = open(os.path.join(LEAN, ".lake.lock"), "w")
        fcntl.flock(fh, fcntl.LOCK_EX)
        _LOCK_DEPTH[1] = fh
    _LOCK_DEPTH[0] += 1
    return _Lock(_LOCK_DEPTH[1])


def lake_unlock():
    _LOCK_DEPTH[0] -= 1
    if _LOCK_DEPTH[0] == 0:
        fcntl.flock(_LOCK_DEPTH[1], fcntl.LOCK_UN)
        _LOCK_DEPTH[1].close()
        _LOCK_DEPTH[1] = None


def theorems_in(path):
    """[(qualified name, line)] of theorems in a Lean file (namespace aware, simple)"""
    out = []
    ns = []
    with open(path) as fh:
        text = fh.read()
    # blank out block comments, keeping the line structure (a doc comment may contain the word "theorem" at a line start)
    text = re.sub(r"/-.*?-/", lambda m: "\n" * m.group(0).count("\n"), text, flags=re.S)
    if True:
        for i, line in enumerate(text.split("\n"), 1):
            m = re.match(r"namespace\s+(\S+)", line)
            if m:
                ns.append(m.group(1))
                continue
            m = re.match(r"end\s+(\S+)", line)
            if m and ns and ns[-1] == m.group(1):
                ns.pop()
                continue
            m = re.match(r"(?:private\s+|protected\s+)?theorem\s+(\S+)", line)
            if m:
                out.append((".".join(ns + [m.group(1)]), i))
    return out


def strip_comments(text):
    text = re.sub(r"/-.*?-/", "", text, flags=re.S)
    return "\n".join(l.split("--")[0] for l in text.split("\n"))


def lean_obligations(prop):
    """build the Lean modules of the property, audit axioms; returns status dict"""
    spec = PROPS[prop]
    files = spec["lean_files"]            # relative to lean/BezierVerif, e.g. Props/C01.lean
    modules = ["BezierVerif." + f[:-5].replace("/", ".") for f in files]
    status = {"obligations": 0, "discharged": 0, "broken": [], "axioms": {}, "forbidden": [],
              "modules": modules, "build_s": 0.0, "errors": []}
    all_thms = []
    for f in files:
        p = os.path.join(LEAN, "BezierVerif", f)
        if not os.path.exists(p):
            status["broken"].append("missing file " + f)
            continue
        thms = theorems_in(p)
        all_thms += [(n, f, ln) for n, ln in thms]
        with open(p) as fh:
            body = strip_comments(fh.read())
        for ln, line in enumerate(body.split("\n"), 1):
            if FORBIDDEN.search(line):
                status["forbidden"].append("%s:%d: %s" % (f, ln, line.strip()[:80]))
    # lemma files the property depends on are also scanned for forbidden constructs
    for f in spec.get("lemma_files", []):
        p = os.path.join(LEAN, "BezierVerif", f)
        if os.path.exists(p):
            with open(p) as fh:
                body = strip_comments(fh.read())
            for ln, line in enumerate(body.split("\n"), 1):
                if FORBIDDEN.search(line):
                    status["forbidden"].append("%s:%d: %s" % (f, ln, line.strip()[:80]))
    status["obligations"] = len(all_thms)
    t0 = time.time()
    lock = lake_lock()
    try:
        failed_thms = set()
        for mod, f in zip(modules, files):
            r = subprocess.run(["lake", "build", mod], cwd=LEAN, stdout=subprocess.PIPE, stderr=subprocess.STDOUT, text=True)
            if r.returncode != 0:
                errs = re.findall(r"error: (\S+?\.lean):(\d+):(\d+): (.*)", r.stdout)
                if not errs:
                    status["errors"].append(r.stdout[-1500:])
                    status["broken"].append("module %s failed to build" % mod)
                for path, ln, col, msg in errs:
                    status["errors"].append("%s:%s:%s: %s" % (path, ln, col, msg[:300]))
                    rel = path.split("BezierVerif/", 1)[-1]
                    cands = [(n, l) for n, ff, l in all_thms if ff == rel and l <= int(ln)]
                    if cands:
                        failed_thms.add(cands[-1][0])
                    else:
                        status["broken"].append("%s:%s %s" % (rel, ln, msg[:120]))
                # theorems of this module and of modules importing it cannot be counted
                for n, ff, l in all_thms:
                    if ff == f and not errs:
                        failed_thms.add(n)
        # audit
        ok_thms = [t for t in all_thms if t[0] not in failed_thms]
        built_files = set()
        for mod, f in zip(modules, files):
            olean = os.path.join(LEAN, ".lake/build/lib/lean", mod.replace(".", "/") + ".olean")
            if os.path.exists(olean) and not any(e.startswith(os.path.join("BezierVerif", f)) or ("BezierVerif/" + f) in e for e in status["errors"]):
                built_files.add(f)
        audit_thms = [t for t in ok_thms if t[1] in built_files]
        not_built = [t[0] for t in ok_thms if t[1] not in built_files]
        for n in not_built:
            failed_thms.add(n)
        if audit_thms:
            audit = os.path.join(LEAN, "BezierVerif", "Audit", prop + ".lean")
            os.makedirs(os.path.dirname(audit), exist_ok=True)
            imports = sorted({"BezierVerif." + t[1][:-5].replace("/", ".") for t in audit_thms})
            with open(audit, "w") as fh:
                fh.write("".join("import %s\n" % m for m in imports))
                fh.write("".join("#print axioms %s\n" % t[0] for t in audit_thms))
            r = subprocess.run(["lake", "env", "lean", audit], cwd=LEAN, stdout=subprocess.PIPE, stderr=subprocess.STDOUT, text=True)
            txt = r.stdout.replace("\n ", " ")
            for n, f, l in audit_thms:
                m = re.search(r"'%s' depends on axioms: \[([^\]]*)\]" % re.escape(n), txt)
                if m:
                    ax = {a.strip() for a in m.group(1).replace("\n", " ").split(",") if a.strip()}
                elif re.search(r"'%s' does not depend on any axioms" % re.escape(n), txt):
                    ax = set()
                else:
                    ax = {"<audit output missing>"}
                status["axioms"][n] = sorted(ax)
                if not ax <= ALLOWED_AXIOMS:
                    failed_thms.add(n)
        status["broken"] += sorted(failed_thms)
        if status["forbidden"]:
            status["broken"] += ["forbidden construct: " + x for x in status["forbidden"]]
        status["discharged"] = status["obligations"] - len(failed_thms)
    finally:
        lake_unlock()
    status["build_s"] = round(time.time() - t0, 2)
    return status


def ensure_driver():
    lock = lake_lock()
    try:
        r = subprocess.run(["lake", "build", "driver"], cwd=LEAN, stdout=subprocess.PIPE, stderr=subprocess.STDOUT, text=True)
        if r.returncode != 0:
            infra("driver does not build:\n" + r.stdout[-3000:])
    finally:
        lake_unlock()


# ---------------------------------------------------------------------------------- scripts
def run_scripts(prop, tier, seed, build, extra_env=None, tag="main"):
    spec = PROPS[prop]
    procs = []
    tmpdir = os.path.join(VERIF, "evidence", ".tmp")
    os.makedirs(tmpdir, exist_ok=True)
    for script, cfg in [(sc, c) for sc in spec.get("scripts", [spec["script"]]) for c in spec.get("configs", ["pure", "speedup"])]:
        out = os.path.join(tmpdir, "%s-%s-%s-%s-%d.json" % (prop, os.path.basename(script)[:-3], cfg, tag, os.getpid()))
        env = dict(os.environ)
        env.update({"BEZIER_PKG": os.path.join(build, "pkg_" + cfg), "BEZIER_CONFIG": cfg,
                    "BEZIER_BUILD": build, "VERIF_TIER": tier, "VERIF_SEED": str(seed), "VERIF_RESULT": out,
                    "PYTHONPATH": HERE, "PYTHONDONTWRITEBYTECODE": "1", "OMP_NUM_THREADS": "1",
                    "OPENBLAS_NUM_THREADS": "1"})
        if extra_env:
            env.update(extra_env)
        interp = spec.get("python", {}).get(cfg, PY)
        p = subprocess.Popen([interp, os.path.join(HERE, script)], env=env, cwd=VERIF,
                             stdout=subprocess.PIPE, stderr=subprocess.STDOUT, text=True)
        procs.append((cfg, p, out, script))
    results = []
    limit = int(os.environ.get("VERIF_SCRIPT_TIMEOUT", "1500" if tier == "quick" else "14400"))
    for cfg, p, out, script in procs:
        try:
            so, _ = p.communicate(timeout=limit)
        except subprocess.TimeoutExpired:
            for _, q, _, _ in procs:
                q.kill()
            infra("property script %s (%s) exceeded %d s" % (script, cfg, limit))
        if p.returncode != 0 or not os.path.exists(out):
            crash = script_crash(so) if p.returncode == 1 else None
            if crash is None:
                infra("property script %s (%s) failed rc=%s:\n%s" % (script, cfg, p.returncode, so[-4000:]))
            # the correspondence script itself stopped on something the implementation returned (a NaN, a wrong
            # shape, ...): the correspondence no longer checks on this tree; never silently an infrastructure failure
            log("%s[%s]: correspondence script stopped: %s" % (prop, cfg, crash))
            results.append({"prop": prop, "config": cfg, "script": script, "evaluations": 0, "distinct_nontrivial": 0, "samples": [],
                            "dist": {"mismatch_ops": {"script-stopped": 1}}, "failures": [], "notes": [], "skipped": {},
                            "wall_s": 0.0,
                            "mismatches": [{"op": "script-stopped", "config": cfg, "inputs": None, "impl": crash,
                                            "model": None, "note": so[-3000:]}]})
            continue
        with open(out) as fh:
            data = json.load(fh)
        data["script"] = script
        for f in data.get("failures", []):
            f["script"] = script
        results.append(data)
        os.unlink(out)
        if so.strip():
            for line in so.strip().split("\n")[-10:]:
                log("%s[%s]: %s" % (prop, cfg, line))
    return results


INFRA_EXC = ("MemoryError", "ImportError", "ModuleNotFoundError", "OSError", "FileNotFoundError", "BrokenPipeError",
             "PermissionError", "KeyboardInterrupt", "SyntaxError", "IndentationError", "DriverError", "TimeoutError",
             "BlockingIOError", "ConnectionError", "subprocess.")


def script_crash(so):
    """last line of an uncaught-exception traceback of a property script, when the exception is one that the data
    returned by the implementation can cause (ValueError, IndexError, ...); None for infrastructure trouble"""
    if "Traceback (most recent call last)" not in so:
        return None
    last = [ln for ln in so.strip().split("\n") if ln.strip()][-1].strip()
    if any(last.startswith(e) or (e.endswith(".") and e in last.split(":")[0]) for e in INFRA_EXC):
        return None
    return last[:300]


# ---------------------------------------------------------------------------------- change-directed effort
def relevant_changes(prop):
    """units (functions / Fortran procedures / glue files) of /repo that differ from the tree this framework was last
    validated on AND live in a file the property is anchored in (properties.jsonl) or in the C glue.  Only used to
    decide how much to explore, never for the verdict."""
    try:
        ch = fingerprint.changed(os.environ.get("BEZIER_REPO", "/repo"))
        if not ch:
            return []
        files = set()
        with open(os.path.join(VERIF, "properties.jsonl")) as fh:
            for line in fh:
                rec = json.loads(line)
                if rec.get("id") == prop:
                    files = set(rec.get("anchors", {}).get("files", []))
        glue = ("_speedup.c", "_speedup.pyx", ".pxd", ".h")
        return [u for u in ch if fingerprint.unit_file(u) in files or fingerprint.unit_file(u).endswith(glue)]
    except Exception as exc:  # noqa  (never let the effort heuristic break a check)
        log("fingerprint comparison failed: %r" % (exc,))
        return []


# ---------------------------------------------------------------------------------- findings
def load_findings(prop):
    """known_findings.txt: `finding: property=<id> key=<key> config=<cfg> :: <what>`"""
    out = []
    p = os.path.join(VERIF, "known_findings.txt")
    if not os.path.exists(p):
        return out
    with open(p) as fh:
        for line in fh:
            line = line.strip()
            m = re.match(r"finding:\s+property=(\S+)\s+key=(\S+)\s+config=(\S+)\s+::\s+(.*)", line)
            if m and m.group(1) == prop:
                key = m.group(2)
                keys = None
                if key.startswith("@"):
                    with open(os.path.join(VERIF, key[1:])) as kf:
                        keys = {l.strip() for l in kf if l.strip() and not l.startswith("#")}
                out.append({"key": key, "keys": keys, "config": m.group(3), "what": m.group(4)})
    return out


def match_finding(findings, failure):
    for f in findings:
        if f["config"] not in ("both", failure["config"], {"pure": "py", "speedup": "f90"}.get(failure["config"])):
            continue
        if f["keys"] is not None:
            if failure["key"] in f["keys"]:
                return f
        elif f["key"] == failure["key"]:
            return f
    return None


def write_replay(prop, payload):
    os.makedirs(os.path.join(VERIF, "replays"), exist_ok=True)
    h = hashlib.sha1(json.dumps(payload, sort_keys=True, default=str).encode()).hexdigest()[:12]
    path = os.path.join("replays", "%s-%s.json" % (prop, h))
    with open(os.path.join(VERIF, path), "w") as fh:
        json.dump(payload, fh, indent=1, default=str)
    return path


# ---------------------------------------------------------------------------------- main
def main():
    if len(sys.argv) < 3:
        print(__doc__)
        sys.exit(2)
    prop = sys.argv[1]
    if prop not in PROPS:
        infra("unknown property " + prop)
    if sys.argv[2] == "--replay":
        return replay(prop, sys.argv[3])
    tier = sys.argv[2] if sys.argv[2] in ("quick", "thorough") else os.environ.get("VERIF_TIER", "quick")
    seed = int(os.environ.get("VERIF_SEED", "0") or 0)
    t0 = time.time()
    spec = PROPS[prop]

    build = build_repo.build()
    log("build of /repo working tree: " + build)
    env = dict(os.environ, BEZIER_PKG=os.path.join(build, "pkg_pure"))
    lake_lock()
    try:
        r = subprocess.run([PY, os.path.join(HERE, "extract.py")], env=env, stdout=subprocess.PIPE, stderr=subprocess.STDOUT, text=True)
        if r.returncode != 0:
            infra("extractor crashed:\n" + r.stdout[-3000:])
        extract_problems = [l for l in r.stdout.split("\n") if l.startswith("EXTRACT-PROBLEM")]
        for extra in spec.get("extractors", []):
            r2 = subprocess.run([PY, os.path.join(HERE, extra)], env=env, stdout=subprocess.PIPE, stderr=subprocess.STDOUT, text=True)
            if r2.returncode != 0:
                infra("extractor %s crashed:\n%s" % (extra, r2.stdout[-3000:]))
            extract_problems += [l for l in r2.stdout.split("\n") if l.startswith("EXTRACT-PROBLEM")]
        ensure_driver()
        lean = lean_obligations(prop)
        lean["leanchecker"] = None
        if tier == "thorough" and not lean["broken"]:
            # independent re-check of the compiled .olean files of the property's modules (and their imports)
            t1 = time.time()
            rc_ = subprocess.run(["lake", "env", "leanchecker"] + lean["modules"], cwd=LEAN, stdout=subprocess.PIPE,
                                 stderr=subprocess.STDOUT, text=True)
            lean["leanchecker"] = {"rc": rc_.returncode, "wall_s": round(time.time() - t1, 1), "tail": rc_.stdout[-400:]}
            if rc_.returncode != 0:
                lean["broken"].append("leanchecker rejected the compiled modules: " + rc_.stdout[-300:])
                lean["discharged"] = 0
    finally:
        lake_unlock()
    log("lean: %d/%d obligations discharged in %.1fs%s" % (lean["discharged"], lean["obligations"], lean["build_s"],
                                                            "" if not lean["broken"] else "; BROKEN: " + "; ".join(lean["broken"][:6])))
    results = run_scripts(prop, tier, seed, build)

    # change-directed effort: units of this property's anchor files that differ from the validated baseline tree
    changed_units = relevant_changes(prop)
    escalated = []
    if changed_units and not any(res["failures"] for res in results):
        n_extra = int(os.environ.get("VERIF_ESCALATE", "2"))
        budget = float(os.environ.get("VERIF_ESCALATE_BUDGET", "420" if tier == "quick" else "7200"))
        log("source units changed w.r.t. the validated tree: %s%s" % (", ".join(changed_units[:6]), " ..." if len(changed_units) > 6 else ""))
        for k in range(1, n_extra + 1):
            if time.time() - t0 > budget:
                log("escalation budget used up after %d extra pass(es)" % (k - 1))
                break
            s2 = seed + 1009 * k
            log("extra pass %d with seed %d" % (k, s2))
            extra = run_scripts(prop, tier, s2, build, extra_env=dict({"VERIF_FOCUS": " ".join(changed_units)}, **({"VERIF_SEARCH": "1"} if k % 2 == 0 else {})),
                                tag="esc%d" % k)
            for res in extra:
                res["config"] = "%s@seed%d" % (res["config"], s2)
            results += extra
            escalated.append(s2)
            if any(res["failures"] for res in extra):
                break

    findings = load_findings(prop)
    violations = []
    known_hit = {}
    failures = [f for res in results for f in res["failures"]]
    mismatches = [m for res in results for m in res["mismatches"] if m]
    n_mismatch = sum(sum(res["dist"].get("mismatch_ops", {}).values()) for res in results)
    for f in failures:
        kf = match_finding(findings, f)
        if kf:
            known_hit.setdefault(kf["key"], kf)
        else:
            violations.append(f)

    searched = None
    if not violations and (lean["broken"] or n_mismatch):
        # a proof obligation or the correspondence is broken: search for a concrete failing input
        log("obligation / correspondence broken -> searching for a failing input on the real code")
        sres = run_scripts(prop, tier, seed + 7919, build, extra_env={"VERIF_SEARCH": "1"}, tag="search")
        searched = {"evaluations": sum(x["evaluations"] for x in sres)}
        for res in sres:
            for f in res["failures"]:
                kf = match_finding(findings, f)
                if kf:
                    known_hit.setdefault(kf["key"], kf)
                else:
                    violations.append(f)

    lines = []
    for key, kf in known_hit.items():
        lines.append("KNOWN-FINDING: property=%s %s [key=%s]" % (prop, kf["what"], key))
    exit_code = 0
    if violations:
        # one line per distinct key (first witness of each)
        seen = set()
        for v in violations:
            if v["key"] in seen:
                continue
            seen.add(v["key"])
            path = write_replay(prop, {"property": prop, "kind": "failing-input", "failure": v,
                                        "replay_cmd": "./check %s --replay <this file>" % prop})
            lines.append("VIOLATION property=%s replay=%s" % (prop, path))
        exit_code = 1
    elif lean["broken"] or n_mismatch:
        payload = {"property": prop, "kind": "no-failing-input-found",
                   "broken_obligations": lean["broken"],
            "leanchecker": lean.get("leanchecker"), "lean_errors": lean["errors"][:20],
                   "correspondence_mismatches": mismatches[:20], "extract_problems": extract_problems,
                   "search": searched}
        path = write_replay(prop, payload)
        lines.append("VIOLATION property=%s replay=%s no-failing-input-found" % (prop, path))
        exit_code = 1

    write_evidence(prop, tier, seed, lean, results, known_hit, violations, extract_problems, time.time() - t0, searched,
                   changed_units, escalated)
    for l in lines:
        print(l, flush=True)
    log("%s %s: %s in %.1fs" % (prop, tier, "HELD" if exit_code == 0 else "VIOLATION", time.time() - t0))
    sys.exit(exit_code)


def write_evidence(prop, tier, seed, lean, results, known_hit, violations, extract_problems, wall, searched,
                   changed_units=(), escalated=()):
    spec = PROPS[prop]
    samples = []
    for res in results:
        samples += res["samples"][:4]
    multi = len(spec.get("scripts", [])) > 1

    def rkey(res):
        return res["config"] if not multi else "%s:%s" % (os.path.basename(res.get("script", "?"))[:-3], res["config"])
    dist = {rkey(res): res["dist"] for res in results}
    ev = {
        "property_id": prop, "tier": tier, "seed": seed, "level": "proof",
        "coverage": {
            "obligations": max(lean["obligations"], 1), "discharged": lean["discharged"],
            "checker_cmd": "cd lean && lake build " + " ".join(lean["modules"]) + " && lake env lean BezierVerif/Audit/%s.lean  (#print axioms of every theorem)" % prop
                           + ("" if tier != "thorough" else " && lake env leanchecker " + " ".join(lean["modules"])),
            "trusted_base": spec.get("trusted_base", []) + [
                "Lean 4.33.0 kernel; axioms allowed: propext, Classical.choice, Quot.sound (audited per theorem, listed under axioms)",
                "Mathlib v4.33.0 definitions used in statements",
                "harness/extract.py (translator for constants, tables, Fortran closed forms)",
                "harness correspondence (Python) and the compiled Lean driver (core Rat)"],
            "theorems": sorted(lean["axioms"].keys()),
            "axioms": lean["axioms"],
            "broken_obligations": lean["broken"],
            "partial": spec.get("partial", []),
            "evaluations": sum(res["evaluations"] for res in results),
            "distinct_nontrivial": sum(res["distinct_nontrivial"] for res in results),
            "rule": spec.get("rule", ""),
            "samples": samples or ["(no correspondence samples)"],
            "traces_validated_against_impl": sum(res["evaluations"] for res in results),
            "distribution": dist,
            "correspondence_mismatches": sum(sum(res["dist"].get("mismatch_ops", {}).values()) for res in results),
            "known_findings_hit": sorted(known_hit.keys()),
            "skipped": {rkey(res): res["skipped"] for res in results},
            "extract_problems": extract_problems,
            "search_after_break": searched,
            "source_units_changed_since_validated_tree": list(changed_units),
            "extra_seeds_run_because_of_source_changes": list(escalated),
            "notes": [n for res in results for n in res["notes"]],
        },
        "assumptions": spec.get("assumptions", []),
        "wall_s": round(wall, 2),
        "violations": len(violations),
    }
    os.makedirs(os.path.join(VERIF, "evidence"), exist_ok=True)
    with open(os.path.join(VERIF, "evidence", prop + ".json"), "w") as fh:
        json.dump(ev, fh, indent=1, default=str)


def replay(prop, path):
    with open(path if os.path.isabs(path) else os.path.join(VERIF, path)) as fh:
        payload = json.load(fh)
    build = build_repo.build()
    if payload.get("kind") != "failing-input":
        print(json.dumps(payload, indent=1)[:4000])
        print("replay: this file names broken obligations / correspondence; re-run ./check %s quick" % prop)
        sys.exit(1)
    f = payload["failure"]
    cfg = f.get("config", "speedup")
    env = dict(os.environ)
    env.update({"BEZIER_PKG": os.path.join(build, "pkg_" + cfg), "BEZIER_CONFIG": cfg, "BEZIER_BUILD": build,
                "PYTHONPATH": HERE, "VERIF_REPLAY": json.dumps(f["replay"])})
    env.pop("VERIF_RESULT", None)
    r = subprocess.run([PROPS[prop].get("python", {}).get(cfg, PY), os.path.join(HERE, f.get("script") or PROPS[prop]["script"])], env=env, cwd=VERIF)
    sys.exit(r.returncode)


if __name__ == "__main__":
    main()
