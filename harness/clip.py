"""Exact rational planar geometry for the C06 oracle (independent of the library and of the Lean model).

* straight triangles / convex polygons: Sutherland-Hodgman clipping on Fractions, shoelace area,
  exact point classification;
* general simple polygons in general position: exact area of the intersection by Green's theorem
  over the boundary pieces (dPA inside PB) + (dPB inside PA), exact crossing-number membership;
* curved (polynomial) edges: binary subdivision of the exact control nets to polylines with the
  certified bound  dist(curve, chord) <= n(n-1)/8 * max|D^2 v|  per coordinate (degree n, second
  differences of the sub-net); ENCLOSURE of the common area of two curved regions = exact area of the chord
  polygons' intersection + exact sliver areas (Green) of the pieces away from the other boundary +- hull areas of
  the few pieces near a crossing (refined adaptively); three-valued membership test (inside / outside / too
  close to decide) by exact winding numbers.

All numbers are `fractions.Fraction` (or ints); nothing here uses floating point.
"""
from fractions import Fraction as Fr


# ------------------------------------------------------------------ basic predicates
def cross(o, a, b):
    return (a[0] - o[0]) * (b[1] - o[1]) - (a[1] - o[1]) * (b[0] - o[0])


def area2(poly):
    """twice the signed area (shoelace)"""
    n = len(poly)
    return sum(poly[i][0] * poly[(i + 1) % n][1] - poly[(i + 1) % n][0] * poly[i][1] for i in range(n))


def area(poly):
    return Fr(area2(poly)) / 2 if poly else Fr(0)


def on_segment(p, a, b):
    return cross(a, b, p) == 0 and min(a[0], b[0]) <= p[0] <= max(a[0], b[0]) and min(a[1], b[1]) <= p[1] <= max(a[1], b[1])


def clean(poly):
    """drop repeated and collinear vertices of a convex polygon given in order"""
    out = []
    for p in poly:
        if not out or out[-1] != p:
            out.append(p)
    while len(out) > 1 and out[0] == out[-1]:
        out.pop()
    changed = True
    while changed and len(out) >= 3:
        changed = False
        for i in range(len(out)):
            a, b, c = out[i - 1], out[i], out[(i + 1) % len(out)]
            if cross(a, b, c) == 0:
                del out[i]
                changed = True
                break
    return out


# ------------------------------------------------------------------ convex clipping
def clip_halfplane(poly, a, b):
    """part of the (convex, any orientation) polygon on the left of / on the directed line a->b"""
    out = []
    n = len(poly)
    for i in range(n):
        p, q = poly[i], poly[(i + 1) % n]
        sp, sq = cross(a, b, p), cross(a, b, q)
        if sp >= 0:
            out.append(p)
        if (sp > 0 and sq < 0) or (sp < 0 and sq > 0):
            t = Fr(sp) / Fr(sp - sq)
            out.append((p[0] + t * (q[0] - p[0]), p[1] + t * (q[1] - p[1])))
    return out


def clip_convex(subject, clipper):
    """Sutherland-Hodgman: subject ∩ clipper, clipper convex and positively oriented.
    Result: cleaned vertex list, positively oriented; [] when the common set has zero area."""
    poly = [(Fr(x), Fr(y)) for x, y in subject]
    cl = [(Fr(x), Fr(y)) for x, y in clipper]
    assert area2(cl) > 0
    for i in range(len(cl)):
        if not poly:
            break
        poly = clip_halfplane(poly, cl[i], cl[(i + 1) % len(cl)])
    poly = clean(poly)
    if len(poly) < 3 or area2(poly) == 0:
        return []
    if area2(poly) < 0:
        poly.reverse()
    return poly


def point_in_convex(p, poly):
    """+1 strictly inside, 0 on the boundary, -1 outside (poly positively oriented, convex)"""
    s = [cross(poly[i], poly[(i + 1) % len(poly)], p) for i in range(len(poly))]
    if any(x < 0 for x in s):
        return -1
    return 0 if any(x == 0 for x in s) else 1


def canonical_cycle(poly):
    """rotation-normalised vertex tuple (starts at the lexicographically smallest vertex)"""
    if not poly:
        return ()
    k = min(range(len(poly)), key=lambda i: poly[i])
    return tuple(poly[k:] + poly[:k])


# ------------------------------------------------------------------ general polygons
def point_in_polygon(p, poly):
    """exact crossing number: +1 inside, 0 on the boundary, -1 outside (simple polygon, any orientation)"""
    inside = False
    n = len(poly)
    px, py = p
    for i in range(n):
        a, b = poly[i], poly[(i + 1) % n]
        if on_segment(p, a, b):
            return 0
        if (a[1] > py) != (b[1] > py):
            # x of the edge at height py compared with px, without division
            d = b[1] - a[1]
            lhs = (px - a[0]) * d
            rhs = (py - a[1]) * (b[0] - a[0])
            if (lhs < rhs) == (d > 0):
                inside = not inside
    return 1 if inside else -1


def winding_number(p, poly):
    """exact winding number of a closed polyline around p (None when p is on it)"""
    wn = 0
    n = len(poly)
    for i in range(n):
        a, b = poly[i], poly[(i + 1) % n]
        if on_segment(p, a, b):
            return None
        if a[1] <= p[1]:
            if b[1] > p[1] and cross(a, b, p) > 0:
                wn += 1
        elif b[1] <= p[1] and cross(a, b, p) < 0:
            wn -= 1
    return wn


class Degenerate(Exception):
    """the input is not in general position for the boundary-integral area"""


def _seg_params(a, b, c, d):
    """parameters along a->b where it properly meets c->d; raises Degenerate on collinear overlap"""
    d1 = cross(c, d, a)
    d2 = cross(c, d, b)
    d3 = cross(a, b, c)
    d4 = cross(a, b, d)
    if d1 == 0 and d2 == 0:
        # collinear: overlap?
        if max(min(a[0], b[0]), min(c[0], d[0])) <= min(max(a[0], b[0]), max(c[0], d[0])) and \
           max(min(a[1], b[1]), min(c[1], d[1])) <= min(max(a[1], b[1]), max(c[1], d[1])):
            if (a, b) != (c, d):
                raise Degenerate("collinear overlapping edges")
        return []
    if (d1 > 0) == (d2 > 0) and d1 != 0 and d2 != 0:
        return []
    if (d3 > 0) == (d4 > 0) and d3 != 0 and d4 != 0:
        return []
    if d1 == d2:
        return []
    return [Fr(d1) / Fr(d1 - d2)]


def _boundary_part(pa, pb, bboxes_b):
    """sum of (x0*y1 - x1*y0) over the pieces of the edges of pa that lie inside pb"""
    tot = Fr(0)
    nb = len(pb)
    pb2 = [(2 * x, 2 * y) for x, y in pb]
    for i in range(len(pa)):
        a, b = pa[i], pa[(i + 1) % len(pa)]
        lox, hix = min(a[0], b[0]), max(a[0], b[0])
        loy, hiy = min(a[1], b[1]), max(a[1], b[1])
        cuts = [Fr(0), Fr(1)]
        for j in range(nb):
            bx0, bx1, by0, by1 = bboxes_b[j]
            if bx1 < lox or hix < bx0 or by1 < loy or hiy < by0:
                continue
            cuts += _seg_params(a, b, pb[j], pb[(j + 1) % nb])
        cuts = sorted(set(c for c in cuts if 0 <= c <= 1))
        for u, v in zip(cuts[:-1], cuts[1:]):
            if u == 0 and v == 1:
                mid2 = (a[0] + b[0], a[1] + b[1])          # twice the midpoint: stays integral on integer input
            else:
                m = u + v
                mid2 = (2 * a[0] + m * (b[0] - a[0]), 2 * a[1] + m * (b[1] - a[1]))
            w = point_in_polygon(mid2, pb2)
            if w == 0:
                raise Degenerate("edge piece on the other boundary")
            if w > 0:
                p0 = (a[0] + u * (b[0] - a[0]), a[1] + u * (b[1] - a[1]))
                p1 = (a[0] + v * (b[0] - a[0]), a[1] + v * (b[1] - a[1]))
                tot += p0[0] * p1[1] - p1[0] * p0[1]
    return tot


def _bboxes(p):
    n = len(p)
    return [(min(p[i][0], p[(i + 1) % n][0]), max(p[i][0], p[(i + 1) % n][0]),
             min(p[i][1], p[(i + 1) % n][1]), max(p[i][1], p[(i + 1) % n][1])) for i in range(n)]


def polygon_intersection_area(pa, pb):
    """exact area of PA ∩ PB for two simple, positively oriented polygons whose boundaries cross
    transversally (no overlapping collinear edges): Green's theorem over dPA∩PB and dPB∩PA"""
    if area2(pa) <= 0 or area2(pb) <= 0:
        raise Degenerate("orientation")
    return (_boundary_part(pa, pb, _bboxes(pb)) + _boundary_part(pb, pa, _bboxes(pa))) / 2


# ------------------------------------------------------------------ curved edges
def subdivide_half(row):
    """exact de Casteljau split of one coordinate row at 1/2 -> (left, right)"""
    cur = list(row)
    left, right = [cur[0]], [cur[-1]]
    while len(cur) > 1:
        cur = [(cur[i] + cur[i + 1]) / 2 for i in range(len(cur) - 1)]
        left.append(cur[0])
        right.append(cur[-1])
    return left, right[::-1]


def second_diff_bound(xs, ys):
    """n(n-1)/8 * max_j |D^2 v_j| per coordinate -> (bx, by): every curve point is within (bx, by)
    (coordinate-wise) of the chord point with the same parameter"""
    n = len(xs) - 1
    if n < 2:
        return Fr(0), Fr(0)
    c = Fr(n * (n - 1), 8)
    bx = max(abs(xs[j + 2] - 2 * xs[j + 1] + xs[j]) for j in range(n - 1))
    by = max(abs(ys[j + 2] - 2 * ys[j + 1] + ys[j]) for j in range(n - 1))
    return c * bx, c * by


def curve_polyline(xs, ys, depth):
    """[(p_i, ...)] vertices of the chord polyline after `depth` binary subdivisions (without the last
    point) and the certified sup-norm distance bound eps (max over pieces of max(bx, by))"""
    pieces = [(list(map(Fr, xs)), list(map(Fr, ys)))]
    for _ in range(depth):
        nxt = []
        for px, py in pieces:
            lx, rx = subdivide_half(px)
            ly, ry = subdivide_half(py)
            nxt.append((lx, ly))
            nxt.append((rx, ry))
        pieces = nxt
    eps = Fr(0)
    pts = []
    for px, py in pieces:
        bx, by = second_diff_bound(px, py)
        eps = max(eps, bx, by)
        pts.append((px[0], py[0]))
    return pts, eps


def boundary_polyline(edges, depth):
    """closed polyline of a chain of edges [(xs, ys), ...] and its distance bound"""
    pts, eps = [], Fr(0)
    for xs, ys in edges:
        p, e = curve_polyline(xs, ys, depth)
        pts += p
        eps = max(eps, e)
    return pts, eps


def to_int_poly(poly, bits, exact=True):
    """coordinates * 2^bits as Python ints (exact: must be representable; otherwise rounded to nearest,
    the caller adds 2^-bits to its distance bound)"""
    sc = 1 << bits
    out = []
    for x, y in poly:
        xs, ys = Fr(x) * sc, Fr(y) * sc
        if exact:
            if xs.denominator != 1 or ys.denominator != 1:
                raise ValueError("coordinate not on the 2^-%d grid" % bits)
            out.append((xs.numerator, ys.numerator))
        else:
            out.append((round(xs), round(ys)))
    return out


def _green_edge(xs, ys):
    """exact 1/2 * integral of (x dy - y dx) over one polynomial edge (Bernstein coefficients)"""
    n = len(xs) - 1
    from math import comb
    tot = Fr(0)
    # x y' - y x' with y' = n * sum C(n-1,j) B_j^{n-1} (y_{j+1} - y_j); integral of B_i^n B_j^{n-1} = C(n,i)C(n-1,j)/(C(2n-1,i+j) 2n)
    for i in range(n + 1):
        for j in range(n):
            w = Fr(comb(n, i) * comb(n - 1, j), comb(2 * n - 1, i + j) * 2 * n)
            tot += w * n * (xs[i] * (ys[j + 1] - ys[j]) - ys[i] * (xs[j + 1] - xs[j]))
    return tot / 2


def _piece_bbox(px, py):
    return (min(px), max(px), min(py), max(py))


def _hull_area_bound(px, py):
    """area bound of the convex hull of the control points of one piece:
    (extent along the chord) * (extent across the chord), both through exact cross / dot products"""
    ax, ay, bx, by = px[0], py[0], px[-1], py[-1]
    dx, dy = bx - ax, by - ay
    l2 = dx * dx + dy * dy
    if l2 == 0:
        w, h = max(px) - min(px), max(py) - min(py)
        return w * h
    cr = [dx * (y - ay) - dy * (x - ax) for x, y in zip(px, py)]
    pr = [dx * (x - ax) + dy * (y - ay) for x, y in zip(px, py)]
    return (max(pr) - min(pr)) * (max(cr) - min(cr)) / l2


def _split_pieces(pieces):
    out = []
    for px, py in pieces:
        lx, rx = subdivide_half(px)
        ly, ry = subdivide_half(py)
        out.append((lx, ly))
        out.append((rx, ry))
    return out


def curved_common_area(edges_a, edges_b, depth=4, bits=64, max_depth=11):
    """ENCLOSURE (lo, hi) of area(A ∩ B) for two regions bounded by closed, positively oriented, simple chains of
    polynomial edges with dyadic control points.

    Both boundaries are cut into pieces (uniformly to `depth`, then only the pieces whose control-point boxes meet a
    box of the other boundary are refined further, up to `max_depth`).  With PA, PB the chord polygons and
    sigma_i = (signed) indicator of the sliver between piece i and its chord,
        area(A∩B) = area(PA∩PB) + sum_i int sigma_i 1_B + sum_j int tau_j 1_PA .
    A piece whose box meets no box of the other boundary lies entirely inside or outside the other region, its term
    is the exact sliver area (Green) or 0; every other piece contributes at most the area of the convex hull of its
    control points (|sigma_i| <= 1: piece + chord is a simple closed curve for the short pieces used here).
    Also returns integer chord polygons on the 2^-bits grid with their distance bounds in grid units."""
    pcs = []
    for edges in (edges_a, edges_b):
        pieces = [(list(map(Fr, xs)), list(map(Fr, ys))) for xs, ys in edges]
        for _ in range(depth):
            pieces = _split_pieces(pieces)
        pcs.append(pieces)
    level = depth
    while True:
        boxes = [[_piece_bbox(px, py) for px, py in pieces] for pieces in pcs]
        amb = [set(), set()]
        for i, ba in enumerate(boxes[0]):
            for j, bb in enumerate(boxes[1]):
                if not (ba[1] < bb[0] or bb[1] < ba[0] or ba[3] < bb[2] or bb[3] < ba[2]):
                    amb[0].add(i)
                    amb[1].add(j)
        if level >= max_depth or not amb[0]:
            break
        for side in (0, 1):
            nxt = []
            for i, pc in enumerate(pcs[side]):
                nxt += _split_pieces([pc]) if i in amb[side] else [pc]
            pcs[side] = nxt
        level += 1
    sc = 1 << bits
    polys, epss = [], []
    for pieces in pcs:
        polys.append(to_int_poly([(px[0], py[0]) for px, py in pieces], bits))
        epss.append(max(max(second_diff_bound(px, py)) for px, py in pieces))
    mid = polygon_intersection_area(polys[0], polys[1]) / (sc * sc)
    corr, err = Fr(0), Fr(0)
    for side in (0, 1):
        other2 = [(2 * x, 2 * y) for x, y in polys[1 - side]]
        for i, (px, py) in enumerate(pcs[side]):
            if len(px) <= 2:
                continue                      # a straight piece has no sliver
            if i in amb[side]:
                err += _hull_area_bound(px, py)
                continue
            m2 = (int((px[0] + px[-1]) * sc), int((py[0] + py[-1]) * sc))
            w = point_in_polygon(m2, other2)
            if w == 0:
                raise Degenerate("chord midpoint on the other boundary")
            if w > 0:
                corr += _green_edge(px, py) - (px[0] * py[-1] - px[-1] * py[0]) / 2
    return mid + corr - err, mid + corr + err, (polys[0], epss[0] * sc, polys[1], epss[1] * sc)


def dist2_point_segment_lower(p, a, b):
    """exact squared distance point - segment"""
    dx, dy = b[0] - a[0], b[1] - a[1]
    den = dx * dx + dy * dy
    if den == 0:
        return (p[0] - a[0]) ** 2 + (p[1] - a[1]) ** 2
    t = Fr((p[0] - a[0]) * dx + (p[1] - a[1]) * dy) / den
    t = max(Fr(0), min(Fr(1), t))
    qx, qy = a[0] + t * dx, a[1] + t * dy
    return (p[0] - qx) ** 2 + (p[1] - qy) ** 2


def inside_curved(p, poly, eps):
    """membership of p in the region bounded by the exact curves whose chord polyline is `poly`
    (distance bound eps, sup norm): True / False, or None when p is within 2*eps (Euclidean 2*sqrt2*eps
    bounded by 3 eps) of the polyline, where the polyline does not decide."""
    lim = (3 * eps) ** 2
    n = len(poly)
    for i in range(n):
        a, b = poly[i], poly[(i + 1) % n]
        if min(a[0], b[0]) - 3 * eps <= p[0] <= max(a[0], b[0]) + 3 * eps and \
           min(a[1], b[1]) - 3 * eps <= p[1] <= max(a[1], b[1]) + 3 * eps:
            if dist2_point_segment_lower(p, a, b) <= lim:
                return None
    w = winding_number(p, poly)
    if w is None:
        return None
    return w != 0


# ------------------------------------------------------------------ triangles
def tri_corners(nodes, degree):
    """corner points (exact) of a triangle net given as two rows"""
    n = (degree + 1) * (degree + 2) // 2
    idx = (0, degree, n - 1)
    return [(Fr(nodes[0][i]), Fr(nodes[1][i])) for i in idx]


def triangle_common(t1, t2):
    """exact common polygon of two positively oriented straight triangles (vertex lists)"""
    return clip_convex(t1, t2)
