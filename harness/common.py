"""Shared plumbing of the correspondence harness.

* which package tree (pure / speedup) is imported is decided by BEZIER_PKG (set by `check`);
* `Driver` talks to the Lean model (compiled `driver`, K := Rat) over the line protocol;
* numbers cross the boundary as exact rationals (`Fraction(float)` is exact);
* `Result` collects what a run covered, mismatches (model vs implementation) and oracle
  failures (property vs implementation).
"""
import hashlib
import json
import os
import random
import subprocess
import sys
import time
from fractions import Fraction as Fr

VERIF = os.path.dirname(os.path.dirname(os.path.abspath(__file__)))
LEAN = os.path.join(VERIF, "lean")
DRIVER = os.path.join(LEAN, ".lake", "build", "bin", "driver")
U = Fr(1, 2 ** 53)


def import_bezier():
    """import the package tree selected by BEZIER_PKG (never the wheel in /venv)"""
    pkg = os.environ.get("BEZIER_PKG")
    if not pkg:
        raise SystemExit("BEZIER_PKG not set (run through ./check)")
    if pkg not in sys.path:
        sys.path.insert(0, pkg)
    import bezier  # noqa
    if os.path.dirname(os.path.dirname(bezier.__file__)) != pkg:
        # infrastructure trouble (the build directory vanished), never a statement about the library
        raise ImportError("bezier imported from %s instead of the build %s" % (bezier.__file__, pkg))
    return bezier


def config_name():
    return os.environ.get("BEZIER_CONFIG", "speedup")


# ---------------------------------------------------------------- values
def enc(v):
    """encode python value (int, Fraction, float, bool, nested list/tuple/ndarray) for the driver"""
    import numpy as np
    if isinstance(v, bool):
        return "1" if v else "0"
    if isinstance(v, (int,)):
        return str(v)
    if isinstance(v, Fr):
        return str(v.numerator) if v.denominator == 1 else "%d/%d" % (v.numerator, v.denominator)
    if isinstance(v, (float, np.floating)):
        return enc(Fr(float(v)))
    if isinstance(v, np.integer):
        return str(int(v))
    if isinstance(v, np.ndarray):
        return enc(v.tolist())
    if isinstance(v, (list, tuple)):
        return "[" + ",".join(enc(x) for x in v) + "]"
    raise TypeError(type(v))


def dec(s):
    """decode a driver value into nested lists of Fractions"""
    pos = 0

    def val():
        nonlocal pos
        if s[pos] == "[":
            pos += 1
            out = []
            if s[pos] == "]":
                pos += 1
                return out
            while True:
                out.append(val())
                if s[pos] == ",":
                    pos += 1
                    continue
                if s[pos] == "]":
                    pos += 1
                    return out
                raise ValueError(s)
        j = pos
        while j < len(s) and s[j] not in ",]":
            j += 1
        tok = s[pos:j]
        pos = j
        if "/" in tok:
            a, b = tok.split("/")
            return Fr(int(a), int(b))
        return Fr(int(tok))

    return val()


class Driver:
    """batch interface: queue request lines, run the compiled model once, get replies in order"""

    def __init__(self):
        for _ in range(120):            # a concurrent `lake build driver` replaces the binary: wait for it
            if os.path.exists(DRIVER):
                break
            time.sleep(1)
        else:
            raise SystemExit("driver not built: run ./setup.sh")
        self.lines = []

    def ask(self, op, *args):
        self.lines.append(op + " " + " ".join(enc(a) for a in args))
        return len(self.lines) - 1

    def run(self):
        data = "\n".join(self.lines) + "\n"
        r = subprocess.run([DRIVER], input=data, stdout=subprocess.PIPE, stderr=subprocess.PIPE, text=True)
        if r.returncode != 0:
            raise SystemExit("driver failed: " + r.stderr[:2000])
        out = r.stdout.split("\n")
        if out and out[-1] == "":
            out.pop()
        if len(out) != len(self.lines):
            raise SystemExit("driver reply count %d != %d" % (len(out), len(self.lines)))
        res = []
        for line, req in zip(out, self.lines):
            if line.startswith("ok "):
                res.append(("ok", dec(line[3:])))
            elif line.startswith("err "):
                res.append(("err", line[4:].strip()))
            else:
                raise SystemExit("driver protocol error: %r for request %r" % (line, req[:300]))
        self.lines = []
        return res


def driver_call(op, *args):
    d = Driver()
    d.ask(op, *args)
    return d.run()[0]


# ---------------------------------------------------------------- floats <-> exact
def to_fr(x):
    import numpy as np
    if isinstance(x, np.ndarray):
        return to_fr(x.tolist())
    if isinstance(x, (list, tuple)):
        return [to_fr(y) for y in x]
    if isinstance(x, Fr):
        return x
    if isinstance(x, bool):
        return Fr(int(x))
    return Fr(x)


def farr(rows):
    """Fortran-ordered float64 array from nested lists of Fractions/ints (must be exactly representable
    if exactness matters; conversion is round-to-nearest otherwise)"""
    import numpy as np
    return np.asfortranarray([[float(x) for x in r] for r in rows], dtype=np.float64)


def finite_cols(out):
    """(columns as pairs of Fractions, list of column indices holding a NaN / infinity) of a 2 x N float array"""
    import math
    cols, bad = [], []
    for c in range(out.shape[1]):
        a, b = float(out[0, c]), float(out[1, c])
        if math.isfinite(a) and math.isfinite(b):
            cols.append((Fr(a), Fr(b)))
        else:
            bad.append(c)
    return cols, bad


def is_exact_float(fr):
    return Fr(float(fr)) == fr


def hexf(x):
    return float(x).hex()


# ---------------------------------------------------------------- rng
def rng():
    seed = int(os.environ.get("VERIF_SEED", "0") or 0)
    return random.Random(seed), seed


def tier():
    return os.environ.get("VERIF_TIER", "quick")


# ---------------------------------------------------------------- results
class Result:
    def __init__(self, prop):
        self.prop = prop
        self.config = config_name()
        self.evaluations = 0
        self.keys = set()
        self.samples = []
        self.dist = {}
        self.mismatches = []    # model vs implementation (correspondence broken)
        self.failures = []      # property oracle vs implementation (a failing input)
        self.notes = []
        self.t0 = time.time()
        self.skipped = {}

    def count(self, key, nontrivial=True, **tags):
        """one explored case; key = canonical description (hashed); tags feed the distribution"""
        self.evaluations += 1
        if nontrivial:
            self.keys.add(hashlib.sha1(repr(key).encode()).hexdigest()[:16])
        for k, v in tags.items():
            d = self.dist.setdefault(k, {})
            d[str(v)] = d.get(str(v), 0) + 1

    def sample(self, s, cap=6):
        if len(self.samples) < cap:
            self.samples.append(s)

    def mismatch(self, op, inputs, impl, model, note=""):
        if len(self.mismatches) < 50:
            self.mismatches.append({"op": op, "config": self.config, "inputs": inputs, "impl": impl,
                                    "model": model, "note": note})
        else:
            self.mismatches.append(None) if False else None
        self.dist.setdefault("mismatch_ops", {})
        self.dist["mismatch_ops"][op] = self.dist["mismatch_ops"].get(op, 0) + 1

    def failure(self, key, what, replay):
        """a concrete input on which the property itself fails on the real code"""
        rec = {"key": key, "what": what, "config": self.config, "replay": replay}
        if len(self.failures) < 200:
            self.failures.append(rec)
        self.dist.setdefault("failure_keys", {})
        self.dist["failure_keys"][key] = self.dist["failure_keys"].get(key, 0) + 1

    def skip(self, why):
        self.skipped[why] = self.skipped.get(why, 0) + 1

    def dump(self):
        return {
            "prop": self.prop, "config": self.config, "evaluations": self.evaluations,
            "distinct_nontrivial": len(self.keys), "samples": self.samples, "dist": self.dist,
            "mismatches": self.mismatches, "failures": self.failures, "notes": self.notes,
            "skipped": self.skipped, "wall_s": round(time.time() - self.t0, 2),
        }

    def emit(self):
        out = os.environ.get("VERIF_RESULT")
        data = json.dumps(self.dump(), default=_json_default)
        if out:
            with open(out, "w") as fh:
                fh.write(data)
        else:
            print(data)


def _json_default(o):
    import numpy as np
    if isinstance(o, Fr):
        return str(o)
    if isinstance(o, np.ndarray):
        return o.tolist()
    if isinstance(o, (np.floating,)):
        return float(o)
    if isinstance(o, (np.integer,)):
        return int(o)
    if isinstance(o, (set, frozenset)):
        return sorted(o)
    return repr(o)


def jfr(x):
    """json-friendly exact rendering"""
    if isinstance(x, (list, tuple)):
        return [jfr(y) for y in x]
    if isinstance(x, Fr):
        return str(x)
    import numpy as np
    if isinstance(x, np.ndarray):
        return [jfr(y) for y in x.tolist()]
    if isinstance(x, float):
        return x.hex()
    return x


# ---------------------------------------------------------------- generated constants
_GEN = None


def generated(name, default=None):
    """value of a scalar `def` in Generated/Data.lean (Nat / Int / Rat / String)"""
    global _GEN
    import re
    if _GEN is None:
        _GEN = {}
        p = os.path.join(LEAN, "BezierVerif", "Generated", "Data.lean")
        with open(p) as fh:
            for line in fh:
                m = re.match(r"def (\w+) : (Nat|Int|Rat|String) := (.*)$", line.strip())
                if not m:
                    continue
                nm, ty, val = m.groups()
                if ty == "String":
                    _GEN[nm] = val.strip('"')
                    continue
                mm = re.match(r"\((-?\d+) : Rat\)(?:/(\d+))?$", val)
                if mm:
                    _GEN[nm] = Fr(int(mm.group(1)), int(mm.group(2) or 1))
                else:
                    _GEN[nm] = Fr(int(val)) if ty == "Rat" else int(val)
    return _GEN.get(name, default)


def replay_case():
    r = os.environ.get("VERIF_REPLAY")
    return json.loads(r) if r else None
