"""Curve pairs for the curve-curve intersection properties (C02, C03).

* the repository's own zoo: /repo/tests/functional/curves.json (+ curve_intersections.json), parsed the way
  tests/functional/utils.py::_convert_float does (ints, C99 hex floats, "N/D" -> float(N)/float(D)); the
  nets returned are the EXACT rational values of those binary64 numbers;
* seeded generators.  Every net returned is exactly representable in binary64 (checked), so that the exact
  specification and the library see the same curves.

A pair is a dict {"kind", "tag", "n1", "n2", "planted"} with n1, n2 = [[x..],[y..]] Fractions and
planted = None or a list of (a, b) parameter pairs at which B1(a) == B2(b) holds exactly by construction.
"""
import json
import os
from fractions import Fraction as Fr

REPO = os.environ.get("BEZIER_REPO", "/repo")
FNL = os.path.join(REPO, "tests", "functional")


# ------------------------------------------------------------------------------------------- zoo
def _convert(value):
    """exact value of the binary64 number the functional tests use"""
    if value is None:
        return None
    if isinstance(value, list):
        return [_convert(v) for v in value]
    if isinstance(value, int):
        return Fr(float(value))
    if value.startswith("0x") or value.startswith("-0x"):
        return Fr(float.fromhex(value))
    num, den = value.split("/")
    return Fr(float(num) / float(den))


def load_zoo():
    """{id: [[x..],[y..]]} (ids as in curves.json, insertion order by integer id)"""
    with open(os.path.join(FNL, "curves.json"), encoding="utf-8") as fh:
        raw = json.load(fh)
    out = {}
    for k in sorted(raw, key=int):
        out[k] = _convert(raw[k]["control_points"])
    return out


def zoo_listed():
    """the hand-written cases of curve_intersections.json: dicts id, curve1, curve2, type, s (list), t (list)"""
    with open(os.path.join(FNL, "curve_intersections.json"), encoding="utf-8") as fh:
        raw = json.load(fh)
    out = []
    for e in raw:
        out.append({"id": e["id"], "curve1": e["curve1"], "curve2": e["curve2"], "type": e["type"],
                    "s": _convert(e["curve1_params"]), "t": _convert(e["curve2_params"])})
    return out


def zoo_pairs(rnd, full=False, per_curve=8):
    """ordered pairs of zoo curves.  full: all 77 x 77 = 5929.  Otherwise every listed pair (both orders)
    plus, for every curve, `per_curve` seeded partners (>= 600 ordered pairs)."""
    zoo = load_zoo()
    ids = list(zoo)
    chosen = []
    seen = set()

    def add(a, b):
        if (a, b) not in seen:
            seen.add((a, b))
            chosen.append((a, b))
    if full:
        for a in ids:
            for b in ids:
                add(a, b)
    else:
        for e in zoo_listed():
            add(e["curve1"], e["curve2"])
            add(e["curve2"], e["curve1"])
        for a in ids:
            for b in rnd.sample(ids, per_curve):
                add(a, b)
    return [{"kind": "zoo", "tag": "%s x %s" % (a, b), "n1": zoo[a], "n2": zoo[b], "planted": None} for a, b in chosen]


# ------------------------------------------------------------------------------------------- exact helpers
def is_f64(x):
    try:
        return Fr(float(x)) == x
    except OverflowError:
        return False


def net_is_f64(net):
    return all(is_f64(v) for r in net for v in r)


def ev(row, s):
    cur = list(row)
    while len(cur) > 1:
        cur = [(1 - s) * cur[j] + s * cur[j + 1] for j in range(len(cur) - 1)]
    return cur[0]


def point(net, s):
    return [ev(net[0], s), ev(net[1], s)]


def tangent(net, s):
    n = len(net[0]) - 1
    return [n * ev([r[j + 1] - r[j] for j in range(n)], s) for r in net]


def specialize(net, a, b):
    out = []
    for row in net:
        n = len(row) - 1
        o = []
        for i in range(n + 1):
            cur = list(row)
            for t in [a] * (n - i) + [b] * i:
                cur = [(1 - t) * cur[k] + t * cur[k + 1] for k in range(len(cur) - 1)]
            o.append(cur[0])
        out.append(o)
    return out


def translate(net, dx, dy):
    return [[v + dx for v in net[0]], [v + dy for v in net[1]]]


def constant(net):
    return all(v == net[0][0] for v in net[0]) and all(v == net[1][0] for v in net[1])


def size(n1, n2):
    return max([Fr(1)] + [abs(v) for net in (n1, n2) for r in net for v in r])


# ------------------------------------------------------------------------------------------- generators
def random_smooth(rnd, deg, flip=False):
    """binary64 net advancing roughly monotonically in one coordinate (a regular-looking arc)"""
    x = rnd.uniform(-0.2, 0.1)
    y = rnd.uniform(0.2, 0.8)
    xs, ys = [], []
    for _ in range(deg + 1):
        xs.append(x)
        ys.append(y)
        x += rnd.uniform(0.3, 1.0) * (1.8 / deg)
        y += rnd.uniform(-1.0, 1.0) * (1.2 / deg)
    return [ys, xs] if flip else [xs, ys]


def random_pair(rnd, max_deg=8):
    d1, d2 = rnd.randint(1, max_deg), rnd.randint(1, max_deg)
    n1 = random_smooth(rnd, d1)
    n2 = random_smooth(rnd, d2, flip=rnd.random() < 0.6)
    # common power-of-two scale and a common offset (exact in binary64 after rounding each entry once)
    sc = 2.0 ** rnd.choice([0, 0, 0, -12, 10])
    off = rnd.choice([0.0, 0.0, 0.0, 3.0, -100.0])
    n1 = [[Fr(v * sc + off * sc) for v in r] for r in n1]
    n2 = [[Fr(v * sc + off * sc) for v in r] for r in n2]
    return {"kind": "random", "tag": "deg %d x %d scale %g offset %g" % (d1, d2, sc, off * sc), "n1": n1, "n2": n2,
            "planted": None}


def dyadic_net(rnd, deg, bits=3, span=4):
    return [[Fr(rnd.randint(-span * 2 ** bits, span * 2 ** bits), 2 ** bits) for _ in range(deg + 1)] for _ in range(2)]


def dyadic_param(rnd, bits, ends=0.25):
    if rnd.random() < ends:
        return Fr(rnd.choice([0, 1]))
    return Fr(rnd.randint(1, 2 ** bits - 1), 2 ** bits)


WITNESS_TANGENT_BBOX = ([[Fr(0), Fr(0), Fr(0)], [Fr(0), Fr(3), Fr(1)]],
                        [[Fr(0), Fr(1), Fr(2)], [Fr(1), Fr(2), Fr(1)]])


def lattice_pairs(rnd, count, grid=5, max_deg=4):
    """nets with all control points on {0..grid-1}^2: shared end points, touching boxes, repeated nodes,
    collinear control points arise constantly.  The first pair is the tangent-bounding-box witness."""
    out = [{"kind": "lattice", "tag": "witness tangent boxes, curve on the common line",
            "n1": [list(r) for r in WITNESS_TANGENT_BBOX[0]], "n2": [list(r) for r in WITNESS_TANGENT_BBOX[1]],
            "planted": [(Fr(1, 5), Fr(0)), (Fr(1), Fr(0))]}]

    def net(deg):
        return [[Fr(rnd.randrange(grid)) for _ in range(deg + 1)] for _ in range(2)]

    while len(out) < count:
        d1, d2 = rnd.randint(1, max_deg), rnd.randint(1, max_deg)
        n1, n2 = net(d1), net(d2)
        mode = rnd.choice(["free", "free", "shared-end", "end-on-node", "repeat", "axis-line", "diag-line", "touch"])
        if mode == "shared-end":
            i, j = rnd.choice([0, d1]), rnd.choice([0, d2])
            n2[0][j], n2[1][j] = n1[0][i], n1[1][i]
        elif mode == "end-on-node":
            i, j = rnd.choice([0, d1]), rnd.randint(0, d2)
            n2[0][j], n2[1][j] = n1[0][i], n1[1][i]
        elif mode == "repeat":
            k = rnd.randint(0, d1 - 1)
            n1[0][k + 1], n1[1][k + 1] = n1[0][k], n1[1][k]
        elif mode == "axis-line":
            # curve 1 on an axis-parallel line which is also a side of the other curve's box
            r = rnd.choice([0, 1])
            c = rnd.choice([min(n2[r]), max(n2[r])])
            n1[r] = [c] * (d1 + 1)
        elif mode == "diag-line":
            c = rnd.randrange(grid)
            sg = rnd.choice([1, -1])
            n1[1] = [Fr(max(0, min(grid - 1, c + sg * (v - n1[0][0])))) for v in n1[0]]
        elif mode == "touch":
            # shift curve 2 so that the boxes share exactly one side coordinate
            r = rnd.choice([0, 1])
            sh = max(n1[r]) - min(n2[r])
            n2[r] = [v + sh for v in n2[r]]
        if constant(n1) or constant(n2):
            continue
        out.append({"kind": "lattice", "tag": mode, "n1": n1, "n2": n2, "planted": None})
    return out


def planted_crossing(rnd, max_deg=6):
    """two dyadic nets, curve 2 translated so that B1(a) == B2(b) exactly at dyadic a, b (end points included)"""
    while True:
        d1, d2 = rnd.randint(1, max_deg), rnd.randint(1, max_deg)
        bits = 3 if max(d1, d2) <= 4 else 2
        a, b = dyadic_param(rnd, bits), dyadic_param(rnd, bits)
        n1, n2 = dyadic_net(rnd, d1), dyadic_net(rnd, d2)
        p, q = point(n1, a), point(n2, b)
        n2 = translate(n2, p[0] - q[0], p[1] - q[1])
        if constant(n1) or constant(n2) or not (net_is_f64(n1) and net_is_f64(n2)):
            continue
        assert point(n1, a) == point(n2, b)
        return {"kind": "planted", "tag": "deg %d x %d at (%s, %s)" % (d1, d2, a, b), "n1": n1, "n2": n2,
                "planted": [(a, b)]}


def _pow2_floor(x):
    """largest power of two <= |x| (x != 0), as a Fraction"""
    x = abs(Fr(x))
    k = 0
    while Fr(2) ** (k + 1) <= x:
        k += 1
    while Fr(2) ** k > x:
        k -= 1
    return Fr(2) ** k


def planted_tangency(rnd, max_deg=6):
    """same point and parallel tangents at dyadic (a, b), exactly.  Three constructions:
    tangent-line (a segment of the tangent line of curve 2), shear (an exact linear map sends the tangent
    of curve 1 at a onto a multiple of the tangent of curve 2 at b), end-legs (common start, parallel first legs)"""
    while True:
        mode = rnd.choice(["tangent-line", "shear", "shear", "end-legs"])
        d1, d2 = rnd.randint(1, max_deg), rnd.randint(2, max_deg)
        bits = 2 if max(d1, d2) <= 4 else 1
        n2 = dyadic_net(rnd, d2, bits=2)
        b = dyadic_param(rnd, bits, ends=0.15)
        q, t2 = point(n2, b), tangent(n2, b)
        if t2 == [0, 0]:
            continue
        if mode == "tangent-line":
            u, v = Fr(rnd.randint(0, 4), 4), Fr(rnd.randint(1, 4), 4)
            n1 = [[q[0] - u * t2[0], q[0] + v * t2[0]], [q[1] - u * t2[1], q[1] + v * t2[1]]]
            a = u / (u + v)
        elif mode == "end-legs":
            n1 = dyadic_net(rnd, max(d1, 2), bits=2)
            a = b = Fr(0)
            q, t2 = point(n2, b), tangent(n2, b)
            n1 = translate(n1, q[0] - n1[0][0], q[1] - n1[1][0])
            lam = Fr(rnd.choice([1, 2, 3, -1, 5]), 4)
            leg = [n2[0][1] - n2[0][0], n2[1][1] - n2[1][0]]
            if leg == [0, 0]:
                continue
            n1[0][1], n1[1][1] = n1[0][0] + lam * leg[0], n1[1][0] + lam * leg[1]
        else:
            if d1 < 2:
                d1 = 2
            n1 = dyadic_net(rnd, d1, bits=2)
            a = dyadic_param(rnd, bits, ends=0.15)
            t1 = tangent(n1, a)
            if t1 == [0, 0]:
                continue
            v = [Fr(rnd.randint(-2, 2)), Fr(rnd.randint(-2, 2))]
            w = [Fr(rnd.randint(-2, 2)), Fr(rnd.randint(-2, 2))]
            det1 = t1[0] * v[1] - t1[1] * v[0]
            det2 = t2[0] * w[1] - t2[1] * w[0]
            if det1 == 0 or det2 == 0:
                continue
            # M = [t2 w] adj([t1 v]);  M t1 = det1 * t2
            adj = [[v[1], -v[0]], [-t1[1], t1[0]]]
            m = [[t2[0] * adj[0][0] + w[0] * adj[1][0], t2[0] * adj[0][1] + w[0] * adj[1][1]],
                 [t2[1] * adj[0][0] + w[1] * adj[1][0], t2[1] * adj[0][1] + w[1] * adj[1][1]]]
            sc = _pow2_floor(max(abs(e) for r in m for e in r))
            m = [[e / sc for e in r] for r in m]
            n1 = [[m[0][0] * x + m[0][1] * y for x, y in zip(*n1)], [m[1][0] * x + m[1][1] * y for x, y in zip(*n1)]]
            p = point(n1, a)
            n1 = translate(n1, q[0] - p[0], q[1] - p[1])
        if constant(n1) or constant(n2) or not (net_is_f64(n1) and net_is_f64(n2)):
            continue
        p, t1 = point(n1, a), tangent(n1, a)
        assert p == point(n2, b) and t1[0] * t2[1] - t1[1] * t2[0] == 0, mode
        return {"kind": "tangent", "tag": "%s deg %d x %d at (%s, %s)" % (mode, len(n1[0]) - 1, d2, a, b),
                "n1": n1, "n2": n2, "planted": [(a, b)]}


def overlapping_arcs(rnd, max_deg=5):
    """two sub-arcs [a,b], [c,d] of one dyadic parent that share a piece (exact specialisation)"""
    while True:
        d = rnd.randint(1, max_deg)
        bits = 2 if d <= 3 else 1
        parent = dyadic_net(rnd, d, bits=2)
        g = 2 ** bits
        a, b = sorted(rnd.sample(range(0, g + 1), 2))
        c, dd = sorted(rnd.sample(range(0, g + 1), 2))
        if min(b, dd) <= max(a, c):
            continue
        a, b, c, dd = Fr(a, g), Fr(b, g), Fr(c, g), Fr(dd, g)
        if rnd.random() < 0.3:
            c, dd = dd, c          # opposite orientation
        n1, n2 = specialize(parent, a, b), specialize(parent, c, dd)
        if rnd.random() < 0.5:
            n1, n2 = n2, n1
        if constant(n1) or constant(n2) or not (net_is_f64(n1) and net_is_f64(n2)):
            continue
        return {"kind": "overlap", "tag": "deg %d arcs" % d, "n1": n1, "n2": n2, "planted": None}


# tangential pairs on which a returned column is not an intersection.  Geometric strategy: the Gauss-Newton
# "double root" iteration converges to a stationary point that is not a zero - the first pair in the compiled
# configuration, the second pair in the pure-Python configuration.  Third pair: algebraic strategy.
WITNESS_BOGUS_TANGENT = [
    ([[Fr(49, 16), Fr(-5, 4)], [Fr(19, 8), Fr(17, 16)]],
     [[Fr(13, 4), Fr(1), Fr(5, 4), Fr(-11, 4)], [Fr(11, 4), Fr(1, 2), Fr(4), Fr(-5, 2)]]),
    ([[Fr(49, 16), Fr(-17, 16)], [Fr(99, 64), Fr(207, 64)]],
     [[Fr(-3, 4), Fr(13, 4), Fr(11, 4), Fr(-1), Fr(9, 4)], [Fr(3, 2), Fr(15, 4), Fr(-1, 4), Fr(15, 4), Fr(15, 4)]]),
    # two parabolas tangent at (1/2, 3/4): the algebraic strategy (both configurations) returns the double root
    # split into two columns about 2e-4 away in parameter space, residual about 2^-23 * size
    ([[Fr(285, 64), Fr(3, 64), Fr(189, 64)], [Fr(-503, 128), Fr(-97, 128), Fr(-279, 128)]],
     [[Fr(-3, 2), Fr(9, 4), Fr(2)], [Fr(-2), Fr(-1), Fr(-5, 2)]]),
]


# the start point (0, 1) of the parabola is the point t = 2/3 of the cubic (a simple crossing, sin^2 >= 0.2);
# the geometric strategy returns an empty result in both configurations (curves 6 and 46 of the repository zoo)
WITNESS_ENDPOINT_ON_CURVE = ([[Fr(0), Fr(1, 2), Fr(1)], [Fr(1), Fr(0), Fr(1)]],
                             [[Fr(-3, 32), Fr(-1, 64), Fr(5, 128), Fr(-9, 256)],
                              [Fr(53, 64), Fr(111, 128), Fr(253, 256), Fr(583, 512)]])


def near_miss(rnd):
    """the curves do NOT meet on [0,1]^2, but the extension of one of them just beyond an end point (parameter 1 + d or
    -d with 2^-44 < d < 2^-13) crosses the other transversally, at an interior parameter of the other: the correct
    answer is the empty 2 x 0 array.  The extended curve is a graph y = f(x) with x = s (degree 1..3); the other curve
    passes through the crossing point of the extension (degree 1..3); either argument order."""
    d = Fr(2) ** -rnd.choice([14, 16, 20, 24, 30, 36, 40, 43])
    beyond_end = rnd.random() < 0.5
    xc = 1 + d if beyond_end else -d
    k1 = rnd.choice([1, 2, 3])
    if k1 == 1:
        n1 = [[Fr(0), Fr(1)], [Fr(0), Fr(1, 2)]]                      # y = x / 2
        yc = xc / 2
    elif k1 == 2:
        n1 = [[Fr(0), Fr(1, 2), Fr(1)], [Fr(0), Fr(0), Fr(1)]]        # y = x^2
        yc = xc * xc
    else:
        n1 = [[Fr(0), Fr(1, 4), Fr(3, 4), Fr(1)], [Fr(0), Fr(0), Fr(0), Fr(1)]]   # x = (3s + 6 s^2 - ... ) not a graph in s; use y = s^3 over x = s below
        n1 = [[Fr(0), Fr(1, 3) if False else Fr(1, 4), Fr(3, 4), Fr(1)], [Fr(0), Fr(0), Fr(0), Fr(1)]]
        # x(s) = 3/4 s(1-s)^2 + 9/4 s^2 (1-s) + s^3  is monotone; the crossing of the extension is computed exactly below
        yc = None
    if k1 == 3:
        sx = 1 + d if beyond_end else -d            # parameter of the extension
        xc, yc = ev(n1[0], sx), ev(n1[1], sx)
    k2 = rnd.choice([1, 2, 3])
    if k2 == 1:
        n2 = [[xc, xc], [yc - 1, yc + 1]]                              # vertical segment, crossing at t = 1/2
    elif k2 == 2:
        n2 = [[xc + Fr(1, 4), xc - Fr(1, 4), xc + Fr(1, 4)], [yc - 1, yc, yc + 1]]      # x(1/2) = xc, y(1/2) = yc
    else:
        n2 = [[xc + Fr(1, 2), xc - Fr(1, 2), xc + Fr(1, 2), xc - Fr(1, 2)], [yc - 1, yc - Fr(1, 4), yc + Fr(1, 4), yc + 1]]  # (xc, yc) at t = 1/2
    if rnd.random() < 0.5:
        n1, n2 = n2, n1
    if not (net_is_f64(n1) and net_is_f64(n2)):
        return near_miss(rnd)
    return {"kind": "near-miss", "tag": "crossing of the extension of a degree-%d graph at parameter %s (d = 2^%d), other degree %d" %
            (k1, "1+d" if beyond_end else "-d", -(d.denominator.bit_length() - 1), k2), "n1": n1, "n2": n2, "planted": None}


def close_crossings(rnd):
    """two genuine transversal crossings a small distance 2d apart (d = 2^-12 .. 2^-15, far above the de-duplication
    tolerance 2^-36 and above the property's separation limit 2^-16): a horizontal segment against the parabola
    y = a ((x - c)^2 - d^2) with slope 2 a d at the crossings, written as an exact quadratic net; either order,
    optionally sheared by an exact integer map"""
    m = rnd.choice([12, 13, 14, 15])
    d = Fr(1, 2 ** m)
    a = Fr(2 ** rnd.choice([m - 6, m - 5, m - 4]))                # slope 2 a d = 2^-5 .. 2^-3
    c = Fr(rnd.choice([16, 12, 20, 11, 23]), 32)
    # y(x) = a (x - c)^2 - a d^2 on x in [0, 1]: Bernstein coefficients of a quadratic in x
    f = lambda x: a * ((x - c) ** 2 - d * d)      # noqa: E731
    y0, y2 = f(Fr(0)), f(Fr(1))
    y1 = 2 * f(Fr(1, 2)) - (y0 + y2) / 2
    par = [[Fr(0), Fr(1, 2), Fr(1)], [y0, y1, y2]]
    seg = [[Fr(0), Fr(1)], [Fr(0), Fr(0)]]
    k = rnd.choice([0, 0, 1, -1])
    if k:
        par = [[x + k * y for x, y in zip(par[0], par[1])], par[1]]
        seg = [[x + k * y for x, y in zip(seg[0], seg[1])], seg[1]]
    pair = (par, seg) if rnd.random() < 0.5 else (seg, par)
    return {"kind": "close-crossings", "tag": "segment x parabola, two crossings 2^-%d apart, slope 2^%d" % (m - 1, int(a * 2 * d).bit_length() - 1 if a * 2 * d >= 1 else -((1 / (a * 2 * d)).numerator.bit_length() - 1)),
            "n1": [list(r) for r in pair[0]], "n2": [list(r) for r in pair[1]], "planted": None}


def all_pairs(rnd, tier="quick", max_deg=8):
    """the generated case list of C02 / C03 (without the zoo); max_deg bounds random and planted degrees"""
    thorough = tier == "thorough"
    md = max_deg
    out = []
    out += lattice_pairs(rnd, 2500 if thorough else 800)
    out.append({"kind": "planted", "tag": "witness: start point of curve 1 inside curve 2 (zoo 6 x 46)",
                "n1": [list(r) for r in WITNESS_ENDPOINT_ON_CURVE[0]], "n2": [list(r) for r in WITNESS_ENDPOINT_ON_CURVE[1]],
                "planted": [(Fr(0), Fr(2, 3))]})
    out += [random_pair(rnd, md) for _ in range(1500 if thorough else 500)]
    out += [planted_crossing(rnd, md) for _ in range(1500 if thorough else 500)]
    out += [{"kind": "tangent", "tag": "witness %d: tangential pair" % i, "n1": [list(r) for r in a],
             "n2": [list(r) for r in b], "planted": None} for i, (a, b) in enumerate(WITNESS_BOGUS_TANGENT)]
    out += [planted_tangency(rnd, min(md, 6)) for _ in range(600 if thorough else 160)]
    out += [overlapping_arcs(rnd) for _ in range(300 if thorough else 80)]
    out += [near_miss(rnd) for _ in range(200 if thorough else 60)]
    out += [close_crossings(rnd) for _ in range(120 if thorough else 40)]
    return out


def jpair(pair):
    """json-friendly replay form"""
    return {"kind": pair["kind"], "tag": pair["tag"],
            "n1": [[str(v) for v in r] for r in pair["n1"]], "n2": [[str(v) for v in r] for r in pair["n2"]]}


def unjpair(d):
    return {"kind": d.get("kind", "replay"), "tag": d.get("tag", ""), "planted": None,
            "n1": [[Fr(v) for v in r] for r in d["n1"]], "n2": [[Fr(v) for v in r] for r in d["n2"]]}


if __name__ == "__main__":
    import random
    import isolate
    rnd = random.Random(0)
    zoo = load_zoo()
    print("zoo:", len(zoo), "curves;", len(zoo_listed()), "listed pairs;", len(zoo_pairs(rnd)), "quick pairs")
    ps = all_pairs(rnd)
    print("generated:", len(ps))
