"""The *specification* side in exact rational arithmetic (independent of the Lean model and of the
library's algorithms): Bernstein sums, blossoms, exact operator matrices, exact geometry.
Used by the property oracles."""
from fractions import Fraction as Fr
from math import comb, factorial


# ------------------------------------------------------------------ curves
def bern_terms(row, a, b):
    """terms C(n,j) a^(n-j) b^j v_j"""
    n = len(row) - 1
    return [comb(n, j) * a ** (n - j) * b ** j * row[j] if row[j] != 0 else Fr(0) for j in range(n + 1)]


def bern(row, s):
    return sum(bern_terms(row, 1 - s, s))


def bern_abs(row, s):
    """condition scale sum_j |C(n,j) s^j (1-s)^(n-j)| |v_j|"""
    return sum(abs(t) for t in bern_terms(row, 1 - s, s))


def eval_curve(nodes, s):
    return [bern(r, s) for r in nodes]


def blossom(row, ts):
    cur = list(row)
    for t in ts:
        cur = [(1 - t) * cur[i] + t * cur[i + 1] for i in range(len(cur) - 1)]
    assert len(cur) == 1
    return cur[0]


def _split(row, t):
    """de Casteljau triangle at t: control points of the restriction to [0,t] and to [t,1]"""
    cur = list(row)
    left, right = [cur[0]], [cur[-1]]
    while len(cur) > 1:
        cur = [(1 - t) * cur[i] + t * cur[i + 1] for i in range(len(cur) - 1)]
        left.append(cur[0])
        right.append(cur[-1])
    return left, right[::-1]


def specialize_exact(row, a, b):
    """control points of sigma -> B(a + (b - a) sigma): blossom values b(a^(n-i), b^i).  Degree <= 12: straight from the
    definition (O(n^3)); above: two exact de Casteljau splits (O(n^2)), the same numbers (checked against the definition in
    harness/tools/selftest_exact.py)"""
    n = len(row) - 1
    a, b = Fr(a), Fr(b)
    if n <= 12:
        return [blossom(row, [a] * (n - i) + [b] * i) for i in range(n + 1)]
    if b != 0:
        left, _ = _split(row, b)                  # [0, b]
        return _split(left, a / b)[1]             # [a, b] = [a/b, 1] of it
    if a != 1:
        _, right = _split(row, a)                 # [a, 1]
        return _split(right, (b - a) / (1 - a))[0]
    return list(row)[::-1]                        # [1, 0]


def elevate_exact(row):
    n = len(row) - 1
    out = [row[0]]
    for j in range(1, n + 1):
        out.append((Fr(j) * row[j - 1] + Fr(n + 1 - j) * row[j]) / (n + 1))
    out.append(row[n])
    return out


def hodograph_exact(row, s):
    n = len(row) - 1
    if n == 0:
        return Fr(0)
    d = [row[j + 1] - row[j] for j in range(n)]
    return n * bern(d, s)


def second_deriv_exact(row, s):
    n = len(row) - 1
    if n < 2:
        return Fr(0)
    d = [row[j + 1] - row[j] for j in range(n)]
    d2 = [d[j + 1] - d[j] for j in range(n - 1)]
    return n * (n - 1) * bern(d2, s)


def mat_mul(a, b):
    return [[sum(a[i][k] * b[k][j] for k in range(len(b))) for j in range(len(b[0]))] for i in range(len(a))]


def mat_T(a):
    return [list(r) for r in zip(*a)]


def mat_inv(a):
    n = len(a)
    m = [list(map(Fr, r)) + [Fr(int(i == j)) for j in range(n)] for i, r in enumerate(a)]
    for c in range(n):
        p = next(r for r in range(c, n) if m[r][c] != 0)
        m[c], m[p] = m[p], m[c]
        pv = m[c][c]
        m[c] = [x / pv for x in m[c]]
        for r in range(n):
            if r != c and m[r][c] != 0:
                f = m[r][c]
                m[r] = [x - f * y for x, y in zip(m[r], m[c])]
    return [r[n:] for r in m]


def elev_matrix(n):
    """E : (n+1) x (n+2), new_row = row . E"""
    rows = []
    for i in range(n + 1):
        e = [Fr(int(i == j)) for j in range(n + 1)]
        rows.append(elevate_exact(e))
    return rows


def reduction_pinv(n):
    """R : (n+2) x (n+1) with reduced = nodes . R, the Moore-Penrose right inverse E^T (E E^T)^-1"""
    e = elev_matrix(n)
    et = mat_T(e)
    return mat_mul(et, mat_inv(mat_mul(e, et)))


# ------------------------------------------------------------------ triangles
def tri_index(d, j, k):
    """flat index of node with barycentric exponents (i, j, k), i = d - j - k; rows bottom to top"""
    return k * (d + 1) - k * (k - 1) // 2 + j


def tri_degree(num_nodes):
    d = 0
    while (d + 1) * (d + 2) // 2 < num_nodes:
        d += 1
    return d if (d + 1) * (d + 2) // 2 == num_nodes else None


def tri_eval(row, d, l1, l2, l3):
    tot = Fr(0)
    for k in range(d + 1):
        for j in range(d + 1 - k):
            i = d - j - k
            c = factorial(d) // (factorial(i) * factorial(j) * factorial(k))
            tot += c * l1 ** i * l2 ** j * l3 ** k * row[tri_index(d, j, k)]
    return tot


def tri_eval_abs(row, d, l1, l2, l3):
    tot = Fr(0)
    for k in range(d + 1):
        for j in range(d + 1 - k):
            i = d - j - k
            c = factorial(d) // (factorial(i) * factorial(j) * factorial(k))
            tot += abs(c * l1 ** i * l2 ** j * l3 ** k * row[tri_index(d, j, k)])
    return tot


def tri_round(row, d, l1, l2, l3):
    """one de Casteljau round: degree d -> d-1"""
    out = []
    for k in range(d):
        for j in range(d - k):
            out.append(l1 * row[tri_index(d, j, k)] + l2 * row[tri_index(d, j + 1, k)]
                       + l3 * row[tri_index(d, j, k + 1)])
    return out


def tri_blossom(row, d, ws):
    cur = list(row)
    deg = d
    for w in ws:
        cur = tri_round(cur, deg, *w)
        deg -= 1
    assert len(cur) == 1
    return cur[0]


def tri_specialize_exact(row, d, wa, wb, wc):
    out = []
    for k in range(d + 1):
        for j in range(d + 1 - k):
            i = d - j - k
            out.append(tri_blossom(row, d, [wa] * i + [wb] * j + [wc] * k))
    return out


H = Fr(1, 2)
TRI_QUARTERS = {
    "A": ((Fr(1), Fr(0), Fr(0)), (H, H, Fr(0)), (H, Fr(0), H)),
    "B": ((Fr(0), H, H), (H, Fr(0), H), (H, H, Fr(0))),
    "C": ((H, H, Fr(0)), (Fr(0), Fr(1), Fr(0)), (Fr(0), H, H)),
    "D": ((H, Fr(0), H), (Fr(0), H, H), (Fr(0), Fr(0), Fr(1))),
}


def tri_elevate_exact(row, d):
    out = [Fr(0)] * ((d + 2) * (d + 3) // 2)
    for k in range(d + 1):
        for j in range(d + 1 - k):
            i = d - j - k
            v = row[tri_index(d, j, k)]
            out[tri_index(d + 1, j, k)] += Fr(i + 1, d + 1) * v
            out[tri_index(d + 1, j + 1, k)] += Fr(j + 1, d + 1) * v
            out[tri_index(d + 1, j, k + 1)] += Fr(k + 1, d + 1) * v
    return out


def tri_jacobian_s(row, d):
    """control net (degree d-1) of dB/ds for B(1-s-t, s, t)"""
    out = []
    for k in range(d):
        for j in range(d - k):
            out.append(d * (row[tri_index(d, j + 1, k)] - row[tri_index(d, j, k)]))
    return out


def tri_jacobian_t(row, d):
    out = []
    for k in range(d):
        for j in range(d - k):
            out.append(d * (row[tri_index(d, j, k + 1)] - row[tri_index(d, j, k)]))
    return out


# ------------------------------------------------------------------ polynomials (power basis, ascending)
def poly_mul(p, q):
    out = [Fr(0)] * (len(p) + len(q) - 1)
    for i, a in enumerate(p):
        for j, b in enumerate(q):
            out[i + j] += a * b
    return out


def poly_add(p, q):
    n = max(len(p), len(q))
    return [(p[i] if i < len(p) else 0) + (q[i] if i < len(q) else 0) for i in range(n)]


def poly_scale(p, c):
    return [c * a for a in p]


def poly_eval(p, x):
    r = Fr(0)
    for a in reversed(p):
        r = r * x + a
    return r


def poly_deriv(p):
    return [i * p[i] for i in range(1, len(p))] or [Fr(0)]


def poly_int01(p):
    return sum(Fr(a) / (i + 1) for i, a in enumerate(p))


def bern_to_power(row):
    """power-basis coefficients (ascending) of sum_j C(n,j)(1-s)^(n-j) s^j v_j"""
    n = len(row) - 1
    out = [Fr(0)] * (n + 1)
    for j in range(n + 1):
        # (1-s)^(n-j) s^j
        for m in range(n - j + 1):
            out[j + m] += comb(n, j) * comb(n - j, m) * (-1) ** m * row[j]
    return out
