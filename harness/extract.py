#!/venv/bin/python
"""Translator (data): re-extract every hard-coded constant / table / linear closed form of the
Python and the Fortran implementation from /repo's *current working tree* into
lean/BezierVerif/Generated/Data.lean.  The kernel then re-proves (Tables/*.lean) that each equals
the object the model derives.

  * Python module constants: by importing the current-tree hazmat modules (pkg_pure), every
    module-level int / float / ndarray whose name is upper-case; floats become exact rationals.
  * literals inside function bodies: from the AST at an anchored position.
  * Fortran `parameter`s: small expression evaluator.
  * Fortran linear closed forms `out(:, k) = <linear expr in nodes(:, j)>`: recursive-descent
    parser, aliases resolved by substitution; one rational matrix per routine / branch / output.
Writes the file only when its content changes.  Exit status 0 even if single items fail: a missing
item makes the Tables obligation that mentions it fail, which is handled by ./check.
"""
import ast
import os
import re
import sys
from fractions import Fraction as Fr

REPO = os.environ.get("BEZIER_REPO", "/repo")
HERE = os.path.dirname(os.path.abspath(__file__))
OUT = os.path.join(os.path.dirname(HERE), "lean", "BezierVerif", "Generated", "Data.lean")
HAZMAT = ["curve_helpers", "helpers", "geometric_intersection", "intersection_helpers",
          "triangle_helpers", "triangle_intersection", "algebraic_intersection", "clipping"]
FMODS = ["curve", "helpers", "curve_intersection", "triangle", "triangle_intersection", "status"]


def lean_rat(x):
    x = Fr(x)
    if x.denominator == 1:
        return "(%d : Rat)" % x.numerator if x.numerator < 0 else "%d" % x.numerator
    return "(%d : Rat)/%d" % (x.numerator, x.denominator)


def lean_row(r):
    return "[" + ", ".join(lean_rat(x) for x in r) + "]"


def lean_mat(m):
    return "[" + ",\n    ".join(lean_row(r) for r in m) + "]"


class Emit:
    def __init__(self):
        self.lines = []
        self.names = set()
        self.problems = []

    def nat(self, name, v):
        self._add(name, "def %s : Nat := %d" % (name, v))

    def int(self, name, v):
        self._add(name, "def %s : Int := %d" % (name, v))

    def rat(self, name, v):
        self._add(name, "def %s : Rat := %s" % (name, lean_rat(v)))

    def row(self, name, r):
        self._add(name, "def %s : List Rat := %s" % (name, lean_row(r)))

    def mat(self, name, m):
        self._add(name, "def %s : List (List Rat) :=\n   %s" % (name, lean_mat(m)))

    def string(self, name, s):
        self._add(name, "def %s : String := \"%s\"" % (name, s))

    def _add(self, name, text):
        if name in self.names:
            self.problems.append("duplicate " + name)
            return
        self.names.add(name)
        self.lines.append(text)

    def problem(self, what):
        self.problems.append(what)


# ------------------------------------------------------------------ python constants
def python_constants(em, pkg):
    import importlib
    import numpy as np
    sys.path.insert(0, pkg)
    for mod in HAZMAT:
        try:
            m = importlib.import_module("bezier.hazmat." + mod)
        except Exception as exc:  # noqa
            em.problem("import %s: %r" % (mod, exc))
            continue
        for name in sorted(vars(m)):
            if not re.fullmatch(r"_?[A-Z][A-Z0-9_]*", name):
                continue
            v = getattr(m, name)
            lname = "py_%s_%s" % (mod, name.lstrip("_"))
            if isinstance(v, bool):
                continue
            if isinstance(v, int):
                em.int(lname, v)
            elif isinstance(v, float):
                em.rat(lname, Fr(v))
            elif isinstance(v, np.ndarray) and v.dtype.kind in "fi":
                if v.ndim == 2:
                    em.mat(lname, [[Fr(float(x)) for x in r] for r in v.tolist()])
                elif v.ndim == 1:
                    em.row(lname, [Fr(float(x)) for x in v.tolist()])
            elif isinstance(v, tuple) and all(isinstance(t, tuple) for t in v) and v and \
                    all(isinstance(x, (int, float)) for t in v for x in t):
                em.mat(lname, [[Fr(x) for x in t] for t in v])
        # enums
        for name in sorted(vars(m)):
            v = getattr(m, name)
            import enum
            if isinstance(v, type) and issubclass(v, enum.Enum) and v.__module__ == m.__name__:
                for member in v:
                    if isinstance(member.value, int):
                        em.int("py_%s_%s_%s" % (mod, name, member.name), member.value)
            elif isinstance(v, type) and v.__module__ == m.__name__ and not issubclass(v, enum.Enum):
                # plain "enum-like" classes (BoxIntersectionType): upper-case int attributes
                for an, av in sorted(vars(v).items()):
                    if re.fullmatch(r"[A-Z][A-Z0-9_]*", an) and isinstance(av, int) and not isinstance(av, bool):
                        em.int("py_%s_%s_%s" % (mod, name, an), av)


def _func(tree, name):
    for node in ast.walk(tree):
        if isinstance(node, (ast.FunctionDef,)) and node.name == name:
            return node
    return None


def python_literals(em):
    """anchored literals inside function bodies"""
    base = os.path.join(REPO, "src/python/bezier/hazmat")

    def tree(mod):
        with open(os.path.join(base, mod + ".py")) as fh:
            return ast.parse(fh.read())

    # evaluate_multi_barycentric: `if num_nodes > 55`
    try:
        fn = _func(tree("curve_helpers"), "evaluate_multi_barycentric")
        found = None
        for node in ast.walk(fn):
            if isinstance(node, ast.Compare) and isinstance(node.left, ast.Name) and node.left.id == "num_nodes" \
                    and len(node.ops) == 1 and isinstance(node.comparators[0], ast.Constant):
                op = type(node.ops[0]).__name__
                found = (op, node.comparators[0].value)
        if found is None:
            raise ValueError("anchor not found")
        op, val = found
        # normalise `num_nodes > c` / `num_nodes >= c`
        if op == "Gt":
            em.nat("py_curve_vs_threshold", int(val))
        elif op == "GtE":
            em.nat("py_curve_vs_threshold", int(val) - 1)
        else:
            raise ValueError("unexpected comparison " + op)
    except Exception as exc:  # noqa
        em.problem("py vs threshold: %r" % (exc,))
    # wiggle_interval(value, wiggle=0.5**44): the default argument
    try:
        fn = _func(tree("helpers"), "wiggle_interval")
        names = [a.arg for a in fn.args.args]
        dflt = fn.args.defaults[names.index("wiggle") - (len(names) - len(fn.args.defaults))]
        val = eval(compile(ast.Expression(dflt), "<wiggle default>", "eval"), {"__builtins__": {}})
        em.rat("py_helpers_wiggle_default", Fr(val))
    except Exception as exc:  # noqa
        em.problem("py wiggle default: %r" % (exc,))
    # linearization_error: 0.125 * degree * (degree - 1) * worst_case
    try:
        fn = _func(tree("geometric_intersection"), "linearization_error")
        consts = []
        for st in ast.walk(fn):
            if isinstance(st, ast.Assign) and isinstance(st.targets[0], ast.Name) and st.targets[0].id == "multiplier":
                consts = [n.value for n in ast.walk(st.value) if isinstance(n, ast.Constant) and isinstance(n.value, float)]
        if len(consts) == 1:
            em.rat("py_linearization_factor", Fr(consts[0]))
        else:
            em.problem("linearization_error literals: %r" % (consts,))
    except Exception as exc:  # noqa
        em.problem("py linearization factor: %r" % (exc,))


def python_shoelace(em, pkg):
    """`shoelace_for_area`: which table and which scale factor is used for which number of nodes"""
    try:
        import importlib
        mod = importlib.import_module("bezier.hazmat.triangle_helpers")
        with open(os.path.join(REPO, "src/python/bezier/hazmat/triangle_helpers.py")) as fh:
            fn = _func(ast.parse(fh.read()), "shoelace_for_area")
        found = {}
        for node in ast.walk(fn):
            if isinstance(node, ast.If) and isinstance(node.test, ast.Compare) and isinstance(node.test.left, ast.Name) \
                    and node.test.left.id == "num_nodes" and isinstance(node.test.ops[0], ast.Eq):
                nn = node.test.comparators[0].value
                tab = scale = None
                for st in node.body:
                    if isinstance(st, ast.Assign) and st.targets[0].id == "shoelace":
                        tab = getattr(mod, st.value.id)
                    if isinstance(st, ast.Assign) and st.targets[0].id == "scale_factor":
                        scale = st.value.value
                found[nn] = (tab, scale)
        for nn, (tab, scale) in sorted(found.items()):
            em.mat("py_shoelace_%d" % nn, [[Fr(x) for x in t] for t in tab])
            em.rat("py_shoelace_scale_%d" % nn, Fr(scale))
        em.row("py_shoelace_supported", [Fr(k) for k in sorted(found)])
    except Exception as exc:  # noqa
        em.problem("py shoelace: %r" % (exc,))


def fortran_shoelace(em):
    try:
        lines = fortran_lines("triangle")
        inside = False
        branch = None
        found = {}
        for line in lines:
            if line.startswith("subroutine shoelace_for_area"):
                inside = True
                continue
            if line.startswith("end subroutine shoelace_for_area"):
                break
            if not inside:
                continue
            m = re.match(r"(?:else )?if \(num_nodes == (\d+)\) then", line)
            if m:
                branch = int(m.group(1))
                found[branch] = [[], None]
                continue
            if re.match(r"else\b", line):
                branch = None
                continue
            if branch is None:
                continue
            m = re.match(r"shoelace = shoelace / (\d+)$", line)
            if m:
                found[branch][1] = int(m.group(1))
                continue
            if line.startswith("shoelace = ("):
                body = line[len("shoelace = ("):]
                pos = 0
                rx = re.compile(r"\s*(?:(\d+) \* )?\(nodes\(1, (\d+)\) \* nodes\(2, (\d+)\) - nodes\(2, (\d+)\) \* nodes\(1, (\d+)\)\)\s*(\+|\)$)")
                bare = re.fullmatch(r"\s*nodes\(1, (\d+)\) \* nodes\(2, (\d+)\) - nodes\(2, (\d+)\) \* nodes\(1, (\d+)\)\)", body)
                if bare and bare.group(1) == bare.group(3) and bare.group(2) == bare.group(4):
                    found[branch][0].append([Fr(1), Fr(int(bare.group(1)) - 1), Fr(int(bare.group(2)) - 1)])
                    pos = len(body)
                while pos < len(body):
                    m = rx.match(body, pos)
                    if not m:
                        raise ValueError("unparsed shoelace term at %r" % body[pos:pos + 60])
                    c, a1, b1, a2, b2, sep = m.groups()
                    if a1 != a2 or b1 != b2:
                        raise ValueError("not a cross term: " + m.group(0))
                    found[branch][0].append([Fr(int(c or 1)), Fr(int(a1) - 1), Fr(int(b1) - 1)])
                    pos = m.end()
        for nn, (terms, scale) in sorted(found.items()):
            em.mat("f90_shoelace_%d" % nn, terms)
            em.rat("f90_shoelace_scale_%d" % nn, Fr(scale))
        em.row("f90_shoelace_supported", [Fr(k) for k in sorted(found)])
    except Exception as exc:  # noqa
        em.problem("f90 shoelace: %r" % (exc,))


# ------------------------------------------------------------------ fortran
def _fsrc(mod):
    with open(os.path.join(REPO, "src/fortran", mod + ".f90")) as fh:
        return fh.read()


def _strip_comments(src):
    out = []
    for line in src.split("\n"):
        i = line.find("!")
        if i >= 0:
            line = line[:i]
        out.append(line.rstrip())
    return out


def _join_continuations(lines):
    out = []
    cur = ""
    for line in lines:
        s = line.strip()
        if not s:
            continue
        if cur:
            if s.startswith("&"):
                s = s[1:].lstrip()
            cur += " " + s
        else:
            cur = s
        if cur.endswith("&"):
            cur = cur[:-1].rstrip()
            continue
        out.append(cur)
        cur = ""
    if cur:
        out.append(cur)
    return out


def fortran_lines(mod):
    return _join_continuations(_strip_comments(_fsrc(mod)))


class _Tok:
    def __init__(self, s):
        self.toks = re.findall(r"\d+\.\d*_dp|\d+\.\d*|\.\d+_dp|\d+_dp|\d+|[A-Za-z_][A-Za-z_0-9]*|\*\*|[-+*/(),:]", s)
        self.i = 0

    def peek(self):
        return self.toks[self.i] if self.i < len(self.toks) else None

    def next(self):
        t = self.peek()
        self.i += 1
        return t


def _num(tok):
    tok = tok.replace("_dp", "")
    return Fr(tok)


def eval_scalar(expr, env):
    """evaluate a Fortran constant expression (numbers, names from env, + - * / **, parentheses)"""
    tk = _Tok(expr)

    def atom():
        t = tk.next()
        if t == "(":
            v = add()
            assert tk.next() == ")"
            return v
        if t == "-":
            return -power()
        if t == "+":
            return power()
        if re.match(r"[\d.]", t):
            return _num(t)
        if t in env:
            return env[t]
        raise ValueError("unknown name %r in %r" % (t, expr))

    def power():
        b = atom()
        if tk.peek() == "**":
            tk.next()
            e = power()
            assert e.denominator == 1
            return b ** int(e)
        return b

    def mul():
        v = power()
        while tk.peek() in ("*", "/"):
            op = tk.next()
            w = power()
            v = v * w if op == "*" else v / w
        return v

    def add():
        v = mul()
        while tk.peek() in ("+", "-"):
            op = tk.next()
            w = mul()
            v = v + w if op == "+" else v - w
        return v

    v = add()
    if tk.peek() is not None:
        raise ValueError("trailing tokens in %r" % expr)
    return v


def fortran_parameters(em):
    for mod in FMODS:
        env = {}
        try:
            lines = fortran_lines(mod)
        except Exception as exc:  # noqa
            em.problem("read %s.f90: %r" % (mod, exc))
            continue
        for line in lines:
            m = re.match(r"(integer\(c_int\)|real\(c_double\)|logical\(c_bool\)),\s*parameter\s*::\s*(\w+)\s*=\s*(.+)$", line)
            if not m:
                continue
            typ, name, expr = m.groups()
            if typ.startswith("logical"):
                continue
            try:
                v = eval_scalar(expr, env)
            except Exception as exc:  # noqa
                em.problem("%s.%s: %r" % (mod, name, exc))
                continue
            env[name] = v
            lname = "f90_%s_%s" % (mod, name)
            if typ.startswith("integer"):
                em.int(lname, int(v))
            else:
                em.rat(lname, v)


def fortran_literals(em):
    # linearization_error: error = 0.125_dp * (num_nodes - 1) * (num_nodes - 2) * norm2(worst_case)
    try:
        found = None
        for line in fortran_lines("curve_intersection"):
            m = re.match(r"error = ([\d.]+)_dp \* \(num_nodes - 1\) \* \(num_nodes - 2\) \* norm2\(worst_case\)", line)
            if m:
                found = Fr(m.group(1))
        if found is None:
            raise ValueError("anchor not found")
        em.rat("f90_linearization_factor", found)
    except Exception as exc:  # noqa
        em.problem("f90 linearization factor: %r" % (exc,))
    lines = fortran_lines("curve")
    # evaluate_curve_barycentric: if (num_nodes > 55) then
    try:
        inside = False
        found = None
        for line in lines:
            if line.startswith("subroutine evaluate_curve_barycentric"):
                inside = True
            elif line.startswith("end subroutine evaluate_curve_barycentric"):
                inside = False
            elif inside:
                m = re.match(r"if \(num_nodes\s*(>=|>)\s*(\d+)\) then", line)
                if m:
                    found = (m.group(1), int(m.group(2)))
        if not found:
            raise ValueError("anchor not found")
        em.nat("f90_curve_vs_threshold", found[1] if found[0] == ">" else found[1] - 1)
    except Exception as exc:  # noqa
        em.problem("f90 vs threshold: %r" % (exc,))
    # declared type of binom_val in the triangle evaluation routines
    try:
        tl = fortran_lines("triangle")
        cur = None
        types = {}
        for line in tl:
            m = re.match(r"subroutine (\w+)", line)
            if m:
                cur = m.group(1)
            m = re.match(r"(integer\(c_int\)|real\(c_double\))\s*::\s*(.*)$", line)
            if m and cur and re.search(r"\bbinom_val\b", m.group(2)):
                types[cur] = m.group(1)
        for sub in ("evaluate_barycentric", "evaluate_barycentric_multi", "evaluate_cartesian_multi"):
            if sub in types:
                em.string("f90_triangle_%s_binom_type" % sub, "int32" if types[sub].startswith("integer") else "real")
            else:
                em.problem("f90 binom type: no declaration of binom_val found in triangle.f90 subroutine %s" % sub)
    except Exception as exc:  # noqa
        em.problem("f90 binom type: %r" % (exc,))


# linear closed forms ------------------------------------------------------------------------
def parse_linear(expr, resolve):
    """parse a linear expression over column references NAME(:, k); returns {(NAME,k): coeff}.
    `resolve((name,k))` may return a dict for names that are themselves assigned (aliases)."""
    tk = _Tok(expr)

    def scale(d, c):
        return {k: v * c for k, v in d.items()}

    def addd(a, b, sign=1):
        out = dict(a)
        for k, v in b.items():
            out[k] = out.get(k, 0) + sign * v
        return out

    # values are either ("s", Fraction) scalars or ("v", dict) vectors
    def atom():
        t = tk.next()
        if t == "(":
            v = add()
            assert tk.next() == ")", expr
            return v
        if t == "-":
            k, v = power()
            return (k, -v) if k == "s" else (k, scale(v, -1))
        if re.match(r"[\d.]", t):
            return ("s", _num(t))
        if re.match(r"[A-Za-z_]", t):
            # NAME(:, k)
            assert tk.next() == "(", expr
            assert tk.next() == ":", expr
            assert tk.next() == ",", expr
            k = int(tk.next())
            assert tk.next() == ")", expr
            r = resolve((t, k))
            return ("v", r if r is not None else {(t, k): Fr(1)})
        raise ValueError("bad token %r in %r" % (t, expr))

    def power():
        return atom()

    def mul():
        k, v = power()
        while tk.peek() in ("*", "/"):
            op = tk.next()
            k2, w = power()
            if op == "*":
                if k == "s" and k2 == "s":
                    v = v * w
                elif k == "s":
                    k, v = "v", scale(w, v)
                elif k2 == "s":
                    v = scale(v, w)
                else:
                    raise ValueError("nonlinear: " + expr)
            else:
                if k2 != "s":
                    raise ValueError("division by vector: " + expr)
                v = v / w if k == "s" else scale(v, 1 / w)
        return (k, v)

    def add():
        k, v = mul()
        while tk.peek() in ("+", "-"):
            op = tk.next()
            k2, w = mul()
            if k != k2:
                raise ValueError("scalar + vector: " + expr)
            sign = 1 if op == "+" else -1
            v = v + sign * w if k == "s" else addd(v, w, sign)
        return (k, v)

    k, v = add()
    if tk.peek() is not None:
        raise ValueError("trailing tokens: " + expr)
    if k != "v":
        raise ValueError("scalar expression: " + expr)
    return v


def fortran_closed_forms(mod, sub, selector, inp="nodes"):
    """{branch_value: {out_name: {k: {j: coeff}}}} for `out(:, k) = linear(inp(:, j))` assignments in
    the `if (selector == N)` branches of subroutine `sub`"""
    lines = fortran_lines(mod)
    inside = False
    branch = None
    out = {}
    for line in lines:
        if re.match(r"subroutine %s\b" % sub, line):
            inside = True
            continue
        if re.match(r"end subroutine %s\b" % sub, line):
            break
        if not inside:
            continue
        m = re.match(r"(?:else )?if \(%s == (\d+)\) then" % selector, line)
        if m:
            branch = int(m.group(1))
            out.setdefault(branch, {})
            continue
        if re.match(r"else\b", line) or re.match(r"end if", line):
            branch = None
            continue
        if branch is None:
            continue
        m = re.match(r"(\w+)\(:, (\d+)\) = (.+)$", line)
        if not m:
            continue
        name, k, expr = m.group(1), int(m.group(2)), m.group(3)
        cur = out[branch]

        def resolve(ref):
            nm, kk = ref
            if nm == inp:
                return None
            if nm in cur and kk in cur[nm]:
                return {(inp, j): c for j, c in cur[nm][kk].items()}
            raise ValueError("reference to unassigned %s(:, %d) in %s" % (nm, kk, sub))

        lin = parse_linear(expr, resolve)
        cur.setdefault(name, {})[k] = {j: c for (nm, j), c in lin.items()}
    return out


def closed_form_matrix(cols, n_in, n_out):
    """matrix M (n_in x n_out) with out = nodes . M"""
    m = [[Fr(0)] * n_out for _ in range(n_in)]
    for k, lin in cols.items():
        for j, c in lin.items():
            m[j - 1][k - 1] = c
    if set(cols) != set(range(1, n_out + 1)):
        raise ValueError("columns assigned: %r, expected 1..%d" % (sorted(cols), n_out))
    return m


def fortran_tables(em):
    # curve subdivision, degree 1..3
    try:
        cf = fortran_closed_forms("curve", "subdivide_nodes", "num_nodes")
        for nn in (2, 3, 4):
            em.mat("f90_curve_subdivide_left_%d" % nn, closed_form_matrix(cf[nn]["left_nodes"], nn, nn))
            em.mat("f90_curve_subdivide_right_%d" % nn, closed_form_matrix(cf[nn]["right_nodes"], nn, nn))
    except Exception as exc:  # noqa
        em.problem("f90 curve subdivide closed forms: %r" % (exc,))
    try:
        cf = fortran_closed_forms("curve", "reduce_pseudo_inverse", "num_nodes")
        for nn in (2, 3, 4, 5):
            em.mat("f90_curve_reduce_%d" % nn, closed_form_matrix(cf[nn]["reduced"], nn, nn - 1))
    except Exception as exc:  # noqa
        em.problem("f90 reduce closed forms: %r" % (exc,))
    try:
        cf = fortran_closed_forms("curve", "can_reduce", "num_nodes")
        for nn in (2, 3, 4, 5):
            em.mat("f90_curve_project_%d" % nn, closed_form_matrix(cf[nn]["reduced"], nn, nn))
    except Exception as exc:  # noqa
        em.problem("f90 can_reduce closed forms: %r" % (exc,))
    # triangle subdivision, degree 1..4
    try:
        cf = fortran_closed_forms("triangle", "subdivide_nodes", "degree")
        for d in (1, 2, 3, 4):
            n = (d + 1) * (d + 2) // 2
            for letter in "abcd":
                em.mat("f90_triangle_subdivide_%s_%d" % (letter.upper(), d),
                       closed_form_matrix(cf[d]["nodes_" + letter], n, n))
    except Exception as exc:  # noqa
        em.problem("f90 triangle subdivide closed forms: %r" % (exc,))


def main():
    pkg = os.environ.get("BEZIER_PKG")
    if not pkg:
        sys.path.insert(0, HERE)
        import build_repo
        pkg = os.path.join(build_repo.build(), "pkg_pure")
    em = Emit()
    python_constants(em, pkg)
    python_literals(em)
    python_shoelace(em, pkg)
    fortran_shoelace(em)
    fortran_parameters(em)
    fortran_literals(em)
    fortran_tables(em)
    text = ("/- GENERATED by harness/extract.py from /repo's working tree on every run; do not edit. -/\n"
            "namespace BezierVerif.Generated\n\n" + "\n\n".join(em.lines) + "\n\nend BezierVerif.Generated\n")
    old = None
    if os.path.exists(OUT):
        with open(OUT) as fh:
            old = fh.read()
    if old != text:
        os.makedirs(os.path.dirname(OUT), exist_ok=True)
        with open(OUT + ".tmp", "w") as fh:
            fh.write(text)
        os.replace(OUT + ".tmp", OUT)
    for p in em.problems:
        print("EXTRACT-PROBLEM: " + p)
    print("extracted %d items (%s)" % (len(em.names), "changed" if old != text else "unchanged"))


if __name__ == "__main__":
    main()
