#!/venv/bin/python
"""Translator (data) for `hazmat/algebraic_intersection.py`: literals that live INSIDE function
bodies, read from the AST of /repo's *current working tree*:

  * `_to_power_basis11/12/13/_degree4`: the sample parameters (third argument of every
    `valK = eval_intersection_polynomial(nodes1, nodes2, <const>)`) and the coefficient matrix of
    the returned linear combinations `np.asfortranarray([<lin expr in val0..>, ...])`;
  * `_to_power_basis23/_degree8/33`: which node array and which `polyfit` degree;
  * `to_power_basis`: the `(num_nodes1, num_nodes2) -> helper` table of the if/elif chain;
  * `poly_to_power_basis`: the coefficient matrices of the branches `num_coeffs == 2, 3, 4`
    (and that `num_coeffs == 1` returns its argument);
  * `_evaluate3`: the scale factor, the scaled column slice and the three block placements;
  * `evaluate`: the node counts with a branch, and the factor of `val_b *= 2`.

Writes lean/BezierVerif/Generated/Algebraic.lean (only when the content changes) and prints
`EXTRACT-PROBLEM:` lines.  Exit status 0 even if single items fail: the Tables obligation that
mentions a missing item then fails, which ./check handles.
"""
import ast
import os
import sys
from fractions import Fraction as Fr

HERE = os.path.dirname(os.path.abspath(__file__))
sys.path.insert(0, HERE)
from extract import Emit, lean_rat, lean_row, lean_mat, _func  # noqa: E402

REPO = os.environ.get("BEZIER_REPO", "/repo")
SRC = os.path.join(REPO, "src/python/bezier/hazmat/algebraic_intersection.py")
OUT = os.path.join(os.path.dirname(HERE), "lean", "BezierVerif", "Generated", "Algebraic.lean")

HELPER_CODE = {"_to_power_basis11": 11, "_to_power_basis12": 12, "_to_power_basis13": 13,
               "_to_power_basis_degree4": 4, "_to_power_basis23": 23, "_to_power_basis_degree8": 8,
               "_to_power_basis33": 33}


class NotLinear(Exception):
    pass


def const_value(node):
    """a numeric constant expression (numbers, unary minus, + - * / ** of constants)"""
    if isinstance(node, ast.Constant) and isinstance(node.value, (int, float)) and not isinstance(node.value, bool):
        return Fr(node.value)
    if isinstance(node, ast.UnaryOp) and isinstance(node.op, (ast.USub, ast.UAdd)):
        v = const_value(node.operand)
        return -v if isinstance(node.op, ast.USub) else v
    if isinstance(node, ast.BinOp):
        a, b = const_value(node.left), const_value(node.right)
        if isinstance(node.op, ast.Add):
            return a + b
        if isinstance(node.op, ast.Sub):
            return a - b
        if isinstance(node.op, ast.Mult):
            return a * b
        if isinstance(node.op, ast.Div):
            return a / b
        if isinstance(node.op, ast.Pow) and b.denominator == 1:
            return a ** int(b)
    raise NotLinear(ast.dump(node)[:80])


def linear(node, names):
    """coefficients {name: Fraction, None: constant} of an expression linear in `names`"""
    if isinstance(node, ast.Name):
        if node.id in names:
            return {node.id: Fr(1)}
        raise NotLinear("name " + node.id)
    if isinstance(node, ast.UnaryOp) and isinstance(node.op, (ast.USub, ast.UAdd)):
        d = linear(node.operand, names)
        return {k: -v for k, v in d.items()} if isinstance(node.op, ast.USub) else d
    if isinstance(node, ast.BinOp):
        if isinstance(node.op, (ast.Add, ast.Sub)):
            a, b = linear(node.left, names), linear(node.right, names)
            sgn = 1 if isinstance(node.op, ast.Add) else -1
            out = dict(a)
            for k, v in b.items():
                out[k] = out.get(k, Fr(0)) + sgn * v
            return out
        if isinstance(node.op, ast.Mult):
            for c_side, l_side in ((node.left, node.right), (node.right, node.left)):
                try:
                    c = const_value(c_side)
                except NotLinear:
                    continue
                return {k: c * v for k, v in linear(l_side, names).items()}
            raise NotLinear("product of two non-constants")
    try:
        return {None: const_value(node)}
    except NotLinear:
        raise NotLinear(ast.dump(node)[:80])


def returned_array(fn_body):
    """the list literal inside `return np.asfortranarray([...])` (last return of the body)"""
    for stmt in reversed(fn_body):
        if isinstance(stmt, ast.Return) and isinstance(stmt.value, ast.Call) and stmt.value.args and \
                isinstance(stmt.value.args[0], ast.List):
            return stmt.value.args[0].elts
    return None


def matrix_of(elts, names):
    rows = []
    for e in elts:
        d = linear(e, set(names))
        if d.get(None, 0) != 0:
            raise NotLinear("constant term")
        rows.append([d.get(n, Fr(0)) for n in names])
    return rows


def interpolation_helper(em, tree, fname, tag):
    fn = _func(tree, fname)
    if fn is None:
        em.problem("function %s not found" % fname)
        return
    names, nodes = [], []
    for stmt in fn.body:
        if isinstance(stmt, ast.Assign) and len(stmt.targets) == 1 and isinstance(stmt.targets[0], ast.Name) \
                and isinstance(stmt.value, ast.Call) and isinstance(stmt.value.func, ast.Name) \
                and stmt.value.func.id == "eval_intersection_polynomial" and len(stmt.value.args) == 3:
            args = stmt.value.args
            if not (isinstance(args[0], ast.Name) and args[0].id == "nodes1" and
                    isinstance(args[1], ast.Name) and args[1].id == "nodes2"):
                em.problem("%s: unexpected curve arguments" % fname)
            names.append(stmt.targets[0].id)
            nodes.append(const_value(args[2]))
    elts = returned_array(fn.body)
    if elts is None or not names:
        em.problem("%s: sample / return pattern not found" % fname)
        return
    em.row("alg_%s_nodes" % tag, nodes)
    em.mat("alg_%s_matrix" % tag, matrix_of(elts, names))


def fit_helper(em, tree, fname, tag):
    """evaluated = [eval_intersection_polynomial(nodes1, nodes2, t_val) for t_val in _CHEBn]
       return polynomial.polyfit(_CHEBn, evaluated, deg)"""
    fn = _func(tree, fname)
    if fn is None:
        em.problem("function %s not found" % fname)
        return
    comp_iter = None
    for node in ast.walk(fn):
        if isinstance(node, ast.ListComp) and len(node.generators) == 1 and isinstance(node.generators[0].iter, ast.Name):
            call = node.elt
            if isinstance(call, ast.Call) and isinstance(call.func, ast.Name) and call.func.id == "eval_intersection_polynomial":
                comp_iter = node.generators[0].iter.id
    ret = [s for s in fn.body if isinstance(s, ast.Return)]
    ok = False
    if ret and isinstance(ret[-1].value, ast.Call) and isinstance(ret[-1].value.func, ast.Attribute) \
            and ret[-1].value.func.attr == "polyfit" and len(ret[-1].value.args) == 3:
        a = ret[-1].value.args
        if isinstance(a[0], ast.Name) and isinstance(a[1], ast.Name):
            if a[0].id != comp_iter:
                em.problem("%s: fitted abscissae %s differ from sampled %s" % (fname, a[0].id, comp_iter))
            em.string("alg_%s_nodes_name" % tag, a[0].id.lstrip("_"))
            em.nat("alg_%s_fit_degree" % tag, int(const_value(a[2])))
            ok = True
    if not ok:
        em.problem("%s: polyfit pattern not found" % fname)


def eq_test(test, var):
    """`var == <int>` -> int"""
    if isinstance(test, ast.Compare) and isinstance(test.left, ast.Name) and test.left.id == var and \
            len(test.ops) == 1 and isinstance(test.ops[0], ast.Eq):
        return int(const_value(test.comparators[0]))
    return None


def if_chain(stmt):
    """[(test, body)] of an if / elif chain, and the final else body"""
    out = []
    while True:
        out.append((stmt.test, stmt.body))
        if len(stmt.orelse) == 1 and isinstance(stmt.orelse[0], ast.If):
            stmt = stmt.orelse[0]
            continue
        return out, stmt.orelse


def dispatch_table(em, tree):
    fn = _func(tree, "to_power_basis")
    if fn is None:
        em.problem("function to_power_basis not found")
        return
    table = []
    top = [s for s in fn.body if isinstance(s, ast.If)]
    if len(top) != 1:
        em.problem("to_power_basis: expected one top-level if chain")
        return
    outer, outer_else = if_chain(top[0])
    if outer_else:
        em.problem("to_power_basis: unexpected else of the outer chain")
    for test, body in outer:
        n1 = eq_test(test, "num_nodes1")
        if n1 is None or len(body) != 1 or not isinstance(body[0], ast.If):
            em.problem("to_power_basis: outer branch not understood")
            continue
        inner, inner_else = if_chain(body[0])
        if inner_else:
            em.problem("to_power_basis: unexpected else of an inner chain")
        for t2, b2 in inner:
            n2 = eq_test(t2, "num_nodes2")
            r = b2[0] if len(b2) == 1 else None
            if n2 is None or not (isinstance(r, ast.Return) and isinstance(r.value, ast.Call) and
                                  isinstance(r.value.func, ast.Name) and r.value.func.id in HELPER_CODE):
                em.problem("to_power_basis: inner branch not understood")
                continue
            a = r.value.args
            if not (len(a) == 2 and isinstance(a[0], ast.Name) and a[0].id == "nodes1" and
                    isinstance(a[1], ast.Name) and a[1].id == "nodes2"):
                em.problem("to_power_basis: helper called with unexpected arguments")
            table.append((n1, n2, HELPER_CODE[r.value.func.id]))
    last = fn.body[-1]
    if not (isinstance(last, ast.Raise) and isinstance(last.exc, ast.Call) and
            isinstance(last.exc.func, ast.Name) and last.exc.func.id == "NotImplementedError"):
        em.problem("to_power_basis: does not end in raise NotImplementedError")
    em._add("alg_pb_dispatch", "def alg_pb_dispatch : List (Nat × Nat × Nat) :=\n   [" +
            ", ".join("(%d, %d, %d)" % t for t in table) + "]")


def poly_to_power_basis(em, tree):
    fn = _func(tree, "poly_to_power_basis")
    if fn is None:
        em.problem("function poly_to_power_basis not found")
        return
    top = [s for s in fn.body if isinstance(s, ast.If)]
    if len(top) != 1:
        em.problem("poly_to_power_basis: expected one if chain")
        return
    chain, orelse = if_chain(top[0])
    sizes = []
    for test, body in chain:
        n = eq_test(test, "num_coeffs")
        if n is None:
            em.problem("poly_to_power_basis: branch test not understood")
            continue
        sizes.append(n)
        if n == 1:
            if not (len(body) == 1 and isinstance(body[0], ast.Return) and isinstance(body[0].value, ast.Name)
                    and body[0].value.id == "bezier_coeffs"):
                em.problem("poly_to_power_basis: num_coeffs == 1 does not return its argument")
            continue
        names = None
        for stmt in body:
            if isinstance(stmt, ast.Assign) and isinstance(stmt.targets[0], ast.Tuple) and \
                    isinstance(stmt.value, ast.Name) and stmt.value.id == "bezier_coeffs":
                names = [e.id for e in stmt.targets[0].elts]
        elts = returned_array(body)
        if names is None or elts is None or len(names) != n:
            em.problem("poly_to_power_basis: branch %d not understood" % n)
            continue
        try:
            em.mat("alg_p2pb_matrix_%d" % n, matrix_of(elts, names))
        except NotLinear as exc:
            em.problem("poly_to_power_basis: branch %d: %s" % (n, exc))
    if not (orelse and isinstance(orelse[-1], ast.Raise)):
        em.problem("poly_to_power_basis: no final raise")
    em._add("alg_p2pb_sizes", "def alg_p2pb_sizes : List Nat := [" + ", ".join(str(s) for s in sizes) + "]")


def slice_bounds(sl, size):
    lo = 0 if sl.lower is None else int(const_value(sl.lower))
    hi = size if sl.upper is None else int(const_value(sl.upper))
    return lo, hi


def evaluate3(em, tree):
    fn = _func(tree, "_evaluate3")
    if fn is None:
        em.problem("function _evaluate3 not found")
        return
    blocks = []
    scale = None
    size = None
    for stmt in fn.body:
        if isinstance(stmt, ast.Assign) and isinstance(stmt.value, ast.Call) and \
                isinstance(stmt.value.func, ast.Attribute) and stmt.value.func.attr == "zeros":
            shp = stmt.value.args[0]
            if isinstance(shp, ast.Tuple) and len(shp.elts) == 2:
                size = int(const_value(shp.elts[0]))
                if int(const_value(shp.elts[1])) != size:
                    em.problem("_evaluate3: matrix not square")
        if isinstance(stmt, ast.AugAssign) and isinstance(stmt.op, ast.Mult) and isinstance(stmt.target, ast.Subscript) \
                and isinstance(stmt.target.value, ast.Name) and stmt.target.value.id == "delta":
            idx = stmt.target.slice
            if isinstance(idx, ast.Tuple) and len(idx.elts) == 2 and isinstance(idx.elts[1], ast.Slice):
                lo, hi = slice_bounds(idx.elts[1], 4)
                scale = (const_value(stmt.value), lo, hi)
        if isinstance(stmt, ast.Assign) and isinstance(stmt.targets[0], ast.Subscript) and \
                isinstance(stmt.targets[0].value, ast.Name) and stmt.targets[0].value.id == "sylvester_mat" and \
                isinstance(stmt.value, ast.Name) and stmt.value.id == "delta" and size is not None:
            idx = stmt.targets[0].slice
            if isinstance(idx, ast.Tuple) and len(idx.elts) == 2 and all(isinstance(e, ast.Slice) for e in idx.elts):
                r0, r1 = slice_bounds(idx.elts[0], size)
                c0, c1 = slice_bounds(idx.elts[1], size)
                blocks.append((r0, r1, c0, c1))
    if size is None or scale is None or not blocks:
        em.problem("_evaluate3: pattern not found")
        return
    em.nat("alg_evaluate3_size", size)
    em.rat("alg_evaluate3_scale", scale[0])
    em.nat("alg_evaluate3_scale_from", scale[1])
    em.nat("alg_evaluate3_scale_to", scale[2])
    em._add("alg_evaluate3_blocks", "def alg_evaluate3_blocks : List (Nat × Nat × Nat × Nat) :=\n   [" +
            ", ".join("(%d, %d, %d, %d)" % b for b in blocks) + "]")
    ret = fn.body[-1]
    if not (isinstance(ret, ast.Return) and isinstance(ret.value, ast.Call) and isinstance(ret.value.func, ast.Attribute)
            and ret.value.func.attr == "det"):
        em.problem("_evaluate3: does not return a determinant")


def evaluate_branches(em, tree):
    fn = _func(tree, "evaluate")
    if fn is None:
        em.problem("function evaluate not found")
        return
    sizes = []
    factors = []
    for stmt in fn.body:
        if isinstance(stmt, ast.If):
            n = eq_test(stmt.test, "num_nodes")
            if n is not None:
                sizes.append(n)
            for sub in stmt.body:
                if isinstance(sub, ast.AugAssign) and isinstance(sub.op, ast.Mult) and isinstance(sub.target, ast.Name):
                    factors.append(const_value(sub.value))
    em._add("alg_evaluate_sizes", "def alg_evaluate_sizes : List Nat := [" + ", ".join(str(s) for s in sizes) + "]")
    em.row("alg_evaluate2_factors", factors)


def main():
    em = Emit()
    try:
        with open(SRC) as fh:
            tree = ast.parse(fh.read())
    except Exception as exc:  # noqa
        em.problem("cannot parse %s: %r" % (SRC, exc))
        tree = None
    if tree is not None:
        for fname, tag in (("_to_power_basis11", "pb11"), ("_to_power_basis12", "pb12"),
                           ("_to_power_basis13", "pb13"), ("_to_power_basis_degree4", "pb4")):
            try:
                interpolation_helper(em, tree, fname, tag)
            except Exception as exc:  # noqa
                em.problem("%s: %r" % (fname, exc))
        for fname, tag in (("_to_power_basis23", "pb23"), ("_to_power_basis_degree8", "pb8"),
                           ("_to_power_basis33", "pb33")):
            try:
                fit_helper(em, tree, fname, tag)
            except Exception as exc:  # noqa
                em.problem("%s: %r" % (fname, exc))
        for f in (dispatch_table, poly_to_power_basis, evaluate3, evaluate_branches):
            try:
                f(em, tree)
            except Exception as exc:  # noqa
                em.problem("%s: %r" % (f.__name__, exc))
    text = ("/- GENERATED by harness/extract_algebraic.py from /repo's working tree on every run; do not edit. -/\n"
            "namespace BezierVerif.Generated\n\n" + "\n\n".join(em.lines) + "\n\nend BezierVerif.Generated\n")
    old = None
    if os.path.exists(OUT):
        with open(OUT) as fh:
            old = fh.read()
    if old != text:
        os.makedirs(os.path.dirname(OUT), exist_ok=True)
        with open(OUT + ".tmp", "w") as fh:
            fh.write(text)
        os.replace(OUT + ".tmp", OUT)
    for p in em.problems:
        print("EXTRACT-PROBLEM: " + p)
    print("extracted %d algebraic items (%s)" % (len(em.names), "changed" if old != text else "unchanged"))


if __name__ == "__main__":
    main()
