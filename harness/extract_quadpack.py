#!/venv/bin/python
"""Translator (data) for the non-adaptive core of the length quadrature, read from /repo's
*current working tree*:

  * `src/fortran/quadpack.f90`, subroutine `dqk21`: the literal tables `wg(1..5)`, `wgk(1..11)`,
    `xgk(1..11)` of the `data` statements, as EXACT decimal rationals (`qp_wg`, `qp_wgk`,
    `qp_xgk`) and additionally rounded to binary64 the way a compiler stores a `d0` literal
    (`qp_*_b64`, correctly rounded decimal -> binary64 conversion); the numeric constants of the
    executable statements (`0.5D+00` of `centr`, `hlgth`, `reskh`; `0.2D+03`, `1.5D+00`, `0.1D+01`,
    `0.5D+02` of the error heuristic), the loop bounds, the index maps `jtw = 2*j`,
    `jtwm1 = 2*j-1`, the index of the centre weight, the source of `epmach` / `uflow`
    (intrinsics `epsilon` / `tiny` of `real(kind=8)`; their IEEE binary64 values are emitted);
  * same file, subroutine `dqagse`: argument order of the first `call dqk21`, the constants of
    the first-step tests (`1.0D+02*epmach*defabs`, the `ier = 6` guard);
  * `src/fortran/curve.f90`, subroutine `compute_length`: the arguments of `call dqagse(...)`
    (integrand name, interval, `epsabs`, `epsrel`, `limit`; parameters such as `SQRT_PREC`
    resolved with the module's `parameter` statements);
  * `src/python/bezier/hazmat/curve_helpers.py`, `compute_length`: the arguments of
    `_scipy_int.quad(...)` (interval; keyword arguments, normally none = SciPy defaults).

Writes lean/BezierVerif/Generated/Quadpack.lean (only when the content changes) and prints
`EXTRACT-PROBLEM:` lines.  Exit status 0 even if single items fail: the Tables obligation that
mentions a missing item then fails, which ./check handles.  Standalone: `harness/extract_quadpack.py`
(`--print` also writes the generated text to stdout).  The correspondence script reads the tables
back from the generated Lean file (`read_generated()` below) - one source for Lean and Python.
"""
import ast
import os
import re
import sys
from fractions import Fraction as Fr

HERE = os.path.dirname(os.path.abspath(__file__))
sys.path.insert(0, HERE)
from extract import Emit, fortran_lines, eval_scalar, _func  # noqa: E402

REPO = os.environ.get("BEZIER_REPO", "/repo")
OUT = os.path.join(os.path.dirname(HERE), "lean", "BezierVerif", "Generated", "Quadpack.lean")
PYSRC = os.path.join(REPO, "src/python/bezier/hazmat/curve_helpers.py")

FNUM = r"[0-9]*\.?[0-9]+(?:[dDeE][-+]?[0-9]+)?|[0-9]+\.(?:[dDeE][-+]?[0-9]+)?"


def fnum(tok):
    """exact value of a Fortran real / integer literal (`0.5D+00`, `0.2D+03`, `0.5d-28`, `50`, `1.0_dp`)"""
    tok = tok.strip().replace("_dp", "")
    m = re.fullmatch(r"([-+]?)([0-9]*)\.?([0-9]*)(?:[dDeE]([-+]?[0-9]+))?", tok)
    if not m or (m.group(2) == "" and m.group(3) == ""):
        raise ValueError("not a numeric literal: %r" % tok)
    sign, ip, fp, ex = m.groups()
    v = Fr(int((ip or "0") + fp), 10 ** len(fp)) * Fr(10) ** int(ex or 0)
    return -v if sign == "-" else v


def b64(x):
    """correctly rounded binary64 value of the exact rational x, as an exact rational"""
    x = Fr(x)
    return Fr(x.numerator / x.denominator)       # int / int true division is correctly rounded


def subroutine(lines, name):
    out, inside = [], False
    for line in lines:
        low = line.lower()
        if re.match(r"subroutine\s+%s\b" % name, low):
            inside = True
        if inside:
            out.append(line)
        if inside and re.match(r"end\s+subroutine\s+%s\b" % name, low):
            return out
    return out if inside else None


def squeeze(s):
    return re.sub(r"\s+", "", s).lower()


def dqk21_items(em, lines):
    body = subroutine(lines, "dqk21")
    if body is None:
        em.problem("quadpack.f90: subroutine dqk21 not found")
        return
    sq = [squeeze(l) for l in body]
    # ---- declarations
    dims = {}
    for l in sq:
        m = re.match(r"dimension(.*)$", l)
        if m:
            for nm, n in re.findall(r"(\w+)\((\d+)\)", m.group(1)):
                dims[nm] = int(n)
    kinds = [l for l in sq if l.startswith("real(kind=8)")]
    if not kinds:
        em.problem("dqk21: no `real ( kind = 8 )` declaration")
    # ---- data tables
    tables = {"wg": {}, "wgk": {}, "xgk": {}}
    digits = []
    for l in sq:
        m = re.match(r"data(\w+)\((\d+)\)/(.*)/$", l)
        if not m:
            continue
        nm, idx, lit = m.group(1), int(m.group(2)), m.group(3)
        if nm not in tables:
            em.problem("dqk21: data statement for unexpected array %s" % nm)
            continue
        if idx in tables[nm]:
            em.problem("dqk21: duplicate data statement %s(%d)" % (nm, idx))
        try:
            tables[nm][idx] = fnum(lit)
            digits.append(len(re.sub(r"[dDeE].*$", "", lit).split(".", 1)[-1]) if "." in lit else 0)
        except Exception as exc:  # noqa
            em.problem("dqk21: literal of %s(%d): %r" % (nm, idx, exc))
    for nm, tab in tables.items():
        n = dims.get(nm)
        if n is None:
            em.problem("dqk21: no dimension for %s" % nm)
            continue
        if sorted(tab) != list(range(1, n + 1)):
            em.problem("dqk21: data statements of %s do not cover 1..%d" % (nm, n))
            continue
        em.row("qp_%s" % nm, [tab[i] for i in range(1, n + 1)])
        em.row("qp_%s_b64" % nm, [b64(tab[i]) for i in range(1, n + 1)])
    if digits:
        em.nat("qp_k21_literal_decimals_min", min(digits))   # digits after the decimal point
    for nm in ("fv1", "fv2"):
        if nm in dims:
            em.nat("qp_k21_%s_size" % nm, dims[nm])
    # ---- machine constants
    for var, intrinsic, val in (("epmach", "epsilon", Fr(1, 2 ** 52)), ("uflow", "tiny", Fr(1, 2 ** 1022))):
        src = [l for l in sq if l.startswith(var + "=")]
        if len(src) != 1:
            em.problem("dqk21: assignment of %s not found / not unique" % var)
            continue
        rhs = src[0].split("=", 1)[1]
        if rhs == "%s(%s)" % (intrinsic, var):
            em.string("qp_k21_%s_source" % var, intrinsic)
            # the value of the intrinsic for real(kind=8) = IEEE binary64 (gfortran on every supported target)
            em.rat("qp_%s" % var, val)
        else:
            try:
                em.rat("qp_%s" % var, fnum(rhs))
                em.string("qp_k21_%s_source" % var, "literal")
            except Exception:  # noqa
                em.problem("dqk21: %s = %s not understood" % (var, rhs))

    # ---- executable statements: constants at anchored positions
    def one(pattern, what):
        hits = [m for m in (re.fullmatch(pattern, l) for l in sq) if m]
        if len(hits) != 1:
            em.problem("dqk21: statement `%s` not found / not unique" % what)
            return None
        return hits[0]

    num = "(%s)" % FNUM
    m = one(r"centr=%s\*\(a\+b\)" % num, "centr = c*(a+b)")
    if m:
        em.rat("qp_k21_centr_factor", fnum(m.group(1)))
    m = one(r"hlgth=%s\*\(b-a\)" % num, "hlgth = c*(b-a)")
    if m:
        em.rat("qp_k21_hlgth_factor", fnum(m.group(1)))
    one(r"dhlgth=abs\(hlgth\)", "dhlgth = abs(hlgth)")
    m = one(r"reskh=resk\*%s" % num, "reskh = resk*c")
    if m:
        em.rat("qp_k21_reskh_factor", fnum(m.group(1)))
    m = one(r"resg=%s" % num, "resg = 0")
    if m:
        em.rat("qp_k21_resg_init", fnum(m.group(1)))
    m = one(r"resk=wgk\((\d+)\)\*fc", "resk = wgk(c)*fc")
    if m:
        em.nat("qp_k21_centre_index", int(m.group(1)))
    one(r"fc=f\(centr\)", "fc = f(centr)")
    one(r"resabs=abs\(resk\)", "resabs = abs(resk)")
    m = one(r"resasc=wgk\((\d+)\)\*abs\(fc-reskh\)", "resasc = wgk(c)*abs(fc-reskh)")
    if m:
        em.nat("qp_k21_asc_centre_index", int(m.group(1)))
    one(r"result=resk\*hlgth", "result = resk*hlgth")
    one(r"resabs=resabs\*dhlgth", "resabs = resabs*dhlgth")
    one(r"resasc=resasc\*dhlgth", "resasc = resasc*dhlgth")
    one(r"abserr=abs\(\(resk-resg\)\*hlgth\)", "abserr = abs((resk-resg)*hlgth)")
    m = one(r"if\(resasc\.ne\.%s\.and\.abserr\.ne\.%s\)abserr=resasc\*min\(%s,\(%s\*abserr/resasc\)\*\*%s\)"
            % (num, num, num, num, num), "error rescaling")
    if m:
        g = [fnum(x) for x in m.groups()]
        if g[0] != 0 or g[1] != 0:
            em.problem("dqk21: error rescaling guarded by non-zero constants")
        em.rat("qp_k21_err_cap", g[2])
        em.rat("qp_k21_err_scale", g[3])
        em.rat("qp_k21_err_power", g[4])
    m = one(r"if\(resabs\.gt\.uflow/\(%s\*epmach\)\)abserr=max\(\(epmach\*%s\)\*resabs,abserr\)" % (num, num),
            "round-off floor")
    if m:
        em.rat("qp_k21_floor_guard_factor", fnum(m.group(1)))
        em.rat("qp_k21_floor_factor", fnum(m.group(2)))
    # loops:   do j=1,5 / jtw = 2*j ;  do j = 1,5 / jtwm1 = 2*j-1 ; do j=1,10
    loops = []
    for i, l in enumerate(sq):
        mm = re.fullmatch(r"doj=(\d+),(\d+)", l)
        if mm:
            loops.append((i, int(mm.group(1)), int(mm.group(2))))
    if len(loops) != 3 or any(lo != 1 for _, lo, _ in loops):
        em.problem("dqk21: expected three loops `do j = 1,n`")
    else:
        em.nat("qp_k21_gauss_loop", loops[0][2])
        em.nat("qp_k21_kronrod_loop", loops[1][2])
        em.nat("qp_k21_asc_loop", loops[2][2])
        b1 = sq[loops[0][0] + 1: loops[1][0]]
        b2 = sq[loops[1][0] + 1: loops[2][0]]
        b3 = sq[loops[2][0] + 1:]
        want1 = ["jtw=2*j", "absc=hlgth*xgk(jtw)", "fval1=f(centr-absc)", "fval2=f(centr+absc)", "fv1(jtw)=fval1",
                 "fv2(jtw)=fval2", "fsum=fval1+fval2", "resg=resg+wg(j)*fsum", "resk=resk+wgk(jtw)*fsum",
                 "resabs=resabs+wgk(jtw)*(abs(fval1)+abs(fval2))", "enddo"]
        want2 = ["jtwm1=2*j-1", "absc=hlgth*xgk(jtwm1)", "fval1=f(centr-absc)", "fval2=f(centr+absc)",
                 "fv1(jtwm1)=fval1", "fv2(jtwm1)=fval2", "fsum=fval1+fval2", "resk=resk+wgk(jtwm1)*fsum",
                 "resabs=resabs+wgk(jtwm1)*(abs(fval1)+abs(fval2))", "enddo"]
        want3 = ["resasc=resasc+wgk(j)*(abs(fv1(j)-reskh)+abs(fv2(j)-reskh))", "enddo"]
        ok = b1[:len(want1)] == want1 and b2[:len(want2)] == want2 and b3[:len(want3)] == want3
        # 1 = the statements of the three loop bodies are, token for token, the ones the model transcribes
        em.nat("qp_k21_loop_bodies_as_modelled", 1 if ok else 0)
        if not ok:
            em.problem("dqk21: a loop body differs from the transcribed one")


def dqagse_items(em, lines):
    body = subroutine(lines, "dqagse")
    if body is None:
        em.problem("quadpack.f90: subroutine dqagse not found")
        return
    sq = [squeeze(l) for l in body]
    calls = [l for l in sq if l.startswith("calldqk21(")]
    if not calls:
        em.problem("dqagse: no call of dqk21")
    else:
        em.string("qp_agse_first_k21_args", calls[0][len("calldqk21("):-1])
        em.nat("qp_agse_k21_calls", len(calls))
    num = "(%s)" % FNUM
    hit = [re.fullmatch(r"if\(epsabs\.le\.%s\.and\.epsrel\.lt\.max\(%s\*epmach,%s\)\)then" % (num, num, num), l) for l in sq]
    hit = [h for h in hit if h]
    if len(hit) == 1:
        em.rat("qp_agse_guard_epsabs", fnum(hit[0].group(1)))
        em.rat("qp_agse_guard_epmach_factor", fnum(hit[0].group(2)))
        em.rat("qp_agse_guard_epsrel_floor", fnum(hit[0].group(3)))
    else:
        em.problem("dqagse: `ier = 6` guard not found")
    for pat, what in ((r"dres=abs\(result\)", "dres"), (r"errbnd=max\(epsabs,epsrel\*dres\)", "errbnd"),
                      (r"if\(limit\.eq\.1\)ier=1", "limit test"),
                      (r"if\(ier\.ne\.0\.or\.\(abserr\.le\.errbnd\.and\.abserr\.ne\.resabs\)\.or\.abserr\.eq\.%s\)goto140" % num,
                       "first-step exit test")):
        if sum(1 for l in sq if re.fullmatch(pat, l)) != 1:
            em.problem("dqagse: statement `%s` not found / not unique" % what)
    hit = [re.fullmatch(r"if\(abserr\.le\.%s\*epmach\*defabs\.and\.abserr\.gt\.errbnd\)ier=(\d+)" % num, l) for l in sq]
    hit = [h for h in hit if h]
    if len(hit) == 1:
        em.rat("qp_agse_roundoff_factor", fnum(hit[0].group(1)))
        em.nat("qp_agse_roundoff_ier", int(hit[0].group(2)))
    else:
        em.problem("dqagse: first-step round-off test not found")
    hit = [re.fullmatch(r"140neval=(\d+)\*last-(\d+)", l) for l in sq]
    hit = [h for h in hit if h]
    if len(hit) == 1:
        em.nat("qp_agse_neval_per_interval", int(hit[0].group(1)))
        em.nat("qp_agse_neval_offset", int(hit[0].group(2)))
    else:
        em.problem("dqagse: `neval` statement not found")


def split_args(s):
    out, depth, cur = [], 0, ""
    for ch in s:
        if ch == "," and depth == 0:
            out.append(cur)
            cur = ""
            continue
        depth += ch in "(["
        depth -= ch in ")]"
        cur += ch
    out.append(cur)
    return [a.strip() for a in out]


def compute_length_items(em):
    try:
        lines = fortran_lines("curve")
    except Exception as exc:  # noqa
        em.problem("read curve.f90: %r" % (exc,))
        return
    env = {}
    for line in lines:
        m = re.match(r"(integer\(c_int\)|real\(c_double\)),\s*parameter\s*::\s*(\w+)\s*=\s*(.+)$", line)
        if m:
            try:
                env[m.group(2)] = eval_scalar(m.group(3), env)
            except Exception:  # noqa
                pass
    body = subroutine(lines, "compute_length")
    if body is None:
        em.problem("curve.f90: subroutine compute_length not found")
        return
    calls = [l for l in body if re.match(r"call\s+dqagse\s*\(", l)]
    if len(calls) != 1:
        em.problem("compute_length: expected exactly one call of dqagse")
        return
    inner = calls[0][calls[0].index("(") + 1: calls[0].rindex(")")]
    args = split_args(inner)
    if len(args) != 16:
        em.problem("compute_length: dqagse called with %d arguments" % len(args))
        return
    em.string("qp_length_integrand", args[0])
    for nm, a in (("a", args[1]), ("b", args[2]), ("epsabs", args[3]), ("epsrel", args[4])):
        try:
            em.rat("qp_length_%s" % nm, eval_scalar(a, env))
        except Exception as exc:  # noqa
            em.problem("compute_length: argument %s = %s: %r" % (nm, a, exc))
    try:
        em.nat("qp_length_limit", int(eval_scalar(args[5], env)))
    except Exception as exc:  # noqa
        em.problem("compute_length: limit = %s: %r" % (args[5], exc))
    em.string("qp_length_result_arg", args[6])
    em.string("qp_length_ier_arg", args[9])
    sq = [squeeze(l) for l in body]
    # the closure: norm_ = norm2(evaluated) of evaluate_multi(num_nodes - 1, dimension_, first_deriv, 1, [s_val], evaluated)
    ok = any(l == "callevaluate_multi(num_nodes-1,dimension_,first_deriv,1,[s_val],evaluated)" for l in sq) and \
        any(l == "norm_=norm2(evaluated)" for l in sq) and \
        any(l == "first_deriv=(num_nodes-1)*(nodes(:,2:)-nodes(:,:num_nodes-1))" for l in sq)
    em.nat("qp_length_integrand_as_modelled", 1 if ok else 0)
    if not ok:
        em.problem("compute_length: integrand closure differs from the transcribed one")
    sizes = set(int(n) for l in sq for n in re.findall(r"(?:alist|blist|rlist|elist|iord)\((\d+)\)", l)
                if l.startswith(("real(c_double)", "integer(c_int)")))
    if len(sizes) == 1:
        em.nat("qp_length_workspace", sizes.pop())
    else:
        em.problem("compute_length: workspace sizes %r" % (sorted(sizes),))


def python_items(em):
    try:
        with open(PYSRC) as fh:
            tree = ast.parse(fh.read())
    except Exception as exc:  # noqa
        em.problem("cannot parse %s: %r" % (PYSRC, exc))
        return
    fn = _func(tree, "compute_length")
    if fn is None:
        em.problem("python compute_length not found")
        return
    calls = [n for n in ast.walk(fn) if isinstance(n, ast.Call) and isinstance(n.func, ast.Attribute) and n.func.attr == "quad"]
    if len(calls) != 1:
        em.problem("python compute_length: expected exactly one `.quad(` call")
        return
    c = calls[0]
    try:
        if len(c.args) != 3:
            raise ValueError("%d positional arguments" % len(c.args))
        em.rat("py_length_a", Fr(ast.literal_eval(c.args[1])))
        em.rat("py_length_b", Fr(ast.literal_eval(c.args[2])))
        em.string("py_length_quad_keywords", ",".join(sorted(k.arg or "**" for k in c.keywords)))
    except Exception as exc:  # noqa
        em.problem("python compute_length: quad arguments: %r" % (exc,))


def generate():
    em = Emit()
    try:
        lines = fortran_lines("quadpack")
    except Exception as exc:  # noqa
        em.problem("read quadpack.f90: %r" % (exc,))
        lines = None
    if lines is not None:
        for f in (dqk21_items, dqagse_items):
            try:
                f(em, lines)
            except Exception as exc:  # noqa
                em.problem("%s: %r" % (f.__name__, exc))
    for f in (compute_length_items, python_items):
        try:
            f(em)
        except Exception as exc:  # noqa
            em.problem("%s: %r" % (f.__name__, exc))
    text = ("/- GENERATED by harness/extract_quadpack.py from /repo's working tree on every run; do not edit. -/\n"
            "namespace BezierVerif.Generated\n\n" + "\n\n".join(em.lines) + "\n\nend BezierVerif.Generated\n")
    return em, text


def read_generated(path=OUT):
    """{name: value} of the generated file: Nat / Int -> int, Rat -> Fraction, String -> str,
    List Rat -> [Fraction]; used by props/c12q.py"""
    out = {}

    def rat(s):
        s = s.strip()
        m = re.fullmatch(r"\((-?\d+) : Rat\)(?:/(\d+))?", s)
        if m:
            return Fr(int(m.group(1)), int(m.group(2) or 1))
        return Fr(int(s))
    with open(path) as fh:
        for line in fh:
            m = re.match(r"def (\w+) : (Nat|Int|Rat|String|List Rat) := (.*)$", line.strip())
            if not m:
                continue
            nm, ty, val = m.groups()
            if ty == "String":
                out[nm] = val.strip('"')
            elif ty == "List Rat":
                inner = val.strip()[1:-1].strip()
                out[nm] = [rat(x) for x in inner.split(",")] if inner else []
            elif ty == "Rat":
                out[nm] = rat(val)
            else:
                out[nm] = int(val)
    return out


def main():
    em, text = generate()
    old = None
    if os.path.exists(OUT):
        with open(OUT) as fh:
            old = fh.read()
    if old != text:
        os.makedirs(os.path.dirname(OUT), exist_ok=True)
        with open(OUT + ".tmp", "w") as fh:
            fh.write(text)
        os.replace(OUT + ".tmp", OUT)
    if "--print" in sys.argv[1:]:
        sys.stdout.write(text)
    for p in em.problems:
        print("EXTRACT-PROBLEM: " + p)
    print("extracted %d quadrature items (%s)" % (len(em.names), "changed" if old != text else "unchanged"))


if __name__ == "__main__":
    main()
