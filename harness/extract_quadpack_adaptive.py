#!/venv/bin/python
"""Translator (data) for the ADAPTIVE part of the length quadrature, read from /repo's *current working
tree* (`src/fortran/quadpack.f90`): subroutines `dqagse`, `dqelg`, `dqpsrt`.

Every executable statement of the three routines is matched, token for token (blanks removed, lower case,
continuation lines joined, comments stripped), against the statement sequence that
lean/BezierVerif/Model/QuadratureAdaptive.lean transcribes.  The numeric literals inside the statements are
holes of the templates: their values are emitted as `qpa_*` constants (reals as exact rationals, integers as
Nat), everything else must agree literally.  A source edit in a modelled line therefore shows either as a
changed constant (the `decide +kernel` obligation of Tables/C12QuadAdaptive that ties it to
`AgseConsts.default` fails) or as `qpa_<routine>_statements_as_modelled = 0` plus an `EXTRACT-PROBLEM:` line
naming the first differing statement.

Also emitted: the sizes of the local arrays (`rlist2(52)`, `res3la(3)`, `epstab(52)`), the sources of the
machine constants (`epsilon`, `tiny`, `huge`) with their IEEE binary64 values.  (The pure-Python
`compute_length` calls `scipy.integrate.quad(f, 0.0, 1.0)`; props/c12a.py reads SciPy's defaults at run time.)

Writes lean/BezierVerif/Generated/QuadpackAdaptive.lean (only when the content changes).  Standalone:
`harness/extract_quadpack_adaptive.py [--print]`.  `read_generated()` (from extract_quadpack) reads it back.
"""
import os
import re
import sys
from fractions import Fraction as Fr

HERE = os.path.dirname(os.path.abspath(__file__))
sys.path.insert(0, HERE)
from extract import Emit, fortran_lines  # noqa: E402
from extract_quadpack import FNUM, fnum, subroutine, squeeze, read_generated  # noqa: E402,F401

OUT = os.path.join(os.path.dirname(HERE), "lean", "BezierVerif", "Generated", "QuadpackAdaptive.lean")

# ---------------------------------------------------------------------------------------------------------
# templates: `{r:name}` = real literal, `{i:name}` = integer literal; a name used twice must carry the same value
# ---------------------------------------------------------------------------------------------------------
DQAGSE = """
correc={r:zero}
erlarg={r:zero}
ertest={r:zero}
small={r:zero}
epmach=epsilon(epmach)
ier=0
neval=0
last=0
result={r:zero}
abserr={r:zero}
alist(1)=a
blist(1)=b
rlist(1)={r:zero}
elist(1)={r:zero}
if(epsabs.le.{r:zero}.and.epsrel.lt.max({r:c50_guard}*epmach,{r:floor28}))then
ier={i:ier_invalid}
return
endif
uflow=tiny(uflow)
oflow=huge(oflow)
ierro=0
calldqk21(f,a,b,result,abserr,defabs,resabs)
dres=abs(result)
errbnd=max(epsabs,epsrel*dres)
last=1
rlist(1)=result
elist(1)=abserr
iord(1)=1
if(abserr.le.{r:c100}*epmach*defabs.and.abserr.gt.errbnd)ier={i:ier_roundoff_first}
if(limit.eq.1)ier={i:ier_limit_first}
if(ier.ne.0.or.(abserr.le.errbnd.and.abserr.ne.resabs).or.abserr.eq.{r:zero})goto140
rlist2(1)=result
errmax=abserr
maxerr=1
area=result
errsum=abserr
abserr=oflow
nrmax=1
nres=0
numrl2=2
ktmin=0
extrap=.false.
noext=.false.
iroff1=0
iroff2=0
iroff3=0
ksgn=-1
if(dres.ge.({r:one_ksgn}-{r:c50_ksgn}*epmach)*defabs)ksgn=1
do90last=2,limit
a1=alist(maxerr)
b1={r:half_bisect}*(alist(maxerr)+blist(maxerr))
a2=b1
b2=blist(maxerr)
erlast=errmax
calldqk21(f,a1,b1,area1,error1,resabs,defab1)
calldqk21(f,a2,b2,area2,error2,resabs,defab2)
area12=area1+area2
erro12=error1+error2
errsum=errsum+erro12-errmax
area=area+area12-rlist(maxerr)
if(defab1.eq.error1.or.defab2.eq.error2)goto15
if(abs(rlist(maxerr)-area12).gt.{r:roff_rel}*abs(area12).or.erro12.lt.{r:roff_shrink}*errmax)goto10
if(extrap)iroff2=iroff2+1
if(.not.extrap)iroff1=iroff1+1
10if(last.gt.{i:iroff3_from}.and.erro12.gt.errmax)iroff3=iroff3+1
15rlist(maxerr)=area1
rlist(last)=area2
errbnd=max(epsabs,epsrel*abs(area))
if(iroff1+iroff2.ge.{i:iroff12_max}.or.iroff3.ge.{i:iroff3_max})ier={i:ier_roundoff}
if(iroff2.ge.{i:iroff2_max})ierro={i:ierro_value}
if(last.eq.limit)ier={i:ier_limit}
if(max(abs(a1),abs(b2)).le.({r:one_bad}+{r:bad_eps}*epmach)*(abs(a2)+{r:bad_uflow}*uflow))ier={i:ier_bad}
if(error2.gt.error1)goto20
alist(last)=a2
blist(maxerr)=b1
blist(last)=b2
elist(maxerr)=error1
elist(last)=error2
goto30
20alist(maxerr)=a2
alist(last)=a1
blist(last)=b1
rlist(maxerr)=area2
rlist(last)=area1
elist(maxerr)=error2
elist(last)=error1
30calldqpsrt(limit,last,maxerr,errmax,elist,iord,nrmax)
if(errsum.le.errbnd)goto115
if(ier.ne.0)goto100
if(last.eq.2)goto80
if(noext)goto90
erlarg=erlarg-erlast
if(abs(b1-a1).gt.small)erlarg=erlarg+erro12
if(extrap)goto40
if(abs(blist(maxerr)-alist(maxerr)).gt.small)goto90
extrap=.true.
nrmax=2
40if(ierro.eq.{i:ierro_value}.or.erlarg.le.ertest)goto60
id=nrmax
jupbnd=last
if(last.gt.(2+limit/2))jupbnd=limit+3-last
dok=id,jupbnd
maxerr=iord(nrmax)
errmax=elist(maxerr)
if(abs(blist(maxerr)-alist(maxerr)).gt.small)goto90
nrmax=nrmax+1
enddo
60numrl2=numrl2+1
rlist2(numrl2)=area
calldqelg(numrl2,rlist2,reseps,abseps,res3la,nres)
ktmin=ktmin+1
if(ktmin.gt.{i:ktmin_max}.and.abserr.lt.{r:ktmin_factor}*errsum)ier={i:ier_divergent}
if(abseps.ge.abserr)goto70
ktmin=0
abserr=abseps
result=reseps
correc=erlarg
ertest=max(epsabs,epsrel*abs(reseps))
if(abserr.le.ertest)goto100
70if(numrl2.eq.1)noext=.true.
if(ier.eq.{i:ier_divergent})goto100
maxerr=iord(1)
errmax=elist(maxerr)
nrmax=1
extrap=.false.
small=small*{r:half_small}
erlarg=errsum
goto90
80small=abs(b-a)*{r:small_factor}
erlarg=errsum
ertest=errbnd
rlist2(2)=area
90continue
100if(abserr.eq.oflow)goto115
if(ier+ierro.eq.0)goto110
if(ierro.eq.{i:ierro_value})abserr=abserr+correc
if(ier.eq.0)ier={i:ier_from_ierro}
if(result.ne.{r:zero}.and.area.ne.{r:zero})goto105
if(abserr.gt.errsum)goto115
if(area.eq.{r:zero})goto130
goto110
105if(abserr/abs(result).gt.errsum/abs(area))goto115
110if(ksgn.eq.(-1).and.max(abs(result),abs(area)).le.defabs*{r:div_lo})goto130
if({r:div_lo}.gt.(result/area).or.(result/area).gt.{r:div_hi}.or.errsum.gt.abs(area))ier={i:ier_div}
goto130
115result={r:zero}
dok=1,last
result=result+rlist(k)
enddo
abserr=errsum
130if(ier.gt.{i:ier_shift_from})ier=ier-1
140neval={i:neval_mul}*last-{i:neval_off}
return
endsubroutinedqagse
"""

DQELG = """
epmach=epsilon(epmach)
oflow=huge(oflow)
nres=nres+1
abserr=oflow
result=epstab(n)
if(n.lt.{i:elg_nmin})goto100
limexp={i:limexp}
epstab(n+2)=epstab(n)
newelm=(n-1)/2
epstab(n)=oflow
num=n
k1=n
do40i=1,newelm
k2=k1-1
k3=k1-2
res=epstab(k1+2)
e0=epstab(k3)
e1=epstab(k2)
e2=res
e1abs=abs(e1)
delta2=e2-e1
err2=abs(delta2)
tol2=max(abs(e2),e1abs)*epmach
delta3=e1-e0
err3=abs(delta3)
tol3=max(e1abs,abs(e0))*epmach
if(err2.gt.tol2.or.err3.gt.tol3)goto10
result=res
abserr=err2+err3
goto100
10e3=epstab(k1)
epstab(k1)=e1
delta1=e1-e3
err1=abs(delta1)
tol1=max(e1abs,abs(e3))*epmach
if(err1.le.tol1.or.err2.le.tol2.or.err3.le.tol3)goto20
ss={r:elg_one}/delta1+{r:elg_one}/delta2-{r:elg_one}/delta3
epsinf=abs(ss*e1)
if(epsinf.gt.{r:elg_irregular})goto30
20n=i+i-1
goto50
30res=e1+{r:elg_one}/ss
epstab(k1)=res
k1=k1-2
error=err2+abs(res-e2)+err3
if(error.le.abserr)then
abserr=error
result=res
endif
40continue
50if(n.eq.limexp)n=2*(limexp/2)-1
ib=1
if((num/2)*2.eq.num)ib=2
ie=newelm+1
doi=1,ie
ib2=ib+2
epstab(ib)=epstab(ib2)
ib=ib2
enddo
if(num.eq.n)goto80
indx=num-n+1
doi=1,n
epstab(i)=epstab(indx)
indx=indx+1
enddo
80if(nres.ge.{i:elg_nres})goto90
res3la(nres)=result
abserr=oflow
goto100
90abserr=abs(result-res3la(3))+abs(result-res3la(2))+abs(result-res3la(1))
res3la(1)=res3la(2)
res3la(2)=res3la(3)
res3la(3)=result
100continue
abserr=max(abserr,{r:elg_floor}*epmach*abs(result))
return
endsubroutinedqelg
"""

DQPSRT = """
if(last.gt.2)goto10
iord(1)=1
iord(2)=2
goto90
10errmax=elist(maxerr)
ido=nrmax-1
doi=1,ido
isucc=iord(nrmax-1)
if(errmax.le.elist(isucc))goto30
iord(nrmax)=isucc
nrmax=nrmax-1
enddo
30jupbn=last
if(last.gt.(limit/2+2))jupbn=limit+3-last
errmin=elist(last)
jbnd=jupbn-1
ibeg=nrmax+1
doi=ibeg,jbnd
isucc=iord(i)
if(errmax.ge.elist(isucc))goto60
iord(i-1)=isucc
enddo
iord(jbnd)=maxerr
iord(jupbn)=last
goto90
60iord(i-1)=maxerr
k=jbnd
doj=i,jbnd
isucc=iord(k)
if(errmin.lt.elist(isucc))goto80
iord(k+1)=isucc
k=k-1
enddo
iord(i)=last
goto90
80iord(k+1)=last
90maxerr=iord(nrmax)
ermax=elist(maxerr)
return
endsubroutinedqpsrt
"""

DECL = re.compile(r"^(subroutine|implicitnone|real\(|integer\(|logical|dimension|procedure\()")


def template_regex(t):
    out, pos = "", 0
    names = []
    for m in re.finditer(r"\{([ri]):(\w+)\}", t):
        out += re.escape(t[pos:m.start()])
        out += "(%s)" % FNUM if m.group(1) == "r" else r"(\d+)"
        names.append((m.group(1), m.group(2)))
        pos = m.end()
    out += re.escape(t[pos:])
    return re.compile(out), names


def match_routine(em, lines, name, template, prefix):
    body = subroutine(lines, name)
    if body is None:
        em.problem("quadpack.f90: subroutine %s not found" % name)
        em.nat("qpa_%s_statements_as_modelled" % name, 0)
        return None
    sq = [squeeze(l) for l in body]
    decl = [l for l in sq if DECL.match(l)]
    stmts = [l for l in sq if not DECL.match(l)]
    want = [l for l in template.strip().split("\n") if l]
    vals = {}
    ok = True
    if len(stmts) != len(want):
        em.problem("%s: %d executable statements, the model transcribes %d" % (name, len(stmts), len(want)))
        ok = False
    for i, (got, t) in enumerate(zip(stmts, want)):
        rx, names = template_regex(t)
        m = rx.fullmatch(got)
        if not m:
            em.problem("%s: statement %d is `%s`, the model transcribes `%s`" % (name, i + 1, got, t))
            ok = False
            break
        for (kind, nm), tok in zip(names, m.groups()):
            v = fnum(tok) if kind == "r" else int(tok)
            if nm in vals and vals[nm] != (kind, v):
                em.problem("%s: literal `%s` has two different values (%s, %s)" % (name, nm, vals[nm][1], v))
                ok = False
            vals.setdefault(nm, (kind, v))
    for nm, (kind, v) in vals.items():
        if kind == "r":
            em.rat("%s%s" % (prefix, nm), v)
        else:
            em.nat("%s%s" % (prefix, nm), v)
    em.nat("qpa_%s_statements_as_modelled" % name, 1 if ok else 0)
    em.nat("qpa_%s_statement_count" % name, len(stmts))
    return decl


def dims(decl):
    out = {}
    for l in decl or []:
        m = re.match(r"dimension(.*)$", l)
        if m:
            for nm, n in re.findall(r"(\w+)\((\w+)\)", m.group(1)):
                out[nm] = n
    return out


def generate():
    em = Emit()
    try:
        lines = fortran_lines("quadpack")
    except Exception as exc:  # noqa
        em.problem("read quadpack.f90: %r" % (exc,))
        lines = None
    if lines is not None:
        try:
            d = dims(match_routine(em, lines, "dqagse", DQAGSE, "qpa_"))
            for nm in ("rlist2", "res3la"):
                if d.get(nm, "").isdigit():
                    em.nat("qpa_agse_%s_size" % nm, int(d[nm]))
                else:
                    em.problem("dqagse: dimension of %s not found" % nm)
            for nm in ("alist", "blist", "rlist", "elist", "iord"):
                if d.get(nm) != "limit":
                    em.problem("dqagse: %s is not dimensioned (limit)" % nm)
            d = dims(match_routine(em, lines, "dqelg", DQELG, "qpa_"))
            for nm in ("epstab", "res3la"):
                if d.get(nm, "").isdigit():
                    em.nat("qpa_elg_%s_size" % nm, int(d[nm]))
                else:
                    em.problem("dqelg: dimension of %s not found" % nm)
            match_routine(em, lines, "dqpsrt", DQPSRT, "qpa_")
        except Exception as exc:  # noqa
            em.problem("extract_quadpack_adaptive: %r" % (exc,))
        # machine constants: epsilon / tiny / huge of real(kind=8) = IEEE binary64
        em.rat("qpa_oflow", (2 - Fr(1, 2 ** 52)) * 2 ** 1023)
        em.rat("qpa_epmach", Fr(1, 2 ** 52))
        em.rat("qpa_uflow", Fr(1, 2 ** 1022))
    text = ("/- GENERATED by harness/extract_quadpack_adaptive.py from /repo's working tree on every run; do not edit. -/\n"
            "namespace BezierVerif.Generated\n\n" + "\n\n".join(em.lines) + "\n\nend BezierVerif.Generated\n")
    return em, text


def main():
    em, text = generate()
    old = None
    if os.path.exists(OUT):
        with open(OUT) as fh:
            old = fh.read()
    if old != text:
        os.makedirs(os.path.dirname(OUT), exist_ok=True)
        with open(OUT + ".tmp", "w") as fh:
            fh.write(text)
        os.replace(OUT + ".tmp", OUT)
    if "--print" in sys.argv[1:]:
        sys.stdout.write(text)
    for p in em.problems:
        print("EXTRACT-PROBLEM: " + p)
    print("extracted %d adaptive-quadrature items (%s)" % (len(em.names), "changed" if old != text else "unchanged"))


if __name__ == "__main__":
    main()
