#!/venv/bin/python
"""Source fingerprints: which functions / routines of /repo differ from the tree the framework was last validated on.

The fingerprints decide nothing about a property.  They only DIRECT EFFORT: when a unit anchored in a property's
files has changed, `check.py` runs the property's correspondence scripts with additional seeds (more inputs, other
random families) before it gives its verdict.  A failing input found that way is a failing input like any other; if
nothing fails, the verdict is the one of the ordinary run.  On the unchanged tree nothing differs and nothing extra runs.

unit names:   py:<relative file>:<qualified function>   py:<relative file>:<module>   (module-level statements)
              f90:<file>:<procedure>                    f90:<file>:<module>
              c:<file>                                   (whole file)
normalisation: Python - `ast.dump` of the definition without docstrings (comments, blank lines and formatting are
invisible); Fortran - comments stripped, continuation lines joined, lower-cased, white space collapsed.

usage: fingerprint.py            -> prints the units that differ from harness/data/source_fingerprints.json
       fingerprint.py --update   -> rewrites the baseline from the current tree (after a `fix:` commit in /repo)
"""
import ast
import hashlib
import json
import os
import re
import sys

HERE = os.path.dirname(os.path.abspath(__file__))
BASELINE = os.path.join(HERE, "data", "source_fingerprints.json")


def _h(text):
    return hashlib.sha256(text.encode()).hexdigest()[:16]


def _strip_doc(node):
    body = getattr(node, "body", None)
    if isinstance(body, list) and body and isinstance(body[0], ast.Expr) and isinstance(getattr(body[0], "value", None), ast.Constant) \
            and isinstance(body[0].value.value, str):
        node.body = body[1:] or [ast.Pass()]
    for child in ast.iter_child_nodes(node):
        _strip_doc(child)


def python_units(path, rel):
    out = {}
    try:
        with open(path) as fh:
            tree = ast.parse(fh.read())
    except (SyntaxError, OSError, UnicodeDecodeError) as exc:
        return {"py:%s:<unparsable>" % rel: _h(repr(exc))}
    _strip_doc(tree)
    rest = []

    def visit(node, prefix):
        for st in node.body:
            if isinstance(st, (ast.FunctionDef, ast.AsyncFunctionDef)):
                out["py:%s:%s" % (rel, prefix + st.name)] = _h(ast.dump(st))
            elif isinstance(st, ast.ClassDef):
                hdr = ast.ClassDef(name=st.name, bases=st.bases, keywords=st.keywords, body=[], decorator_list=st.decorator_list)
                rest.append(ast.dump(hdr))
                visit(st, prefix + st.name + ".")
            else:
                rest.append(ast.dump(st))
    visit(tree, "")
    out["py:%s:<module>" % rel] = _h("\n".join(rest))
    return out


def _fortran_norm(src):
    lines = []
    for raw in src.split("\n"):
        # strip comments (a `!` outside a string literal)
        line, q = "", None
        for ch in raw:
            if q:
                line += ch
                if ch == q:
                    q = None
            elif ch in "'\"":
                q = ch
                line += ch
            elif ch == "!":
                break
            else:
                line += ch
        line = line.rstrip()
        if line.strip():
            lines.append(line)
    joined, cur = [], ""
    for line in lines:
        s = line.strip()
        if s.startswith("&"):
            s = s[1:].lstrip()
        if s.endswith("&"):
            cur += s[:-1].rstrip() + " "
        else:
            joined.append(cur + s)
            cur = ""
    if cur:
        joined.append(cur)
    return [re.sub(r"\s+", " ", l).strip().lower() for l in joined]


def fortran_units(path, rel):
    out = {}
    try:
        with open(path) as fh:
            lines = _fortran_norm(fh.read())
    except OSError as exc:
        return {"f90:%s:<unreadable>" % rel: _h(repr(exc))}
    rest, cur, name = [], None, None
    start = re.compile(r"^(?:(?:pure|elemental|recursive)\s+)*(?:subroutine|(?:[a-z_()0-9=, ]+\s+)?function)\s+([a-z0-9_]+)")
    for line in lines:
        if cur is None:
            m = start.match(line)
            if m and not line.startswith("end"):
                cur, name = [line], m.group(1)
            else:
                rest.append(line)
        else:
            cur.append(line)
            if re.match(r"^end\s*(subroutine|function)\b", line):
                out["f90:%s:%s" % (rel, name)] = _h("\n".join(cur))
                cur, name = None, None
    if cur:
        out["f90:%s:%s" % (rel, name)] = _h("\n".join(cur))
    out["f90:%s:<module>" % rel] = _h("\n".join(rest))
    return out


def units(repo):
    out = {}
    pyroot = os.path.join(repo, "src/python/bezier")
    for d, _, fs in sorted(os.walk(pyroot)):
        for f in sorted(fs):
            p = os.path.join(d, f)
            rel = os.path.relpath(p, repo)
            if f.endswith(".py"):
                out.update(python_units(p, rel))
            elif f.endswith((".c", ".pyx", ".pxd")):
                with open(p, "rb") as fh:
                    out["c:%s" % rel] = hashlib.sha256(fh.read()).hexdigest()[:16]
    froot = os.path.join(repo, "src/fortran")
    for d, _, fs in sorted(os.walk(froot)):
        for f in sorted(fs):
            p = os.path.join(d, f)
            rel = os.path.relpath(p, repo)
            if f.endswith(".f90"):
                out.update(fortran_units(p, rel))
            elif f.endswith(".h"):
                with open(p, "rb") as fh:
                    out["c:%s" % rel] = hashlib.sha256(fh.read()).hexdigest()[:16]
    return out


def changed(repo="/repo"):
    """sorted list of units whose fingerprint differs from the baseline (changed, removed or new)"""
    try:
        with open(BASELINE) as fh:
            base = json.load(fh)["units"]
    except (OSError, ValueError, KeyError):
        return []
    cur = units(repo)
    return sorted(u for u in set(base) | set(cur) if base.get(u) != cur.get(u))


def unit_file(unit):
    return unit.split(":")[1]


if __name__ == "__main__":
    repo = os.environ.get("BEZIER_REPO", "/repo")
    if "--update" in sys.argv:
        import subprocess
        head = subprocess.run(["git", "-C", repo, "rev-parse", "HEAD"], stdout=subprocess.PIPE, text=True).stdout.strip()
        os.makedirs(os.path.dirname(BASELINE), exist_ok=True)
        u = units(repo)
        with open(BASELINE, "w") as fh:
            json.dump({"repo_head": head, "units": u}, fh, indent=0, sort_keys=True)
        print("baseline: %d units at %s" % (len(u), head))
    else:
        for u in changed(repo):
            print(u)
