"""Typed input generators.  Every random choice comes from the one PRNG passed in."""
from fractions import Fraction as Fr
import math
import struct


def int_net(rnd, dim, n_nodes, bound=16):
    return [[Fr(rnd.randint(-bound, bound)) for _ in range(n_nodes)] for _ in range(dim)]


def dyadic_net(rnd, dim, n_nodes, bound=16, bits=4):
    return [[Fr(rnd.randint(-bound * 2 ** bits, bound * 2 ** bits), 2 ** bits) for _ in range(n_nodes)] for _ in range(dim)]


def float_net(rnd, dim, n_nodes, scale_exp=0):
    return [[Fr(rnd.uniform(-1, 1) * 2.0 ** scale_exp) for _ in range(n_nodes)] for _ in range(dim)]


def smooth_float_net(rnd, dim, n_nodes):
    """nodes advancing roughly monotonically (a regular looking curve)"""
    out = []
    for d in range(dim):
        x = rnd.uniform(-1, 1)
        row = []
        for _ in range(n_nodes):
            row.append(Fr(x))
            x += rnd.uniform(-0.3, 1.0) if d == 0 else rnd.uniform(-0.8, 0.8)
        out.append(row)
    return out


def dyadic_param(rnd, max_bits, lo=0, hi=1):
    m = rnd.randint(0, max_bits)
    k = rnd.randint(lo * 2 ** m, hi * 2 ** m)
    return Fr(k, 2 ** m)


def float_param(rnd, lo=-1.0, hi=2.0):
    return Fr(rnd.uniform(lo, hi))


def ulp_neighbours(x):
    x = float(x)
    return [Fr(math.nextafter(x, -math.inf)), Fr(x), Fr(math.nextafter(x, math.inf))]


def unit_nets(n_nodes, scale=1):
    return [[Fr(scale if i == j else 0) for j in range(n_nodes)] for i in range(n_nodes)]


def tri_nodes_count(d):
    return (d + 1) * (d + 2) // 2
