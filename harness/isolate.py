"""Exact-arithmetic isolator for the solutions of B1(s) = B2(t) in the closed unit square.

SPECIFICATION side only (independent of the library and of the Lean model): nothing here uses
floating point.  Inputs are control nets `[[x0..xn],[y0..yn]]` of Fractions (ints accepted).

Method (all numbers are Python ints over one common denominator per subdivision level):
  * recursive midpoint subdivision of parameter rectangles R = S x T (both curves split at every level);
  * exclusion: the control polygons of the two sub-pieces have strictly disjoint bounding boxes, or are
    strictly separated by the fat line of either piece (projection on the chord normal);
  * inclusion: Krawczyk test on the *inflated* box R' = [a-w, b+w] x [c-w, d+w] (w = width of R; the curves
    are polynomials, so R' may leave the unit square).  The interval Jacobian is the box hull of the
    hodograph control points of the two pieces specialised to R' (a valid enclosure of B1', B2' there),
    Y = exact inverse of the midpoint Jacobian.  K(R') in int(R')  ==>  exactly one solution in R', and it
    is simple (every Jacobian of the enclosure is non-singular).  Because R' contains R in its interior,
    solutions on cell borders and on the border of the unit square are certified as well;
  * certified boxes are contracted by iterating K (quadratic convergence, outward rounding to a dyadic
    grid) to width <= 2^-44;
  * membership in the closed unit square: a contracted box is strictly inside, strictly outside (dropped),
    or straddles s = 0/1 or t = 0/1.  A straddling box is an *exact end-point root* iff the end point
    P = B1(s0) solves B2(t) = P for some t in the t-interval: decided by the gcd of x2(t)-Px, y2(t)-Py over Q
    and a Sturm count (corner: B1(s0) == B2(t0) compared exactly).  Otherwise the box is contracted
    further; if it still straddles at 2^-70 the answer is `undecided`;
  * depth limit 24 (cell width 2^-24), limits on live cells / processed cells: tangencies, coincident arcs and
    anything else that cannot be certified end as `undecided`.

Soundness: status `certified` means the returned roots are exactly the solutions in [0,1]^2, each simple.
`python harness/isolate.py --selftest` runs the built-in cases.
"""
import sys
import time
from fractions import Fraction as Fr
from math import gcd

MAX_DEPTH = 24
MAX_LIVE = 600          # live cells on one level
MAX_CELLS = 60000       # processed cells in total
REFINE_BITS = 44        # contracted boxes have width <= 2^-REFINE_BITS
AMBIG_BITS = 70         # boundary decisions are attempted down to this width


# ------------------------------------------------------------------------------------------- results
class Root:
    """one certified simple solution.  s, t in [s_lo, s_hi] x [t_lo, t_hi] (Fractions);
    s_exact / t_exact: None (strictly inside (0,1)) or Fraction 0 / 1 (the parameter is exactly that
    end point; then lo == hi == the end point).  sin2_lo <= sin^2(crossing angle) <= sin2_hi."""
    __slots__ = ("s_lo", "s_hi", "t_lo", "t_hi", "s_exact", "t_exact", "sin2_lo", "sin2_hi", "cell")

    def width(self):
        return max(self.s_hi - self.s_lo, self.t_hi - self.t_lo)

    def mid(self):
        return ((self.s_lo + self.s_hi) / 2, (self.t_lo + self.t_hi) / 2)

    def boundary_distance(self):
        """lower bound of the distance of the root to the border of the unit square (0 if exact end point)"""
        if self.s_exact is not None or self.t_exact is not None:
            return Fr(0)
        return min(self.s_lo, 1 - self.s_hi, self.t_lo, 1 - self.t_hi)

    def as_dict(self):
        return {"s": [str(self.s_lo), str(self.s_hi)], "t": [str(self.t_lo), str(self.t_hi)],
                "s_exact": None if self.s_exact is None else str(self.s_exact),
                "t_exact": None if self.t_exact is None else str(self.t_exact),
                "sin2_lo": float(self.sin2_lo)}


class Isolation:
    __slots__ = ("status", "reason", "roots", "cells", "depth", "seconds")

    def __init__(self):
        self.status = "undecided"
        self.reason = ""
        self.roots = []
        self.cells = 0
        self.depth = 0
        self.seconds = 0.0

    def min_separation(self):
        """lower bound of the pairwise max-norm distance of distinct roots in parameter space"""
        best = None
        r = self.roots
        for i in range(len(r)):
            for j in range(i + 1, len(r)):
                ds = max(r[i].s_lo - r[j].s_hi, r[j].s_lo - r[i].s_hi, 0)
                dt = max(r[i].t_lo - r[j].t_hi, r[j].t_lo - r[i].t_hi, 0)
                d = max(ds, dt)
                if best is None or d < best:
                    best = d
        return best


# ------------------------------------------------------------------------------------------- integer kernels
def _split(v):
    """midpoint subdivision of integer control values; both halves at scale 2^n of the input"""
    n = len(v) - 1
    left = [v[0] << n]
    right = [0] * (n + 1)
    right[n] = v[n] << n
    cur = v
    for r in range(1, n + 1):
        cur = [cur[j] + cur[j + 1] for j in range(n + 1 - r)]
        left.append(cur[0] << (n - r))
        right[n - r] = cur[-1] << (n - r)
    return left, right


def _inflate(v):
    """control values over the local interval [-1, 2] (three times as wide), at scale 2^n of the input"""
    n = len(v) - 1
    # [0, 2]: left part of de Casteljau at t = 2, weights (-1, 2), no scaling
    out = [v[0]]
    cur = v
    for r in range(1, n + 1):
        cur = [2 * cur[j + 1] - cur[j] for j in range(n + 1 - r)]
        out.append(cur[0])
    # on that piece u = -1/2 .. 1: right part of de Casteljau at u = -1/2, weights (3/2, -1/2), scale 2 per round
    res = [0] * (n + 1)
    res[n] = out[n] << n
    cur = out
    for r in range(1, n + 1):
        cur = [3 * cur[j] - cur[j + 1] for j in range(n + 1 - r)]
        res[n - r] = cur[-1] << (n - r)
    return res


def _specialize(v, a, b, m):
    """control values over [a/2^m, b/2^m], at scale 2^(m n) of the input (blossoms alpha^(n-i) beta^i)"""
    n = len(v) - 1
    one = 1 << m
    wa0, wa1 = one - a, a
    wb0, wb1 = one - b, b
    stages = [v]
    cur = v
    for _ in range(n):
        cur = [wa0 * cur[j] + wa1 * cur[j + 1] for j in range(len(cur) - 1)]
        stages.append(cur)
    out = []
    for i in range(n + 1):
        cur = stages[n - i]
        for _ in range(i):
            cur = [wb0 * cur[j] + wb1 * cur[j + 1] for j in range(len(cur) - 1)]
        out.append(cur[0])
    return out


def _mid(v):
    """value at local parameter 1/2 at scale 2^n of the input"""
    cur = v
    while len(cur) > 1:
        cur = [cur[j] + cur[j + 1] for j in range(len(cur) - 1)]
    return cur[0]


def _drange(v):
    lo = hi = v[1] - v[0]
    for j in range(1, len(v) - 1):
        d = v[j + 1] - v[j]
        if d < lo:
            lo = d
        elif d > hi:
            hi = d
    return lo, hi


def _imul(a_lo, a_hi, b_lo, b_hi):
    p = (a_lo * b_lo, a_lo * b_hi, a_hi * b_lo, a_hi * b_hi)
    return min(p), max(p)


def _krawczyk(px, py, qx, qy, gx, gy, n1, n2):
    """Krawczyk operator on the local box [0,1]^2 for G(sig,tau) = P(sig) - Q(tau).
    px..qy: control values of the two pieces over the box (one common scale), (gx, gy) = G(1/2,1/2) at the
    same scale.  Returns None if the midpoint Jacobian is singular, else
    (inside, (cs, rs, ct, rt, den), jac) with K = [cs-rs, cs+rs]/den x [ct-rt, ct+rt]/den in local
    coordinates, inside = K strictly inside (0,1)^2, jac = hodograph ranges."""
    ax_lo, ax_hi = _drange(px)
    ay_lo, ay_hi = _drange(py)
    bx_lo, bx_hi = _drange(qx)
    by_lo, by_hi = _drange(qy)
    ax_lo *= n1; ax_hi *= n1; ay_lo *= n1; ay_hi *= n1
    bx_lo *= n2; bx_hi *= n2; by_lo *= n2; by_hi *= n2
    # J = [[ax, -bx], [ay, -by]];  twice the midpoint and twice the radius
    p, q, r, s = ax_lo + ax_hi, -(bx_lo + bx_hi), ay_lo + ay_hi, -(by_lo + by_hi)
    rp, rq, rr, rs_ = ax_hi - ax_lo, bx_hi - bx_lo, ay_hi - ay_lo, by_hi - by_lo
    det = p * s - q * r
    if det == 0:
        return None
    # adj = [[s, -q], [-r, p]]
    u1 = s * gx - q * gy
    u2 = -r * gx + p * gy
    as_, aq, ar, ap = abs(s), abs(q), abs(r), abs(p)
    w1 = as_ * rp + aq * rr + as_ * rq + aq * rs_
    w2 = ar * rp + ap * rr + ar * rq + ap * rs_
    ad = abs(det)
    inside = 4 * abs(u1) + w1 < ad and 4 * abs(u2) + w2 < ad
    # K_i = 1/2 - 2 u_i/det +- w_i/(2|det|)  ->  over the denominator 2|det|
    sg = 1 if det > 0 else -1
    cs = ad - 4 * u1 * sg
    ct = ad - 4 * u2 * sg
    return inside, (cs, w1, ct, w2, 2 * ad), (ax_lo, ax_hi, ay_lo, ay_hi, bx_lo, bx_hi, by_lo, by_hi)


def _sin2_bounds(jac):
    ax_lo, ax_hi, ay_lo, ay_hi, bx_lo, bx_hi, by_lo, by_hi = jac
    c1 = _imul(ax_lo, ax_hi, by_lo, by_hi)
    c2 = _imul(ay_lo, ay_hi, bx_lo, bx_hi)
    c_lo, c_hi = c1[0] - c2[1], c1[1] - c2[0]
    if c_lo <= 0 <= c_hi:
        cmin = 0
    else:
        cmin = min(abs(c_lo), abs(c_hi))
    cmax = max(abs(c_lo), abs(c_hi))

    def sq_rng(lo, hi):
        mx = max(lo * lo, hi * hi)
        mn = 0 if lo <= 0 <= hi else min(lo * lo, hi * hi)
        return mn, mx
    a_mn = sq_rng(ax_lo, ax_hi)[0] + sq_rng(ay_lo, ay_hi)[0]
    a_mx = sq_rng(ax_lo, ax_hi)[1] + sq_rng(ay_lo, ay_hi)[1]
    b_mn = sq_rng(bx_lo, bx_hi)[0] + sq_rng(by_lo, by_hi)[0]
    b_mx = sq_rng(bx_lo, bx_hi)[1] + sq_rng(by_lo, by_hi)[1]
    lo = Fr(cmin * cmin, a_mx * b_mx) if a_mx and b_mx else Fr(0)
    hi = min(Fr(1), Fr(cmax * cmax, a_mn * b_mn)) if a_mn and b_mn else Fr(1)
    return lo, hi


# ------------------------------------------------------------------------------------------- polynomial helpers (rare path)
def _to_power(row):
    from math import comb
    n = len(row) - 1
    out = [Fr(0)] * (n + 1)
    for j in range(n + 1):
        if row[j] == 0:
            continue
        for m in range(n - j + 1):
            out[j + m] += comb(n, j) * comb(n - j, m) * (-1) ** m * row[j]
    return out


def _trim(p):
    p = list(p)
    while p and p[-1] == 0:
        p.pop()
    return p


def _pmod(a, b):
    a = list(a)
    while len(a) >= len(b):
        f = a[-1] / b[-1]
        sh = len(a) - len(b)
        for i, c in enumerate(b):
            a[sh + i] -= f * c
        a = _trim(a[:-1]) if a[-1] == 0 else _trim(a)
    return _trim(a)


def _pgcd(a, b):
    a, b = _trim(a), _trim(b)
    while b:
        a, b = b, _pmod(a, b)
    return a


def _pdiv_exact(a, b):
    a = list(a)
    out = [Fr(0)] * (len(a) - len(b) + 1)
    while len(a) >= len(b) and a:
        f = a[-1] / b[-1]
        sh = len(a) - len(b)
        out[sh] = f
        for i, c in enumerate(b):
            a[sh + i] -= f * c
        a = _trim(a)
    assert not a
    return out


def _peval(p, x):
    r = Fr(0)
    for c in reversed(p):
        r = r * x + c
    return r


def _has_root_in(p, lo, hi):
    """does the non-zero polynomial p (ascending Fractions) have a real root in [lo, hi]?"""
    p = _trim(p)
    if len(p) <= 1:
        return False
    d = [i * p[i] for i in range(1, len(p))]
    g = _pgcd(p, d)
    if len(g) > 1:
        p = _pdiv_exact(p, g)
    if _peval(p, lo) == 0 or _peval(p, hi) == 0:
        return True
    chain = [p, [i * p[i] for i in range(1, len(p))]]
    while len(chain[-1]) > 1:
        r = _pmod(chain[-2], chain[-1])
        if not r:
            break
        chain.append([-c for c in r])

    def var(x):
        sg = [v for v in (_peval(q, x) for q in chain) if v != 0]
        return sum(1 for i in range(len(sg) - 1) if (sg[i] > 0) != (sg[i + 1] > 0))
    return var(lo) - var(hi) >= 1


def point_on_curve_in(rows, point, lo, hi):
    """exact: is there t in [lo, hi] with B(t) == point?  None when the curve is constant == point"""
    px = _trim([c - (point[0] if i == 0 else 0) for i, c in enumerate(_to_power(rows[0]))])
    py = _trim([c - (point[1] if i == 0 else 0) for i, c in enumerate(_to_power(rows[1]))])
    if not px and not py:
        return None
    if not px:
        g = py
    elif not py:
        g = px
    else:
        g = _pgcd(px, py)
    return _has_root_in(g, lo, hi)


# ------------------------------------------------------------------------------------------- the isolator
class _Side:
    """one curve: integer control values per level over the level's common denominator"""

    def __init__(self, xs, ys, nmax):
        self.n = len(xs) - 1
        self.extra = nmax - self.n
        self.pieces = {(0, 0): (xs, ys)}
        self.meta = {}
        self.infl = {}

    def piece(self, d, k):
        p = self.pieces.get((d, k))
        if p is None:
            xs, ys = self.piece(d - 1, k >> 1)
            lx, rx = _split(xs)
            ly, ry = _split(ys)
            e = self.extra
            if e:
                lx = [v << e for v in lx]; rx = [v << e for v in rx]
                ly = [v << e for v in ly]; ry = [v << e for v in ry]
            k0 = k & ~1
            self.pieces[(d, k0)] = (lx, ly)
            self.pieces[(d, k0 + 1)] = (rx, ry)
            p = self.pieces[(d, k)]
        return p

    def box(self, d, k):
        m = self.meta.get((d, k))
        if m is None:
            xs, ys = self.piece(d, k)
            m = (min(xs), max(xs), min(ys), max(ys)) + _drange(xs) + _drange(ys)
            self.meta[(d, k)] = m
        return m

    def inflated(self, d, k):
        """control values over [a-w, b+w], scale 2^nmax of the level"""
        p = self.infl.get((d, k))
        if p is None:
            xs, ys = self.piece(d, k)
            ix, iy = _inflate(xs), _inflate(ys)
            e = self.extra
            if e:
                ix = [v << e for v in ix]; iy = [v << e for v in iy]
            p = (ix, iy)
            self.infl[(d, k)] = p
        return p


def _fat_separated(px, py, qx, qy):
    """strict separation of the two control polygons by the fat line of P (chord normal)"""
    x0, y0 = px[0], py[0]
    nx, ny = -(py[-1] - y0), px[-1] - x0
    if nx == 0 and ny == 0:
        return False
    dlo = dhi = 0
    for i in range(1, len(px) - 1):
        v = nx * (px[i] - x0) + ny * (py[i] - y0)
        if v < dlo:
            dlo = v
        elif v > dhi:
            dhi = v
    elo = ehi = None
    for j in range(len(qx)):
        v = nx * (qx[j] - x0) + ny * (qy[j] - y0)
        if elo is None:
            elo = ehi = v
        elif v < elo:
            elo = v
        elif v > ehi:
            ehi = v
        if elo <= dhi and ehi >= dlo:
            return False
    return elo > dhi or ehi < dlo


def _dy_floor(num, den, bits):
    return (num << bits) // den


def _dy_ceil(num, den, bits):
    return -((-num << bits) // den)


class _Refiner:
    """contraction of a certified box by iterating the Krawczyk operator on exactly specialised pieces"""

    def __init__(self, x1, y1, x2, y2, n1, n2):
        self.c = (x1, y1, x2, y2)
        self.n1, self.n2 = n1, n2

    def step(self, box):
        """box = (s_lo, s_hi, t_lo, t_hi, m) ints over 2^m.  Returns (newbox, jac) or None"""
        sl, sh, tl, th, m = box
        x1, y1, x2, y2 = self.c
        n1, n2 = self.n1, self.n2
        px = _specialize(x1, sl, sh, m); py = _specialize(y1, sl, sh, m)
        qx = _specialize(x2, tl, th, m); qy = _specialize(y2, tl, th, m)
        e1, e2 = m * n1, m * n2
        if e1 < e2:
            px = [v << (e2 - e1) for v in px]; py = [v << (e2 - e1) for v in py]
        elif e2 < e1:
            qx = [v << (e1 - e2) for v in qx]; qy = [v << (e1 - e2) for v in qy]
        # G(1/2,1/2) at scale 2^nmax of the pieces
        nm = max(n1, n2)
        gx = (_mid(px) << (nm - n1)) - (_mid(qx) << (nm - n2))
        gy = (_mid(py) << (nm - n1)) - (_mid(qy) << (nm - n2))
        sc = nm
        k = _krawczyk([v << sc for v in px], [v << sc for v in py], [v << sc for v in qx], [v << sc for v in qy],
                      gx, gy, n1, n2)
        if k is None:
            return None
        inside, (cs, rs, ct, rt, den), jac = k
        # local K -> global, rounded outward to a dyadic grid
        ws, wt = sh - sl, th - tl
        rad = max(rs * ws, rt * wt)
        # choose grid: about 6 bits finer than the new radius (at least m+2, at most AMBIG_BITS+8)
        bits = m + 2
        if rad > 0:
            # rad/den/2^m is the radius; want 2^-bits <= radius/64
            need = m + 6 + max(0, (den.bit_length() - rad.bit_length()) + 1)
            bits = max(bits, need)
        else:
            bits = AMBIG_BITS + 8
        bits = min(bits, AMBIG_BITS + 8)
        bits = max(bits, m)
        # s = (sl + ws * (cs -+ rs)/den) / 2^m
        nsl = _dy_floor(sl * den + ws * (cs - rs), den << m, bits)
        nsh = _dy_ceil(sl * den + ws * (cs + rs), den << m, bits)
        ntl = _dy_floor(tl * den + wt * (ct - rt), den << m, bits)
        nth = _dy_ceil(tl * den + wt * (ct + rt), den << m, bits)
        up = bits - m
        nsl = max(nsl, sl << up); nsh = min(nsh, sh << up)
        ntl = max(ntl, tl << up); nth = min(nth, th << up)
        if nsl > nsh or ntl > nth:
            return None   # cannot happen for a box that contains a root
        # one coordinate hit exactly while the other is still wide: keep a proper interval (one grid cell
        # each side) so that the next Jacobian enclosure is not singular by construction
        if nsl == nsh and nth > ntl:
            nsl -= 1; nsh += 1
        if ntl == nth and nsh > nsl:
            ntl -= 1; nth += 1
        return (nsl, nsh, ntl, nth, bits), jac, inside


def _small(box, target):
    """width <= 2^-target"""
    sl, sh, tl, th, m = box
    return (max(sh - sl, th - tl) << target) <= (1 << m)


def _norm_box(box):
    sl, sh, tl, th, m = box
    while m > 0 and not ((sl | sh | tl | th) & 1):
        sl >>= 1; sh >>= 1; tl >>= 1; th >>= 1; m -= 1
    return sl, sh, tl, th, m


def isolate(nodes1, nodes2, max_depth=MAX_DEPTH, max_live=MAX_LIVE, max_cells=MAX_CELLS):
    """nodes = [[x..],[y..]] exact rationals.  Returns an `Isolation`."""
    t0 = time.perf_counter()
    out = Isolation()
    rows = [[Fr(v) for v in r] for r in (nodes1[0], nodes1[1], nodes2[0], nodes2[1])]
    n1, n2 = len(rows[0]) - 1, len(rows[2]) - 1
    if n1 < 1 or n2 < 1 or len(rows[1]) != n1 + 1 or len(rows[3]) != n2 + 1:
        out.reason = "bad-input"
        return out
    D = 1
    for r in rows:
        for v in r:
            D = D * v.denominator // gcd(D, v.denominator)
    x1, y1, x2, y2 = ([int(v * D) for v in r] for r in rows)
    nmax = max(n1, n2)
    A = _Side(x1, y1, nmax)
    B = _Side(x2, y2, nmax)
    ref = _Refiner(x1, y1, x2, y2, n1, n2)
    certs = []          # (cellbox (sl,sh,tl,th,m) of R', refined box, jac)
    level = [(0, 0)]
    d = 0
    cells = 0
    reason = None
    while level:
        if d > max_depth:
            reason = "depth-limit"
            break
        if len(level) > max_live:
            reason = "too-many-live-cells"
            break
        nxt = []
        for (i, j) in level:
            cells += 1
            if cells > max_cells:
                reason = "cell-budget"
                break
            a = A.box(d, i)
            b = B.box(d, j)
            if a[1] < b[0] or b[1] < a[0] or a[3] < b[2] or b[3] < a[2]:
                continue
            # contained in an already certified inflated box?  (closed containment, dyadic compare)
            skip = False
            for (cl, _, _) in certs:
                sl, sh, tl, th, m = cl
                if d <= m:
                    up = m - d
                    if sl <= (i << up) and ((i + 1) << up) <= sh and tl <= (j << up) and ((j + 1) << up) <= th:
                        skip = True
                        break
                else:
                    up = d - m
                    if (sl << up) <= i and i + 1 <= (sh << up) and (tl << up) <= j and j + 1 <= (th << up):
                        skip = True
                        break
            if skip:
                continue
            px, py = A.piece(d, i)
            qx, qy = B.piece(d, j)
            if _fat_separated(px, py, qx, qy) or _fat_separated(qx, qy, px, py):
                continue
            # Krawczyk is hopeless unless the hodograph boxes already give a non-zero determinant
            c1 = _imul(a[4], a[5], b[6], b[7])
            c2 = _imul(a[6], a[7], b[4], b[5])
            if not (c1[0] - c2[1] <= 0 <= c1[1] - c2[0]):
                ipx, ipy = A.inflated(d, i)
                iqx, iqy = B.inflated(d, j)
                # G at the centre: pieces' midpoints (scale 2^n of the level, lifted to the inflated scale)
                gx = (_mid(px) << (nmax - n1)) - (_mid(qx) << (nmax - n2))
                gy = (_mid(py) << (nmax - n1)) - (_mid(qy) << (nmax - n2))
                k = _krawczyk(ipx, ipy, iqx, iqy, gx, gy, n1, n2)
                if k is not None and k[0]:
                    cell = (i - 1, i + 2, j - 1, j + 2, d)
                    # first contraction from the local Krawczyk image (local box = [0,1]^2 over width 3w)
                    _, (cs, rs, ct, rt, den), jac = k
                    bits = d + 8
                    nsl = _dy_floor((i - 1) * den + 3 * (cs - rs), den << d, bits)
                    nsh = _dy_ceil((i - 1) * den + 3 * (cs + rs), den << d, bits)
                    ntl = _dy_floor((j - 1) * den + 3 * (ct - rt), den << d, bits)
                    nth = _dy_ceil((j - 1) * den + 3 * (ct + rt), den << d, bits)
                    if nsl == nsh and nth > ntl:
                        nsl -= 1; nsh += 1
                    if ntl == nth and nsh > nsl:
                        ntl -= 1; nth += 1
                    certs.append((cell, (nsl, nsh, ntl, nth, bits), jac))
                    continue
            if d == max_depth:
                reason = "depth-limit"
                break
            nxt += [(2 * i, 2 * j), (2 * i, 2 * j + 1), (2 * i + 1, 2 * j), (2 * i + 1, 2 * j + 1)]
        if reason:
            break
        level = nxt
        d += 1
    out.cells = cells
    out.depth = d
    if reason:
        out.reason = reason
        out.seconds = time.perf_counter() - t0
        return out

    # ---- contract, classify, de-duplicate
    def contract(box, jac, target):
        for _ in range(40):
            sl, sh, tl, th, m = box
            if _small(box, target):
                break
            st = ref.step(box)
            if st is None:
                break
            nb, njac, _ = st
            # progress?
            osz = Fr(max(sh - sl, th - tl), 1 << m)
            nsz = Fr(max(nb[1] - nb[0], nb[3] - nb[2]), 1 << nb[4])
            box, jac = nb, njac
            if nsz * 16 > osz * 15:
                # no real progress (grid resolution reached or a non-contracting box): stop
                break
        return box, jac, _small(box, target)

    P0 = (rows[0][0], rows[1][0]); P1 = (rows[0][-1], rows[1][-1])
    Q0 = (rows[2][0], rows[3][0]); Q1 = (rows[2][-1], rows[3][-1])
    c1rows = [rows[0], rows[1]]
    c2rows = [rows[2], rows[3]]

    def side(lo, hi, m):
        one = 1 << m
        if hi < 0 or lo > one:
            return "out"
        if lo > 0 and hi < one:
            return "in"
        if lo <= 0 <= hi and lo <= one <= hi:
            return "both"
        return 0 if lo <= 0 <= hi else 1

    final = []
    for (cell, box, jac) in certs:
        box, jac, ok = contract(box, jac, REFINE_BITS)
        if not ok:
            out.reason = "contraction-failed"
            out.seconds = time.perf_counter() - t0
            return out
        s_exact = t_exact = None
        decided = False
        drop = False
        for attempt in range(4):
            sl, sh, tl, th, m = box
            ss, ts = side(sl, sh, m), side(tl, th, m)
            if ss == "out" or ts == "out":
                drop = decided = True
                break
            if ss == "in" and ts == "in":
                decided = True
                break
            if ss == "both" or ts == "both":
                break
            if ss != "in" and ts != "in":
                p = P0 if ss == 0 else P1
                q = Q0 if ts == 0 else Q1
                if p == q:
                    s_exact, t_exact = Fr(ss), Fr(ts)
                    decided = True
                    break
            elif ss != "in":
                p = P0 if ss == 0 else P1
                r = point_on_curve_in(c2rows, p, Fr(tl, 1 << m), Fr(th, 1 << m))
                if r is None:
                    break
                if r:
                    s_exact = Fr(ss)
                    decided = True
                    break
            else:
                q = Q0 if ts == 0 else Q1
                r = point_on_curve_in(c1rows, q, Fr(sl, 1 << m), Fr(sh, 1 << m))
                if r is None:
                    break
                if r:
                    t_exact = Fr(ts)
                    decided = True
                    break
            # not an exact end-point root of the tested kind: contract further and look again
            tgt = min(AMBIG_BITS, REFINE_BITS + 13 * (attempt + 1))
            box, jac, ok = contract(box, jac, tgt)
            if not ok:
                break
        if not decided:
            out.reason = "boundary-ambiguity"
            out.seconds = time.perf_counter() - t0
            return out
        if drop:
            continue
        final.append([cell, box, jac, s_exact, t_exact])

    # duplicates: the contracted box of one certificate inside the inflated cell of another -> same root
    keep = []
    for idx, (cell, box, jac, se, te) in enumerate(final):
        sl, sh, tl, th, m = box
        dup = False
        for (cell2, box2, _, _, _) in keep:
            a_lo, a_hi, b_lo, b_hi, m2 = box2
            mm = max(m, m2)
            u1, u2 = mm - m, mm - m2
            disjoint = (sh << u1) < (a_lo << u2) or (a_hi << u2) < (sl << u1) or \
                       (th << u1) < (b_lo << u2) or (b_hi << u2) < (tl << u1)
            if disjoint:
                continue
            # overlapping enclosures: same root iff provable by containment in a certified cell
            def inside(bx, cl):
                x0, x1_, y0, y1_, mb = bx
                c0, c1_, e0, e1_, mc = cl
                M = max(mb, mc)
                ub, uc = M - mb, M - mc
                return (c0 << uc) <= (x0 << ub) and (x1_ << ub) <= (c1_ << uc) and \
                       (e0 << uc) <= (y0 << ub) and (y1_ << ub) <= (e1_ << uc)
            if inside(box, cell2) or inside(box2, cell):
                dup = True
                break
            out.reason = "duplicate-ambiguity"
            out.seconds = time.perf_counter() - t0
            return out
        if not dup:
            keep.append((cell, box, jac, se, te))

    for (cell, box, jac, se, te) in keep:
        sl, sh, tl, th, m = _norm_box(box)
        r = Root()
        den = 1 << m
        r.s_lo, r.s_hi, r.t_lo, r.t_hi = Fr(sl, den), Fr(sh, den), Fr(tl, den), Fr(th, den)
        r.s_exact, r.t_exact = se, te
        if se is not None:
            r.s_lo = r.s_hi = se
        if te is not None:
            r.t_lo = r.t_hi = te
        r.sin2_lo, r.sin2_hi = _sin2_bounds(jac)
        r.cell = cell
        out.roots.append(r)
    out.roots.sort(key=lambda r: (r.s_lo, r.t_lo))
    out.status = "certified"
    out.seconds = time.perf_counter() - t0
    return out


# ------------------------------------------------------------------------------------------- self-test
def _check_root_residual(n1, n2, root):
    """exact residual at the box centre must be tiny (sanity of the whole chain)"""
    def ev(row, s):
        cur = [Fr(v) for v in row]
        while len(cur) > 1:
            cur = [(1 - s) * cur[j] + s * cur[j + 1] for j in range(len(cur) - 1)]
        return cur[0]
    s, t = root.mid()
    return max(abs(ev(n1[0], s) - ev(n2[0], t)), abs(ev(n1[1], s) - ev(n2[1], t)))


def selftest():
    F = Fr
    cases = []

    def case(name, n1, n2, expect, nroots=None, check=None):
        cases.append((name, n1, n2, expect, nroots, check))

    # line x line
    case("line x line, one crossing", [[0, 1], [0, 1]], [[0, 1], [1, 0]], "certified", 1,
         lambda r: r[0].s_lo <= F(1, 2) <= r[0].s_hi and r[0].s_exact is None)
    case("line x line, disjoint (parallel)", [[0, 1], [0, 1]], [[0, 1], [1, 2]], "certified", 0)
    case("line x line, crossing outside the segments", [[0, 1], [0, 1]], [[2, 3], [1, 0]], "certified", 0)
    case("line x line, T-junction: end point of 2 on 1", [[0, 4], [0, 0]], [[1, 1], [0, 3]], "certified", 1,
         lambda r: r[0].t_exact == 0 and r[0].s_exact is None and r[0].s_lo <= F(1, 4) <= r[0].s_hi)
    case("line x line, shared end point (corner)", [[0, 1], [0, 1]], [[1, 2], [1, 0]], "certified", 1,
         lambda r: r[0].s_exact == 1 and r[0].t_exact == 0)
    case("line x line, collinear overlap", [[0, 2], [0, 2]], [[1, 3], [1, 3]], "undecided")
    # line x parabola  y = 4 x (1-x) : nodes (0,0),(1/2,2),(1,0)
    par = [[0, F(1, 2), 1], [0, 2, 0]]
    case("line x parabola, 2 crossings", [[0, 1], [F(1, 2), F(1, 2)]], par, "certified", 2)
    case("line x parabola, 0 crossings", [[0, 1], [F(3, 2), F(3, 2)]], par, "certified", 0)
    case("line x parabola, 1 crossing", [[F(1, 4), F(1, 4)], [-1, 2]], par, "certified", 1,
         lambda r: r[0].t_lo <= F(1, 4) <= r[0].t_hi)
    case("line x parabola, tangent", [[0, 1], [1, 1]], par, "undecided")
    case("line x parabola, through both end points", [[0, 1], [0, 0]], par, "certified", 2,
         lambda r: r[0].s_exact == 0 and r[0].t_exact == 0 and r[1].s_exact == 1 and r[1].t_exact == 1)
    # two cubics, y = T3(x) and x = T3(y) on [-1,1]^2: 7 interior crossings + 2 shared corners
    c1 = [[-1, F(-1, 3), F(1, 3), 1], [-1, 5, -5, 1]]
    c2 = [[-1, 5, -5, 1], [-1, F(-1, 3), F(1, 3), 1]]
    case("two cubics, 9 crossings (2 at shared end points)", c1, c2, "certified", 9,
         lambda r: sum(1 for x in r if x.s_exact is not None and x.t_exact is not None) == 2)
    # same shape, ends pulled in: all 9 interior   y = T3(x) for x in [-17/16, 17/16]
    def t3_net(lo, hi):
        bl = lambda a, b, c: 4 * a * b * c - (a + b + c)
        xs = [lo, (2 * lo + hi) / 3, (lo + 2 * hi) / 3, hi]
        ys = [bl(lo, lo, lo), bl(lo, lo, hi), bl(lo, hi, hi), bl(hi, hi, hi)]
        return xs, ys
    xs, ys = t3_net(F(-17, 16), F(17, 16))
    case("two cubics, 9 interior crossings", [xs, ys], [ys, xs], "certified", 9,
         lambda r: all(x.s_exact is None and x.t_exact is None for x in r))
    # shared end points of two quadratics, transversal
    case("quadratics sharing both end points", [[0, 1, 2], [0, 2, 0]], [[0, 1, 2], [0, -2, 0]], "certified", 2,
         lambda r: r[0].s_exact == 0 and r[0].t_exact == 0 and r[1].s_exact == 1 and r[1].t_exact == 1)
    # end point of curve 1 in the interior of curve 2 at a non-dyadic, irrational-free parameter
    case("end point of a cubic on a parabola (t = 1/3)", [[F(1, 3), 1, 2, 3], [F(8, 9), 2, 3, 1]], par, "certified", 1,
         lambda r: r[0].s_exact == 0 and r[0].t_exact is None and r[0].t_lo <= F(1, 3) <= r[0].t_hi)
    # the C03 witness: curve 1 lies on x = 0, boxes tangent
    case("tangent boxes, curve on the common line", [[0, 0, 0], [0, 3, 1]], [[0, 1, 2], [1, 2, 1]], "certified", 2,
         lambda r: any(x.t_exact == 0 and x.s_lo <= F(1, 5) <= x.s_hi for x in r) and
         any(x.s_exact == 1 and x.t_exact == 0 for x in r))
    # coincident sub-arcs of one parabola
    def spec(row, a, b):
        n = len(row) - 1
        o = []
        for i in range(n + 1):
            cur = [F(v) for v in row]
            for tt in [a] * (n - i) + [b] * i:
                cur = [(1 - tt) * cur[k] + tt * cur[k + 1] for k in range(len(cur) - 1)]
            o.append(cur[0])
        return o
    case("coincident sub-arcs", [spec(par[0], 0, F(3, 4)), spec(par[1], 0, F(3, 4))],
         [spec(par[0], F(1, 4), 1), spec(par[1], F(1, 4), 1)], "undecided")
    # near miss of the boundary: crossing at s = 2^-30 (strictly inside, decided)
    case("crossing at s = 2^-30", [[0, 1], [0, 0]], [[F(1, 2 ** 30), F(1, 2 ** 30)], [-1, 1]], "certified", 1,
         lambda r: r[0].s_exact is None and r[0].s_lo > 0)
    case("crossing at s = -2^-30 (outside)", [[0, 1], [0, 0]], [[F(-1, 2 ** 30), F(-1, 2 ** 30)], [-1, 1]], "certified", 0)
    # degree 8 vs degree 5 wiggles
    d8 = [[F(k, 8) for k in range(9)], [0, 1, -1, 1, -1, 1, -1, 1, 0]]
    d5 = [[F(k, 5) for k in range(6)], [F(1, 10), F(-1, 2), F(1, 2), F(-1, 2), F(1, 2), F(1, 20)]]
    case("degree 8 x degree 5", d8, d5, "certified", None)

    bad = 0
    for name, n1, n2, expect, nroots, check in cases:
        r = isolate(n1, n2)
        ok = r.status == expect
        if ok and expect == "certified":
            if nroots is not None and len(r.roots) != nroots:
                ok = False
            if ok and check is not None and not check(r.roots):
                ok = False
            for root in r.roots:
                if root.width() > Fr(1, 2 ** 20) or _check_root_residual(n1, n2, root) > Fr(1, 2 ** 30) or root.sin2_lo <= 0:
                    ok = False
        print("%-58s %-9s roots=%-2d cells=%-6d depth=%-2d %7.1f ms  %s%s" % (
            name, r.status, len(r.roots), r.cells, r.depth, r.seconds * 1e3, "ok" if ok else "FAIL",
            "" if not r.reason else "  (" + r.reason + ")"))
        if not ok:
            bad += 1
            for root in r.roots:
                print("     ", root.as_dict())
    print("selftest: %d cases, %d failed" % (len(cases), bad))
    return bad


if __name__ == "__main__":
    if "--selftest" in sys.argv:
        sys.exit(1 if selftest() else 0)
    print(__doc__)
