#!/venv/bin/python
"""Regenerate MANIFEST.json from the registry (claimed = properties with a registry entry)."""
import json
import os
import subprocess
import sys
HERE = os.path.dirname(os.path.abspath(__file__))
VERIF = os.path.dirname(HERE)
sys.path.insert(0, HERE)
from registry import PROPS  # noqa

props = [json.loads(l) for l in open(os.path.join(VERIF, "properties.jsonl"))]
NOT_YET = "check not built yet in this round (planned, see DESIGN.md §9); not claimed until its machinery is committed"


def chk(pid):
    e = PROPS[pid]
    partial = e.get("partial", [])
    text = ("Lean 4 theorems about an executable model (all degrees, nets, parameters, histories the property quantifies over) + "
            "model tied to the current tree by kernel-checked extracted constants/tables and exact/tolerance correspondence in both configurations")
    tr = [x for x in e.get("extractors", []) if x.startswith("translate_")]
    if tr:
        src = [f for f in e.get("lean_files", []) if f.startswith("Tables/Src")]
        text += ("; source-level tie: the routines listed in DESIGN.md 10.5 are re-translated from the current source text on every run (%s) and the kernel "
                 "re-proves that each generated definition equals the model definition (%s)" % (", ".join(tr), ", ".join(src)))
    if partial:
        text += "; partial clauses: " + "; ".join(partial)
    return {"property_id": pid, "quick_cmd": "./check %s quick" % pid, "thorough_cmd": "./check %s thorough" % pid,
            "evidence_file": "evidence/%s.json" % pid, "replay_cmd_template": "./check %s --replay {path}" % pid,
            "engine": "lean4-proof+correspondence",
            "level_claimed": {"category": "proof", "design_ref": "DESIGN.md §6 %s" % pid, "text": text},
            "level_note": "trusted: Lean kernel + propext/Classical.choice/Quot.sound, Mathlib definitions, extractor, harness, IEEE-law and standard rounding model; "
                          + "; ".join(e.get("trusted_base", [])),
            "technique": "machine-checked proof (Lean 4) with checked model-code correspondence"}


commits = subprocess.run(["git", "-C", "/repo", "log", "--format=%h %s", "befe27d..HEAD"], stdout=subprocess.PIPE, text=True).stdout.strip().split("\n")
m = {"version": 1, "setup_cmd": "./setup.sh",
     "hooks": {"guard": "BEZIER_VERIF",
               "enable": "none needed - no source hooks; every check builds /repo's working tree itself (harness/build_repo.py); Python internals are observed by run-time monkey-patching",
               "baseline_off_cmd": "cd /repo && /venv/bin/python -m pytest -ra -q -p no:cacheprovider --timeout=900 --continue-on-collection-errors",
               "source_commits": [c for c in commits if c], "add_only": True},
     "engines": [{"name": "lean4-proof+correspondence", "path": "lean/ + harness/", "serves_properties": sorted(PROPS),
                  "kind_free_text": "Lean 4 model + theorems (lake), extractor -> kernel-checked table obligations, Python correspondence harness driving the compiled model over a line protocol"}],
     "checks": [chk(p) for p in sorted(PROPS)],
     "notes": "see DESIGN.md; known_findings.txt lists genuine defects of the unchanged tree (finding:) and repaired ones (fixed:)",
     "not_applicable": [{"property_id": p["id"], "reason": NOT_YET} for p in props if p["id"] not in PROPS]}
json.dump(m, open(os.path.join(VERIF, "MANIFEST.json"), "w"), indent=1)
print("claimed:", sorted(PROPS))
