"""Helpers to drive the Lean model of the intersection pipeline (Driver/Ops/Geometric.lean)."""
from fractions import Fraction as Fr
import common as C

ERR_OF_EXC = {"NotImplementedError": "notImplemented", "ValueError": "valueError", "RecursionError": "recursion",
              "UnsupportedDegree": "unsupportedDegree"}


def consts(cfg):
    """the extracted constants of the implementation under test, in the order Driver/Ops/Geometric.lean expects"""
    py = cfg == "pure"
    g = C.generated
    if py:
        return [g("py_geometric_intersection_MAX_INTERSECT_SUBDIVISIONS", 20), g("py_geometric_intersection_MAX_CANDIDATES", 64),
                g("py_geometric_intersection_ERROR_VAL", Fr(1, 2 ** 26)), g("py_intersection_helpers_ZERO_THRESHOLD", Fr(1, 2 ** 10)),
                g("py_intersection_helpers_NEWTON_ERROR_RATIO", Fr(1, 2 ** 36)), g("py_geometric_intersection_MIN_INTERVAL_WIDTH", Fr(1, 2 ** 40)),
                g("py_helpers_wiggle_default", Fr(1, 2 ** 44)), g("py_helpers_EPS", Fr(1, 2 ** 40)), g("py_curve_vs_threshold", 55),
                g("py_intersection_helpers_MAX_NEWTON_ITERATIONS", 10), int(g("py_curve_helpers_MAX_LOCATE_SUBDIVISIONS", 20)) + 1,
                g("py_curve_helpers_LOCATE_STD_CAP", Fr(1, 2 ** 20)), 1]
    return [g("f90_curve_intersection_MAX_INTERSECT_SUBDIVISIONS", 20), g("f90_curve_intersection_MAX_CANDIDATES", 64),
            g("f90_curve_intersection_LINEARIZATION_THRESHOLD", Fr(1, 2 ** 26)), g("f90_curve_intersection_ZERO_THRESHOLD", Fr(1, 2 ** 10)),
            g("f90_curve_intersection_NEWTON_ERROR_RATIO", Fr(1, 2 ** 36)), g("f90_curve_intersection_MIN_INTERVAL_WIDTH", Fr(1, 2 ** 40)),
            g("f90_helpers_WIGGLE", Fr(1, 2 ** 44)), g("f90_helpers_VECTOR_CLOSE_EPS", Fr(1, 2 ** 40)), g("f90_curve_vs_threshold", 55),
            10, int(g("f90_curve_MAX_LOCATE_SUBDIVISIONS", 20)) + 1, g("f90_curve_LOCATE_STD_CAP", Fr(1, 2 ** 20)), 0]


def ask_all_intersections(drv, cfg, n1, n2, bits=64):
    return drv.ask("all_intersections", 1 if cfg == "pure" else 0, bits, [Fr(x) for x in consts(cfg)], n1, n2)


def ask_self_intersections(drv, cfg, nodes, fuel=40, bits=64):
    return drv.ask("self_intersections", 1 if cfg == "pure" else 0, bits, [Fr(x) for x in consts(cfg)], fuel, nodes)


def same_result(impl, model, tol=Fr(1, 10 ** 9)):
    """impl = ("ok", [(s,t)...], flag) | ("exc", ExceptionName); model = driver reply; columns compared as ordered lists"""
    st, val = model
    if impl[0] == "exc":
        return st == "err" and ERR_OF_EXC.get(impl[1]) == val, "impl raised %s, model %s %s" % (impl[1], st, val if st == "err" else "returned")
    if st != "ok":
        return False, "impl returned, model err %s" % val
    pts, flag = val
    flag = bool(flag)
    if flag != bool(impl[2]):
        return False, "coincident flag: impl %s model %s" % (impl[2], flag)
    if len(pts) != len(impl[1]):
        return False, "number of columns: impl %d model %d" % (len(impl[1]), len(pts))
    a = [(Fr(x), Fr(y)) for x, y in impl[1]]
    b = [(Fr(p[0]), Fr(p[1])) for p in pts]
    if flag:
        # a coincident result is an ordered pair of end points
        for (x, y), (u, v) in zip(a, b):
            if abs(x - u) > tol or abs(y - v) > tol:
                return False, "column (%s, %s) vs model (%s, %s)" % (float(x), float(y), float(u), float(v))
        return True, ""
    # otherwise compare as sets: every column has its own partner within the tolerance
    free = list(b)
    for (x, y) in a:
        j = next((k for k, (u, v) in enumerate(free) if abs(x - u) <= tol and abs(y - v) <= tol), None)
        if j is None:
            return False, "column (%s, %s) has no partner among the model's columns %s" % (float(x), float(y), [(float(u), float(v)) for u, v in b][:6])
        free.pop(j)
    return True, ""


# ------------------------------------------------------------------------------------------------ round-level trace
def ask_trace(drv, cfg, n1, n2, bits=64):
    return drv.ask("all_intersections_trace", 1 if cfg == "pure" else 0, bits, [Fr(x) for x in consts(cfg)], n1, n2)


def python_trace(arr1, arr2):
    """run the pure-Python all_intersections with intersect_one_round wrapped: list of rounds
    ([(kind1, start1, end1, kind2, start2, end2), ...], [(s, t), ...] accumulated after the round | None if it raised),
    and the outcome ("ok", columns, flag) | ("exc", name)"""
    from bezier.hazmat import geometric_intersection as GI
    log = []
    orig = GI.intersect_one_round

    def info(c):
        if isinstance(c, GI.Linearization):
            return (1, Fr(float(c.curve.start)), Fr(float(c.curve.end)))
        return (0, Fr(float(c.start)), Fr(float(c.end)))

    def wrapped(candidates, intersections):
        entry = [[info(a) + info(b) for a, b in candidates], None]
        log.append(entry)
        out = orig(candidates, intersections)
        entry[1] = [(Fr(float(s)), Fr(float(t))) for s, t in intersections]
        return out

    GI.intersect_one_round = wrapped
    try:
        try:
            out, flag = GI.all_intersections(arr1, arr2)
            res = ("ok", [(float(out[0, k]), float(out[1, k])) for k in range(out.shape[1])], bool(flag))
        except Exception as e:     # noqa: BLE001
            res = ("exc", type(e).__name__)
    finally:
        GI.intersect_one_round = orig
    return log, res


def compare_trace(pylog, reply, tol=Fr(1, 2 ** 30)):
    """None if the model's rounds equal the recorded ones (candidate lists as ordered lists of
    (kind, start, stop) pairs - the interval end points are dyadic and exact; accumulated parameters within tol),
    else (round index, description)"""
    st, val = reply
    if st != "ok":
        return (-1, "model reply %s %s" % (st, val))
    mlog = val[1]
    if len(mlog) != len(pylog):
        return (min(len(mlog), len(pylog)), "number of rounds: impl %d model %d" % (len(pylog), len(mlog)))
    for k, ((pc, pacc), mr) in enumerate(zip(pylog, mlog)):
        mc = [tuple(Fr(x) for x in row) for row in mr[0]]
        pcn = [tuple(Fr(x) for x in row) for row in pc]
        if mc != pcn:
            if sorted(mc) == sorted(pcn):
                return (k, "round %d: same %d candidate pairs in a different order" % (k, len(mc)))
            only_i = [c for c in pcn if c not in mc][:2]
            only_m = [c for c in mc if c not in pcn][:2]
            return (k, "round %d: candidates differ (impl %d, model %d); only impl %s; only model %s" %
                    (k, len(pcn), len(mc), [[float(x) for x in c] for c in only_i], [[float(x) for x in c] for c in only_m]))
        macc = mr[1]
        m_raised = (len(macc) == 1 and len(macc[0]) == 0)
        if (pacc is None) != m_raised:
            return (k, "round %d: raised in %s only" % (k, "impl" if pacc is None else "model"))
        if pacc is not None:
            ma = [(Fr(p[0]), Fr(p[1])) for p in macc]
            if len(ma) != len(pacc) or any(abs(a[0] - b[0]) > tol or abs(a[1] - b[1]) > tol for a, b in zip(pacc, ma)):
                return (k, "round %d: accumulated intersections impl %s model %s" %
                        (k, [(float(a), float(b)) for a, b in pacc], [(float(a), float(b)) for a, b in ma]))
    return None
