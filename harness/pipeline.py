"""Helpers to drive the Lean model of the intersection pipeline (Driver/Ops/Geometric.lean)."""
from fractions import Fraction as Fr
import common as C

ERR_OF_EXC = {"NotImplementedError": "notImplemented", "ValueError": "valueError", "RecursionError": "recursion",
              "UnsupportedDegree": "unsupportedDegree"}


def consts(cfg):
    """the extracted constants of the implementation under test, in the order Driver/Ops/Geometric.lean expects"""
    py = cfg == "pure"
    g = C.generated
    if py:
        return [g("py_geometric_intersection_MAX_INTERSECT_SUBDIVISIONS", 20), g("py_geometric_intersection_MAX_CANDIDATES", 64),
                g("py_geometric_intersection_ERROR_VAL", Fr(1, 2 ** 26)), g("py_intersection_helpers_ZERO_THRESHOLD", Fr(1, 2 ** 10)),
                g("py_intersection_helpers_NEWTON_ERROR_RATIO", Fr(1, 2 ** 36)), g("py_geometric_intersection_MIN_INTERVAL_WIDTH", Fr(1, 2 ** 40)),
                g("py_helpers_wiggle_default", Fr(1, 2 ** 44)), g("py_helpers_EPS", Fr(1, 2 ** 40)), g("py_curve_vs_threshold", 55),
                g("py_intersection_helpers_MAX_NEWTON_ITERATIONS", 10), int(g("py_curve_helpers_MAX_LOCATE_SUBDIVISIONS", 20)) + 1,
                g("py_curve_helpers_LOCATE_STD_CAP", Fr(1, 2 ** 20)), 1]
    return [g("f90_curve_intersection_MAX_INTERSECT_SUBDIVISIONS", 20), g("f90_curve_intersection_MAX_CANDIDATES", 64),
            g("f90_curve_intersection_LINEARIZATION_THRESHOLD", Fr(1, 2 ** 26)), g("f90_curve_intersection_ZERO_THRESHOLD", Fr(1, 2 ** 10)),
            g("f90_curve_intersection_NEWTON_ERROR_RATIO", Fr(1, 2 ** 36)), g("f90_curve_intersection_MIN_INTERVAL_WIDTH", Fr(1, 2 ** 40)),
            g("f90_helpers_WIGGLE", Fr(1, 2 ** 44)), g("f90_helpers_VECTOR_CLOSE_EPS", Fr(1, 2 ** 40)), g("f90_curve_vs_threshold", 55),
            10, int(g("f90_curve_MAX_LOCATE_SUBDIVISIONS", 20)) + 1, g("f90_curve_LOCATE_STD_CAP", Fr(1, 2 ** 20)), 0]


def ask_all_intersections(drv, cfg, n1, n2, bits=64):
    return drv.ask("all_intersections", 1 if cfg == "pure" else 0, bits, [Fr(x) for x in consts(cfg)], n1, n2)


def ask_self_intersections(drv, cfg, nodes, fuel=40, bits=64):
    return drv.ask("self_intersections", 1 if cfg == "pure" else 0, bits, [Fr(x) for x in consts(cfg)], fuel, nodes)


def same_result(impl, model, tol=Fr(1, 10 ** 9)):
    """impl = ("ok", [(s,t)...], flag) | ("exc", ExceptionName); model = driver reply; columns compared as ordered lists"""
    st, val = model
    if impl[0] == "exc":
        return st == "err" and ERR_OF_EXC.get(impl[1]) == val, "impl raised %s, model %s %s" % (impl[1], st, val if st == "err" else "returned")
    if st != "ok":
        return False, "impl returned, model err %s" % val
    pts, flag = val
    flag = bool(flag)
    if flag != bool(impl[2]):
        return False, "coincident flag: impl %s model %s" % (impl[2], flag)
    if len(pts) != len(impl[1]):
        return False, "number of columns: impl %d model %d" % (len(impl[1]), len(pts))
    a = [(Fr(x), Fr(y)) for x, y in impl[1]]
    b = [(Fr(p[0]), Fr(p[1])) for p in pts]
    if flag:
        # a coincident result is an ordered pair of end points
        for (x, y), (u, v) in zip(a, b):
            if abs(x - u) > tol or abs(y - v) > tol:
                return False, "column (%s, %s) vs model (%s, %s)" % (float(x), float(y), float(u), float(v))
        return True, ""
    # otherwise compare as sets: every column has its own partner within the tolerance
    free = list(b)
    for (x, y) in a:
        j = next((k for k, (u, v) in enumerate(free) if abs(x - u) <= tol and abs(y - v) <= tol), None)
        if j is None:
            return False, "column (%s, %s) has no partner among the model's columns %s" % (float(x), float(y), [(float(u), float(v)) for u, v in b][:6])
        free.pop(j)
    return True, ""
