"""C01 — curve evaluation equals the Bernstein definition: correspondence + oracle.

impl  : evaluate_multi / evaluate_multi_barycentric (shim: pure or compiled, by package tree),
        evaluate_multi_vs / evaluate_multi_de_casteljau (pure), Curve.evaluate(_multi)
model : Lean driver `evalmulti` / `evalbary` (K := Rat) with the extracted switch
spec  : exact rational Bernstein sum (harness/exact.py)
"""
import sys
import numpy as np
from fractions import Fraction as Fr
import common as C
import exact as X
import gen as G


def tol(n, scale):
    return 2 * (3 * n + 3) * C.U * scale


def main():
    bezier = C.import_bezier()
    from bezier import _curve_helpers as CH
    from bezier.hazmat import curve_helpers as H
    rnd, seed = C.rng()
    tier = C.tier()
    search = bool(__import__("os").environ.get("VERIF_SEARCH"))
    res = C.Result("C01")
    cfg = C.config_name()
    thr = C.generated("py_curve_vs_threshold" if cfg == "pure" else "f90_curve_vs_threshold", 55)

    rep = C.replay_case()
    cases = []   # (kind, routine, nodes(Fr rows), params(list Fr or (l1,l2) lists), regime)

    def add(routine, nodes, ss, regime):
        cases.append((routine, nodes, ss, regime))

    if rep:
        add(rep["routine"], [[Fr(x) for x in r] for r in rep["nodes"]], [Fr(x) for x in rep["params"]], rep["regime"])
    else:
        thorough = tier == "thorough"
        # (a) E regime: integer nets, dyadic parameters, all arithmetic exact in binary64
        for n in range(1, 9):
            for dim in (1, 2, 3, 4):
                for _ in range(3 if not thorough else 10):
                    nodes = G.int_net(rnd, dim, n + 1, 256)
                    mb = 28 // n
                    ss = [G.dyadic_param(rnd, min(mb, 6), -1, 2) for _ in range(rnd.choice([1, 2, 7]))]
                    add(rnd.choice(["evaluate_multi", "evaluate_multi_barycentric", "Curve.evaluate_multi"]), nodes, ss, "E")
        # (b) operator extraction: the identity net = all unit nets at once (dimension n+1)
        degs = list(range(1, 13)) + list(range(50, 61)) + [70, 80]
        if thorough:
            degs = list(range(1, 81))
        fixed = [Fr(0), Fr(1), Fr(1, 2), Fr(1, 4), Fr(3, 4), Fr(-1), Fr(2)] + [Fr(k, 16) for k in (1, 3, 5, 11, 15)]
        for n in degs:
            ident = G.unit_nets(n + 1)
            ss = fixed + [Fr(rnd.randint(-4096, 8192), 4096) for _ in range(3)] + [Fr(rnd.randint(0, 4096), 4096) for _ in range(2)] + [G.float_param(rnd)]
            if n + 1 > thr and not thorough:
                # de Casteljau branch: the exact model costs O(n^2) big-rational operations per value
                ss = [Fr(0), Fr(1), Fr(1, 2), Fr(rnd.choice([3, 5, 11]), 16), Fr(rnd.randint(0, 4096), 4096), Fr(-1)]
            add("evaluate_multi", ident, ss, "T")
            add("evaluate_multi_barycentric", ident, ss[:8], "T")
            if cfg == "pure":
                add("evaluate_multi_vs", ident, ss[:8], "T")
                add("evaluate_multi_de_casteljau", ident, ss[:8], "T")
        # (c) random binary64 nets, dims 1..4, vectors of 1, 2, 7, 64 parameters
        for n in (degs if thorough else rnd.sample(degs, 14)):
            for dim in (1, 2, 3, 4):
                nodes = G.float_net(rnd, dim, n + 1, rnd.choice([-20, 0, 0, 20]))
                k = rnd.choice([1, 2, 7, 64])
                ss = [G.float_param(rnd) if (n <= 12 or i < 2) else Fr(rnd.randint(-4096, 8192), 4096) for i in range(k)]
                ss[0] = rnd.choice([Fr(0), Fr(1), ss[0]])
                add(rnd.choice(["evaluate_multi", "Curve.evaluate_multi", "Curve.evaluate"]), nodes, ss, "T")

        # (d) every public entry point at every low degree (where special-cased fast paths would live), binary64
        #     nets of mixed magnitude, parameter vectors that always contain 0, 1 and neighbours of 1
        import math
        routes = ["evaluate_multi", "evaluate_multi_barycentric", "Curve.evaluate_multi", "Curve.evaluate"]
        for n in list(range(1, 9)) + ([54, 55, 56] if not thorough else list(range(9, 81))):
            for routine in routes:
                dim = rnd.choice([1, 2, 3, 4])
                mags = [rnd.choice([-30, -3, 0, 0, 3, 53]) for _ in range(n + 1)]
                nodes = [[Fr(rnd.uniform(-1, 1) * 2.0 ** mags[j]) for j in range(n + 1)] for _ in range(dim)]
                ss = [Fr(0), Fr(1), Fr(math.nextafter(1.0, 0.0)), Fr(math.nextafter(0.0, 1.0)), Fr(2.0 ** -30), G.float_param(rnd, 0.0, 1.0), G.float_param(rnd)]
                if n > 12:
                    ss = ss[:3] + [Fr(rnd.randint(0, 4096), 4096)]
                add(routine, nodes, ss, "T")

        # (e) long parameter vectors (the implementations work on whole vectors; block / tail handling)
        for n in (2, 7, 54, 55, 56, 61):
            for count in (257, 300, 1000) if (thorough or n in (7, 55, 56)) else (300,):
                nodes = G.float_net(rnd, rnd.choice([1, 2]), n + 1, 0)
                ss = [Fr(rnd.randint(0, 4096), 4096) for _ in range(count - 2)] + [Fr(0), Fr(1)]
                add(rnd.choice(["evaluate_multi", "Curve.evaluate_multi"]), nodes, ss, "T")

        # (f) every degree around and above the switch between the two evaluation algorithms (wherever the tree puts it): one
        #     unit net in the middle of the net (the largest binomial coefficient) and the all-ones net, a few parameters
        hi_degs = sorted(set(range(48, 101)) | set(range(max(1, thr - 8), thr + 24)))
        if not (thorough or search):
            hi_degs = sorted(set(rnd.sample(hi_degs, 24)) | {thr - 2, thr - 1, thr, thr + 1, 61, 62, 63, 66, 67})
        for n in hi_degs:
            mid = n // 2 + rnd.choice([-3, -1, 0, 2])
            net = [[Fr(1) if j == mid else Fr(0) for j in range(n + 1)], [Fr(1)] * (n + 1)]
            add(rnd.choice(["evaluate_multi", "evaluate_multi_barycentric", "Curve.evaluate_multi"]), net,
                [Fr(1, 2), Fr(rnd.choice([5, 7, 9, 11]), 16), Fr(0), Fr(1)], "T")

    drv = C.Driver()
    for routine, nodes, ss, regime in cases:
        drv.ask("evalmulti", thr, nodes, ss)
    replies = drv.run()

    for ci, ((routine, nodes, ss, regime), (st, model)) in enumerate(zip(cases, replies)):
        n = len(nodes[0]) - 1
        dim = len(nodes)
        arr = C.farr(nodes)
        svals = np.array([float(s) for s in ss])
        l1 = 1.0 - svals
        # memory layout of the PARAMETER vector: every fourth case hands over a strided view, every fourth a view with a
        # negative stride (the values are the same; a documented refusal of the layout is accepted, other points are not)
        lay = (rep or {}).get("layout") if rep else ("F", "F", "strided", "reversed")[ci % 4]
        lay = lay or "F"
        if lay == "strided" and len(ss) >= 2:
            big = np.repeat(svals, 2)
            big[1::2] = 0.123456789
            svals = big[::2]
            bigl = np.repeat(l1, 2)
            bigl[1::2] = 0.987654321
            l1 = bigl[::2]
        elif lay == "reversed" and len(ss) >= 2:
            svals = np.ascontiguousarray(svals[::-1])[::-1]
            l1 = np.ascontiguousarray(l1[::-1])[::-1]
        try:
            out = None
            if routine == "evaluate_multi":
                out = CH.evaluate_multi(arr, svals)
            elif routine == "evaluate_multi_barycentric":
                out = CH.evaluate_multi_barycentric(arr, l1, svals)
            elif routine == "Curve.evaluate_multi":
                out = bezier.Curve(arr, n, copy=True, verify=True).evaluate_multi(svals)
        except ValueError as exc:
            if lay != "F" and "contiguous" in str(exc):
                res.skip("parameter vector as a %s view refused (%s)" % (lay, cfg))
                continue
            raise
        if out is not None:
            pass
        elif routine == "evaluate_multi":
            out = CH.evaluate_multi(arr, svals)
        elif routine == "evaluate_multi_barycentric":
            out = CH.evaluate_multi_barycentric(arr, l1, svals)
        elif routine == "evaluate_multi_vs":
            out = H.evaluate_multi_vs(arr, l1, svals)
        elif routine == "evaluate_multi_de_casteljau":
            out = H.evaluate_multi_de_casteljau(arr, l1, svals)
        elif routine == "Curve.evaluate_multi":
            out = bezier.Curve(arr, n, copy=True, verify=True).evaluate_multi(svals)
        elif routine == "Curve.evaluate":
            crv = bezier.Curve(arr, n)
            out = np.hstack([crv.evaluate(float(s)) for s in svals])
        else:
            raise SystemExit("unknown routine " + routine)
        out = np.asarray(out)
        key = (routine, C.jfr(nodes) if dim <= 4 else ("identity", n), C.jfr(ss))
        res.count(key, nontrivial=(n >= 1), routine=routine, regime=regime, dim=min(dim, 5),
                  degree_band=("1-8" if n <= 8 else "9-49" if n < 50 else "50-60" if n <= 60 else "61-80" if n <= 80 else "81-100"),
                  nparams=len(ss))
        res.sample({"routine": routine, "degree": n, "dim": dim, "regime": regime,
                    "params": C.jfr(ss[:3]), "impl_first": out[0, 0].hex()})
        if out.shape != (dim, len(ss)):
            res.failure("shape", "result shape %r != (%d,%d)" % (out.shape, dim, len(ss)),
                        {"routine": routine, "nodes": C.jfr(nodes), "params": C.jfr(ss), "regime": regime, "layout": lay})
            continue
        if not np.all(np.isfinite(out)):
            res.failure("eval-wrong", "%s degree %d: non-finite value in the result for finite nodes and parameters (%s parameter vector): %s" %
                        (routine, n, lay, out.tolist()[:2]),
                        {"routine": routine, "nodes": C.jfr(nodes), "params": C.jfr(ss), "regime": regime, "layout": lay})
            continue
        for r in range(dim):
            for c, s in enumerate(ss):
                got = Fr(float(out[r, c]))
                # the l1 the implementation used is fl(1 - s); spec in terms of the true parameter
                # when 1-s is exact (always in E; in T the error of fl(1-s) is within the tolerance factor)
                mval = model[r][c]
                spec = X.bern(nodes[r], s)
                if mval != spec:
                    res.mismatch("model-vs-spec", {"nodes": C.jfr(nodes[r]), "s": str(s)}, str(mval), str(spec))
                scale = X.bern_abs(nodes[r], s)
                rep_case = {"routine": routine, "nodes": C.jfr(nodes if dim <= 4 else [nodes[r]]),
                            "params": C.jfr(ss), "regime": regime, "layout": lay}
                if regime == "E":
                    if got != mval:
                        res.mismatch(routine, rep_case, str(got), str(mval), "E regime: must be bit-exact")
                        if abs(got - spec) > tol(n, scale):
                            res.failure("eval-wrong", "%s degree %d at s=%s: got %s, Bernstein sum %s" % (routine, n, s, got, spec), rep_case)
                else:
                    if abs(got - mval) > tol(n, scale):
                        res.mismatch(routine, rep_case, str(got), str(mval), "T regime tolerance 2(3n+3)u*scale")
                        res.failure("eval-wrong", "%s degree %d dim %d at s=%s: |got-spec|=%.3e > tol %.3e" %
                                    (routine, n, dim, float(s), float(abs(got - spec)), float(tol(n, scale))), rep_case)
                # end points exactly
                if s == 0 and got != nodes[r][0]:
                    res.failure("endpoint-inexact", "%s degree %d: s=0 returns %s, first control point %s" % (routine, n, got, nodes[r][0]), rep_case)
                if s == 1 and got != nodes[r][n]:
                    res.failure("endpoint-inexact", "%s degree %d: s=1 returns %s, last control point %s" % (routine, n, got, nodes[r][n]), rep_case)
                # bounding box for s in [0,1]
                if 0 <= s <= 1:
                    lo, hi = min(nodes[r]), max(nodes[r])
                    if got < lo - tol(n, scale) or got > hi + tol(n, scale):
                        res.failure("outside-box", "%s degree %d at s=%s: %s outside [%s,%s]" % (routine, n, s, got, lo, hi), rep_case)
    res.emit()
    if rep:
        bad = bool(res.failures)
        print("replay: " + ("property fails on this input: " + res.failures[0]["what"] if bad else "property holds on this input"))
        sys.exit(1 if bad else 0)


main()
