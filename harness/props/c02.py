"""C02 — every reported curve-curve intersection is a real one: property oracle on the real code.

impl  : bezier.Curve.intersect(other, strategy=GEOMETRIC|ALGEBRAIC); function level
        bezier._geometric_intersection.all_intersections (shim: pure hazmat or compiled _speedup.curve_intersections),
        bezier.hazmat.algebraic_intersection.all_intersections
spec  : exact rational evaluation of both curves at the returned binary64 parameters (harness/exact.py);
        exact isolation of the true solution set (harness/isolate.py) for the tight bound
model : none needed by the oracle (the Lean side of C02 are component theorems: solve2x2, Lipschitz, Newton gate)

Checked per returned column (s, t):
  * 0 <= s, t <= 1                                                   -> failure `param-out-of-range`
  * r = max(|x1(s)-x2(t)|, |y1(s)-y2(t)|) computed exactly;  r <= 2^-26 * size, size = max(1, max |coordinate|)
                                                                     -> failure `residual-too-large:<strategy>`
    with the suffix `:tangential-input` when the exact isolator does not certify the PAIR as "all solutions simple
    with |sin angle| >= 2^-7" (a classification of the input, not of the outcome)
    (the property says "of the order of 2^-30 * size"; the tangential / double-root Newton exit legitimately
    accepts closest-approach points with a gap of about 2^-27 * size, so 2^-26 is enforced and the measured
    distribution of log2(r/size) is reported)
  * geometric strategy, pair certified by the isolator with every solution simple and |sin angle| >= 2^-7:
    r <= 2 (L1+L2) 2^-36 * 3/2 + 64 (n1+n2+2) u size,   L_i = n_i max_j ||v_{j+1}-v_j||_inf   (3/2 >= ||(s,t)||_2:
    the Newton exit is ||delta|| < 2^-36 ||p||; after the exit the distance to the root is below the last
    update, the residual below (L1+L2) times that distance)          -> failure `residual-too-large:<strategy>`
Exceptions are not C02 failures (the property speaks about normal returns); they are counted by type.
"""
import os
import sys
import warnings
import numpy as np
from fractions import Fraction as Fr
import common as C
import exact as X
import curvezoo as Z
import isolate as ISO

COARSE = Fr(1, 2 ** 26)
NEWTON = Fr(1, 2 ** 36)
SIN2_MIN = Fr(1, 2 ** 14)


def lipschitz(net):
    n = len(net[0]) - 1
    return n * max(abs(r[j + 1] - r[j]) for r in net for j in range(n))


def log2_bucket(r, size):
    if r == 0:
        return "exact-0"
    q = r / size
    e = q.numerator.bit_length() - q.denominator.bit_length()   # floor(log2 q) or +1
    if Fr(2) ** e > q:
        e -= 1
    if e < -64:
        return "[-inf,-64)"
    if e >= -20:
        return "[-20,+inf)"
    lo = -64 + 4 * ((e + 64) // 4)
    return "[%d,%d)" % (lo, lo + 4)


def call(bezier, strategy, route, arr1, arr2):
    """returns ("ok", 2xN array) | ("skip", why) | ("exc", type name)"""
    from bezier.hazmat import intersection_helpers as IH
    try:
        if route == "Curve.intersect":
            c1 = bezier.Curve(arr1, arr1.shape[1] - 1, copy=True)
            c2 = bezier.Curve(arr2, arr2.shape[1] - 1, copy=True)
            st = IH.IntersectionStrategy.GEOMETRIC if strategy == "geometric" else IH.IntersectionStrategy.ALGEBRAIC
            out = c1.intersect(c2, strategy=st)
        elif strategy == "geometric":
            from bezier import _geometric_intersection as GI
            out, _ = GI.all_intersections(arr1, arr2)
        else:
            from bezier.hazmat import algebraic_intersection as AI
            out, _ = AI.all_intersections(arr1, arr2)
    except ImportError as e:   # SciPy is absent from /venv
        return "skip", "algebraic strategy needs " + (getattr(e, "name", None) or "an absent module")
    except Exception as e:     # noqa: BLE001  (any library exception: counted, not a C02 failure)
        return "exc", type(e).__name__
    return "ok", np.asarray(out)


def flat_pairs(rnd, count):
    """an exact line against a curve that is almost, but not exactly, straight (linearisation error far below the
    2^-26 threshold but non-zero), in both argument orders, at unit size and at tiny size: shortcuts that treat
    'nearly linear' as 'linear' show up as residuals above the Newton-exit bound"""
    out = []
    for i in range(count):
        deg = rnd.choice([2, 2, 3, 4])
        bulge = Fr(rnd.randint(1, 7), 8) * Fr(2) ** rnd.randint(-44, -28)
        scale = Fr(2) ** rnd.choice([0, 0, 0, -8, -26, -30])
        xs = [Fr(j, deg) for j in range(deg + 1)]
        ys = [Fr(0)] + [bulge * rnd.choice([1, 2, 3]) for _ in range(deg - 1)] + [Fr(0)]
        curve = [[x * scale for x in xs], [y * scale for y in ys]]
        x0 = Fr(rnd.randint(3, 13), 16)
        slope = Fr(rnd.randint(-3, 3), 4)
        line = [[(x0 - slope) * scale, (x0 + slope) * scale], [-scale, scale]]
        if not (Z.net_is_f64(curve) and Z.net_is_f64(line)):
            continue
        a, b = (line, curve) if i % 2 == 0 else (curve, line)
        out.append({"kind": "flat", "tag": "line x nearly straight degree-%d curve, bulge 2^%d, scale %s" %
                    (deg, bulge.denominator.bit_length() * -1 + bulge.numerator.bit_length(), scale), "n1": a, "n2": b, "planted": None})
    return out


def main():
    warnings.simplefilter("ignore")
    np.seterr(all="ignore")
    bezier = C.import_bezier()
    rnd, seed = C.rng()
    tier = C.tier()
    thorough = tier == "thorough"
    res = C.Result("C02")
    rep = C.replay_case()
    # the accepted relative size of the last Newton update, as extracted from the tree under test
    newton = C.generated("py_intersection_helpers_NEWTON_ERROR_RATIO" if C.config_name() == "pure"
                         else "f90_curve_intersection_NEWTON_ERROR_RATIO", NEWTON)
    if rep:
        work = [(Z.unjpair(rep["pair"]), rep["strategy"], rep["route"])]
    else:
        pairs = Z.all_pairs(rnd, tier) + Z.zoo_pairs(rnd, full=thorough) + flat_pairs(rnd, 60 if not thorough else 400)
        if os.environ.get("VERIF_SEARCH"):
            pairs = Z.all_pairs(rnd, tier)
        work = []
        for p in pairs:
            for strategy in ("geometric", "algebraic"):
                work.append((p, strategy, rnd.choice(["Curve.intersect", "all_intersections"])))

    iso_cache = {}
    for p, strategy, route in work:
        n1, n2 = p["n1"], p["n2"]
        d1, d2 = len(n1[0]) - 1, len(n2[0]) - 1
        arr1, arr2 = C.farr(n1), C.farr(n2)
        rc = {"pair": Z.jpair(p), "strategy": strategy, "route": route}
        st, out = call(bezier, strategy, route, arr1, arr2)
        key = (rc["pair"]["n1"], rc["pair"]["n2"], strategy, route)
        if st == "skip":
            res.skip(out)
            continue
        if st == "exc":
            res.count(key, nontrivial=False, kind=p["kind"], strategy=strategy,
                      outcome="%s:raised:%s" % (strategy, out))
            continue
        if out.ndim != 2 or out.shape[0] != 2:
            res.count(key, kind=p["kind"], strategy=strategy, outcome="%s:bad-shape" % strategy)
            res.failure("result-shape", "%s %s: result shape %r is not 2 x N" % (route, strategy, out.shape), rc)
            continue
        ncol = out.shape[1]
        res.count(key, nontrivial=ncol > 0, kind=p["kind"], strategy=strategy, route=route,
                  degrees="%d x %d" % (min(d1, d2), max(d1, d2)) if max(d1, d2) <= 4 else "max degree 5-8",
                  outcome="%s:returned-%s" % (strategy, ncol if ncol < 4 else "4+"))
        if ncol == 0:
            continue
        size = Z.size(n1, n2)
        tight = None
        ik = id(p)
        if ik not in iso_cache:
            iso_cache[ik] = ISO.isolate(n1, n2)
        iso = iso_cache[ik]
        transversal = iso.status == "certified" and all(r.sin2_lo >= SIN2_MIN for r in iso.roots)
        # key computed from the INPUT: pairs that are not certified all-simple-transversal (tangency, overlap)
        # get their own key (the Gauss-Newton exit of the geometric strategy is only ever taken there)
        fkey = "residual-too-large:" + strategy + ("" if transversal else
                                                    (":overlapping-arcs" if p["kind"] == "overlap" else ":tangential-input"))
        if strategy == "geometric" and transversal:
            tight = 2 * (lipschitz(n1) + lipschitz(n2)) * newton * Fr(3, 2) + 64 * (d1 + d2 + 2) * C.U * size
        fcols, nonfinite = C.finite_cols(out)
        if nonfinite:
            res.failure("param-not-finite", "%s %s (%s, %s): NaN / infinite parameter in %s" %
                        (route, strategy, p["kind"], p["tag"], out.tolist()), rc)
        for c, (s, t) in enumerate(fcols):
            if not (0 <= s <= 1 and 0 <= t <= 1):
                res.failure("param-out-of-range", "%s %s: column %d = (%s, %s) outside [0,1]^2" %
                            (route, strategy, c, float(s).hex(), float(t).hex()), rc)
                continue
            b1, b2 = X.eval_curve(n1, s), X.eval_curve(n2, t)
            r = max(abs(b1[0] - b2[0]), abs(b1[1] - b2[1]))
            bucket = log2_bucket(r, size)
            d = res.dist.setdefault("log2(residual/size):" + strategy, {})
            d[bucket] = d.get(bucket, 0) + 1
            res.sample({"strategy": strategy, "route": route, "kind": p["kind"], "degrees": [d1, d2],
                        "s": float(s).hex(), "t": float(t).hex(), "residual/size": float(r / size)})
            if r > COARSE * size:
                res.failure(fkey,
                            "%s %s (%s, %s): column %d = (%r, %r): |B1(s)-B2(t)| = %.3e > 2^-26 * size = %.3e" %
                            (route, strategy, p["kind"], p["tag"], c, float(s), float(t), float(r), float(COARSE * size)), rc)
            elif tight is not None:
                dt = res.dist.setdefault("tight-bound:geometric", {})
                okk = "within" if r <= tight else "exceeded"
                dt[okk] = dt.get(okk, 0) + 1
                if r > tight:
                    res.failure(fkey,
                                "%s %s (%s, %s): certified transversal pair, column %d = (%r, %r): |B1(s)-B2(t)| = %.3e "
                                "> Newton-exit bound 3 (L1+L2) 2^-36 + rounding = %.3e" %
                                (route, strategy, p["kind"], p["tag"], c, float(s), float(t), float(r), float(tight)), rc)
    res.emit()
    if rep:
        bad = bool(res.failures)
        print("replay: " + ("property fails on this input: " + res.failures[0]["what"] if bad
                            else "property holds on this input"))
        sys.exit(1 if bad else 0)


main()
