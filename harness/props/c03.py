"""C03 — no well-conditioned curve-curve intersection is missed or duplicated: property oracle on the real code.

impl  : geometric strategy: bezier.Curve.intersect(other) and bezier._geometric_intersection.all_intersections
        (shim: pure hazmat or compiled _speedup.curve_intersections); for the disjoint-box clause also
        bezier.hazmat.algebraic_intersection.all_intersections
spec  : harness/isolate.py — exact rational subdivision + Krawczyk certificates: the exact solution set of
        B1(s) = B2(t) in the closed unit square, every solution simple, with a lower bound of |sin angle|
model : none needed by the oracle (Lean side: box-disjointness, tangent-box end-point lemma, its counterexample)

Domain (decided by the exact isolator, i.e. by the INPUT): status certified, every root has sin^2 >= 2^-14,
pairwise max-norm separation of roots >= 2^-16, every parameter of every root is either exactly 0 / 1
(exact end-point root) or inside [2^-16, 1 - 2^-16].
On such a pair the geometric strategy must return normally a 2 x N array whose columns match the certified roots
one to one (a column matches a root when it lies in the root box inflated by 2^-30):
    exception                         -> failure `raised:<type>`
    a root without column             -> failure `missed-crossing`  (narrow key `tangent-bbox:curve-on-axis-parallel-line`
                                         when the INPUT has bounding boxes tangent along an axis-parallel line and one curve has
                                         all its control points on that line; otherwise `missed-crossing:endpoint-on-other-curve`
                                         when every missed certified root is an exact end point of exactly one curve in the
                                         interior of the other; plain `missed-crossing` for everything else)
    a column matching no root / a root matched twice -> failure `spurious-or-duplicate`
Independently of the isolator: strictly disjoint control-point boxes => shape (2, 0), both strategies
                                      -> failure `nonempty-for-disjoint-boxes:<strategy>`
"""
import os
import sys
import warnings
import numpy as np
from fractions import Fraction as Fr
import common as C
import curvezoo as Z
import isolate as ISO

SIN2_MIN = Fr(1, 2 ** 14)
SEP_MIN = Fr(1, 2 ** 16)
EDGE_MIN = Fr(1, 2 ** 16)
INFLATE = Fr(1, 2 ** 30)


def boxes_disjoint(n1, n2):
    return (max(n1[0]) < min(n2[0]) or max(n2[0]) < min(n1[0]) or
            max(n1[1]) < min(n2[1]) or max(n2[1]) < min(n1[1]))


def tangent_box_line_degenerate(n1, n2):
    """boxes tangent along an axis-parallel line AND one curve entirely on that line (input geometry only)"""
    if boxes_disjoint(n1, n2):
        return False
    for r in (0, 1):
        for a, b in ((n1, n2), (n2, n1)):
            c = max(a[r])
            if c == min(b[r]) and (all(v == c for v in a[r]) or all(v == c for v in b[r])):
                return True
    return False


def on_axis_line_at_dyadic_break(n1, n2, missed):
    """the same class one or more bisection levels down (a property of the INPUT and of its certified roots): one curve
    lies on an axis-parallel line and the other reaches that line exactly at a dyadic break point k/2^m (m <= 8) of the
    bisection, so that the boxes of the sub-curves meeting there are tangent along the line"""
    for a, b, which in ((n1, n2, "s"), (n2, n1, "t")):
        if any(all(v == row[0] for v in row) for row in b):
            def dyadic(lo, hi):
                return any((-((-lo * 2 ** m) // 1)) <= (hi * 2 ** m) // 1 for m in range(0, 9))
            if all(dyadic(r.s_lo, r.s_hi) if which == "s" else dyadic(r.t_lo, r.t_hi) for r in missed):
                return True
    return False


def collinear_net(n):
    """degree >= 2 and all control points on one line"""
    if len(n[0]) < 3:
        return False
    x0, y0 = n[0][0], n[1][0]
    d = next(((x - x0, y - y0) for x, y in zip(n[0], n[1]) if (x, y) != (x0, y0)), None)
    return d is not None and all((x - x0) * d[1] - (y - y0) * d[0] == 0 for x, y in zip(n[0], n[1]))


def well_conditioned(iso):
    """None if the pair is in the domain of the property, else the reason it is not"""
    if iso.status != "certified":
        return "isolator-undecided:" + iso.reason
    for r in iso.roots:
        if r.sin2_lo < SIN2_MIN:
            return "small-angle"
        for lo, hi, ex in ((r.s_lo, r.s_hi, r.s_exact), (r.t_lo, r.t_hi, r.t_exact)):
            if ex is None and not (lo >= EDGE_MIN and hi <= 1 - EDGE_MIN):
                return "root-near-boundary"
    sep = iso.min_separation()
    if sep is not None and sep < SEP_MIN:
        return "roots-too-close"
    return None


def call_geometric(bezier, route, arr1, arr2):
    try:
        if route == "Curve.intersect":
            c1 = bezier.Curve(arr1, arr1.shape[1] - 1, copy=True)
            c2 = bezier.Curve(arr2, arr2.shape[1] - 1, copy=True)
            out = c1.intersect(c2)
        else:
            from bezier import _geometric_intersection as GI
            out, _ = GI.all_intersections(arr1, arr2)
    except Exception as e:     # noqa: BLE001
        return "exc", type(e).__name__ + ": " + str(e)[:120]
    return "ok", np.asarray(out)


def call_algebraic(arr1, arr2):
    from bezier.hazmat import algebraic_intersection as AI
    try:
        out, _ = AI.all_intersections(arr1, arr2)
    except ImportError as e:
        return "skip", "algebraic strategy needs " + (getattr(e, "name", None) or "an absent module")
    except Exception as e:     # noqa: BLE001
        return "exc", type(e).__name__
    return "ok", np.asarray(out)


import pipeline as PL


def sweep_kept(res, kept, calls, last_sweep):
    """every kept result must still hold the values it had when it was returned; the replay is the call that produced the changed
    result followed by the calls made since it was last seen intact"""
    for j, (idx, obj, snap) in enumerate(kept):
        if obj is None:
            continue
        if obj.shape != snap.shape or not np.array_equal(obj, snap, equal_nan=True):
            seq = [calls[idx]] + calls[max(idx + 1, last_sweep[0]):]
            res.failure("kept-result-changed-by-later-calls", "the %d x %d result of call %d (%s), complete when it was returned, reads %s "
                        "instead of %s after %d later call(s): crossings are lost / replaced for a caller that keeps the array" %
                        (snap.shape[0], snap.shape[1], idx, calls[idx]["route"], np.asarray(obj).tolist()[:2], snap.tolist()[:2],
                         len(calls) - 1 - idx), {"kind": "kept", "seq": seq[:40]})
            kept[j] = (idx, None, snap)
    last_sweep[0] = len(calls)


def main():
    warnings.simplefilter("ignore")
    np.seterr(all="ignore")
    bezier = C.import_bezier()
    rnd, seed = C.rng()
    tier = C.tier()
    thorough = tier == "thorough"
    res = C.Result("C03")
    rep = C.replay_case()
    if rep and rep.get("kind") == "kept":
        # a result kept by the caller and changed by later calls: run the recorded call sequence, keep every result, read again
        work = [(Z.unjpair(c["pair"]), c["route"]) for c in rep["seq"]]
    elif rep:
        work = [(Z.unjpair(rep["pair"]), rep["route"])]
    else:
        pairs = Z.all_pairs(rnd, tier, max_deg=8 if thorough else 6)
        if not os.environ.get("VERIF_SEARCH"):
            pairs += Z.zoo_pairs(rnd, full=thorough)
        work = [(p, rnd.choice(["Curve.intersect", "all_intersections"])) for p in pairs]

    # the Lean model of the whole pipeline (exact rationals; Newton iterates rounded to 64 bits) on the pairs of
    # degree <= 4 (cost): asked for all of them up front, compared below where the pair is in the domain
    cfg = C.config_name()
    drv = C.Driver()
    model_idx = {}
    trace_idx = {}
    trace_stats = [0, []]           # traced in-domain cases, the ones whose round log differs from the model's
    trace_budget = 250 if not thorough else 1500
    budget = 500 if not thorough else 3000
    for i, (p, route) in enumerate(work):
        if max(len(p["n1"][0]), len(p["n2"][0])) <= 5 and len(model_idx) < budget and Z.net_is_f64(p["n1"]) and Z.net_is_f64(p["n2"]):
            model_idx[i] = PL.ask_all_intersections(drv, cfg, p["n1"], p["n2"])
            # step-level tie (pure configuration: intersect_one_round of the running implementation is wrapped): the
            # candidate list entering every round and the accumulator after it, against Model.allIntersectionsTrace
            # (C03.trace_result: its result component IS allIntersections)
            if cfg == "pure" and len(trace_idx) < trace_budget:
                trace_idx[i] = PL.ask_trace(drv, cfg, p["n1"], p["n2"])
    model_replies = drv.run() if drv.lines else []

    kept, calls, last_sweep = [], [], [0]
    for wi, (p, route) in enumerate(work):
        n1, n2 = p["n1"], p["n2"]
        d1, d2 = len(n1[0]) - 1, len(n2[0]) - 1
        nfail0 = len(res.failures) + sum(res.dist.get("failure_keys", {}).values())
        arr1, arr2 = C.farr(n1), C.farr(n2)
        rc = {"pair": Z.jpair(p), "route": route}
        key = (rc["pair"]["n1"], rc["pair"]["n2"], route)
        disjoint = boxes_disjoint(n1, n2)
        iso = ISO.isolate(n1, n2)
        why = well_conditioned(iso)
        if why is not None and not disjoint:
            res.count(key, nontrivial=False, kind=p["kind"], domain="outside:" + why)
            continue
        st, out = call_geometric(bezier, route, arr1, arr2)
        calls.append(rc)
        if st == "ok" and isinstance(out, np.ndarray) and out.size:
            # the caller keeps the result, as a program does: what was a complete, duplicate-free set of crossings when it was returned
            # must still be that set after later calls (a result that is a view of a library workspace is rewritten by them)
            kept.append((len(calls) - 1, out, out.copy()))
        if len(calls) % 16 == 0:
            sweep_kept(res, kept, calls, last_sweep)
        nroots = len(iso.roots) if why is None else 0
        res.count(key, nontrivial=True, kind=p["kind"], domain="inside", route=route,
                  certified_roots=nroots if nroots < 5 else "5+",
                  endpoint_roots=sum(1 for r in iso.roots if r.s_exact is not None or r.t_exact is not None) if why is None else 0,
                  degrees="%d x %d" % (min(d1, d2), max(d1, d2)) if max(d1, d2) <= 4 else "max degree 5-8",
                  outcome="raised" if st == "exc" else "returned")
        if wi in model_idx:
            impl = ("exc", out.split(":")[0]) if st == "exc" else \
                ("ok", [(float(out[0, c]), float(out[1, c])) for c in range(out.shape[1])] if out.ndim == 2 and out.shape[0] == 2 else [], False)
            mrep = model_replies[model_idx[wi]]
            if mrep[0] == "ok":
                mrep = ("ok", (mrep[1][0], 0))          # in-domain pairs never carry the coincident flag; compare the point sets
            same, whynot = PL.same_result(impl, mrep, tol=Fr(1, 2 ** 26))
            res.count(("model", key), nontrivial=False, model_tie="agree" if same else "differ")
            pending_mismatch = None if same else (str(impl)[:300], str(model_replies[model_idx[wi]])[:300], whynot)
            interior = why is None and all(r.s_exact is None and r.t_exact is None for r in iso.roots)
            if wi in trace_idx and route == "all_intersections" and interior:
                # only pairs whose certified roots are all interior: with a root exactly on the boundary of the parameter
                # square binary64 and exact arithmetic may legitimately let different candidate pairs catch it
                pylog, pyres = PL.python_trace(arr1, arr2)
                diff = PL.compare_trace(pylog, model_replies[trace_idx[wi]])
                res.count(("trace", key), nontrivial=False, trace_tie="agree" if diff is None else "differ",
                          trace_rounds=len(pylog) if len(pylog) < 12 else "12+")
                trace_stats[0] += 1
                if diff is not None:
                    trace_stats[1].append((rc, "rounds=%d outcome=%s" % (len(pylog), str(pyres)[:120]), "trace: " + diff[1]))
        else:
            pending_mismatch = None
        if st == "exc":
            if pending_mismatch:
                res.mismatch("all_intersections", rc, *pending_mismatch)
            res.failure("raised:" + out.split(":")[0], "%s (%s, %s): geometric strategy raised %s on a pair with %d "
                        "certified simple crossings" % (route, p["kind"], p["tag"], out, nroots), rc)
            continue
        if out.ndim != 2 or out.shape[0] != 2:
            res.failure("result-shape", "%s: result shape %r is not 2 x N" % (route, out.shape), rc)
            continue
        ncol = out.shape[1]
        if disjoint:
            if ncol != 0:
                res.failure("nonempty-for-disjoint-boxes:geometric", "%s (%s, %s): control-point boxes are disjoint but %d "
                            "columns were returned" % (route, p["kind"], p["tag"], ncol), rc)
            sa, oa = call_algebraic(arr1, arr2)
            if sa == "skip":
                res.skip(oa)
            elif sa == "ok" and oa.shape != (2, 0):
                res.failure("nonempty-for-disjoint-boxes:algebraic", "algebraic all_intersections (%s, %s): control-point boxes "
                            "are disjoint but the result has shape %r" % (p["kind"], p["tag"], oa.shape), rc)
            elif sa == "exc":
                res.failure("raised:" + oa, "algebraic all_intersections raised %s although the control-point boxes are "
                            "disjoint" % oa, rc)
            if why is not None:
                continue
        cols, nonfinite = C.finite_cols(out)
        if nonfinite:
            res.failure("param-not-finite", "%s (%s, %s): NaN / infinite parameter in %s" % (route, p["kind"], p["tag"], out.tolist()), rc)
        hits = [0] * len(iso.roots)
        unmatched = []
        for (s, t) in cols:
            m = [i for i, r in enumerate(iso.roots)
                 if r.s_lo - INFLATE <= s <= r.s_hi + INFLATE and r.t_lo - INFLATE <= t <= r.t_hi + INFLATE]
            if not m:
                unmatched.append((s, t))
            for i in m:
                hits[i] += 1
        res.sample({"kind": p["kind"], "tag": p["tag"], "route": route, "certified_roots": len(iso.roots),
                    "returned_columns": ncol, "roots": [r.as_dict() for r in iso.roots[:3]]})
        missed = [iso.roots[i] for i, h in enumerate(hits) if h == 0]
        dup = [iso.roots[i] for i, h in enumerate(hits) if h > 1]
        shown = "returned " + str([(float(s), float(t)) for s, t in cols])
        if missed:
            if tangent_box_line_degenerate(n1, n2):
                k = "tangent-bbox:curve-on-axis-parallel-line"
            elif on_axis_line_at_dyadic_break(n1, n2, missed):
                k = "tangent-bbox:curve-on-axis-parallel-line:dyadic-break-point"
            elif all(r.s_exact is not None and r.t_exact is not None for r in missed) and (collinear_net(n1) or collinear_net(n2)):
                # class of the certified root (a property of the input): a common END point of the two curves, one of which
                # is a straight curve presented with collinear, unevenly spaced control points (degree >= 2)
                k = "missed-crossing:shared-end-point:collinear-net"
            elif all((r.s_exact is None) != (r.t_exact is None) for r in missed):
                # class of the certified root (a property of the input): an end point of one curve lying in the
                # interior of the other curve
                k = "missed-crossing:endpoint-on-other-curve"
            else:
                k = "missed-crossing"
            r = missed[0]
            res.failure(k, "%s (%s, %s): %d of %d certified simple crossings not reported, e.g. (s, t) in [%s, %s] x [%s, %s] "
                        "(sin^2 >= %.3g); %s" % (route, p["kind"], p["tag"], len(missed), len(iso.roots),
                                                 float(r.s_lo), float(r.s_hi), float(r.t_lo), float(r.t_hi),
                                                 float(r.sin2_lo), shown), rc)
        if unmatched or dup:
            what = []
            if unmatched:
                what.append("%d column(s) match no certified crossing, e.g. (%r, %r)" %
                            (len(unmatched), float(unmatched[0][0]), float(unmatched[0][1])))
            if dup:
                what.append("%d crossing(s) reported more than once, e.g. near (%r, %r)" %
                            (len(dup), float(dup[0].mid()[0]), float(dup[0].mid()[1])))
            res.failure("spurious-or-duplicate", "%s (%s, %s): %s; %d certified crossings; %s" %
                        (route, p["kind"], p["tag"], "; ".join(what), len(iso.roots), shown), rc)
        if pending_mismatch and len(res.failures) + sum(res.dist.get("failure_keys", {}).values()) == nfail0:
            res.mismatch("all_intersections", rc, *pending_mismatch)
    sweep_kept(res, kept, calls, last_sweep)
    res.notes.append("results kept across later calls and read again: %d" % len(kept))
    # the round-level tie: isolated differences are threshold decisions taken on the other side by binary64 (a box edge or a
    # linearisation error within an ulp of its bound) and are only counted; a systematic difference is a broken correspondence
    if len(trace_stats[1]) >= 3 and len(trace_stats[1]) > 0.02 * trace_stats[0]:
        for rc_, impl_, note_ in trace_stats[1][:5]:
            res.mismatch("all_intersections_trace", rc_, impl_, "see note", note_)
    res.notes.append("round-level trace tie: %d in-domain pairs with interior roots traced, %d differ" % (trace_stats[0], len(trace_stats[1])))
    res.emit()
    if rep:
        bad = bool(res.failures)
        print("replay: " + ("property fails on this input: " + res.failures[0]["what"] if bad
                            else "property holds on this input"))
        sys.exit(1 if bad else 0)


main()
