"""C04 — subdividing / specialising a curve preserves its shape: correspondence + oracle.

impl  : subdivide_nodes, specialize_curve (shim: pure or compiled), Curve.subdivide, Curve.specialize
model : driver `subdivide_py|f90`, `specialize_py|f90`, `submat`
spec  : exact blossom control points of sigma -> B(a + (b-a) sigma)
"""
import sys
import os
import numpy as np
from fractions import Fraction as Fr
import common as C
import exact as X
import gen as G


def abs_blossom(row, ts):
    cur = [abs(x) for x in row]
    for t in ts:
        cur = [abs(1 - t) * cur[i] + abs(t) * cur[i + 1] for i in range(len(cur) - 1)]
    return cur[0]


def spec_scale(row, a, b):
    """condition scale of the blossom values: the blossom of |v| with weights |1-t|, |t|; above degree 16 the (larger, hence
    still sound) bound max|v| (|1-a|+|a|)^(n-i) (|1-b|+|b|)^i, which costs nothing"""
    n = len(row) - 1
    if n > 16:
        m = max(abs(x) for x in row)
        ga, gb = abs(1 - a) + abs(a), abs(1 - b) + abs(b)
        return [m * ga ** (n - i) * gb ** i for i in range(n + 1)]
    return [abs_blossom(row, [a] * (n - i) + [b] * i) for i in range(n + 1)]


def e_budget_ok(n, a, b, bound_bits):
    """every intermediate of every evaluation order exactly representable?  bits of the common
    denominator n*m plus magnitude growth (|1-t|+|t|)^n <= 3^n"""
    m = max(Fr(a).denominator.bit_length() - 1, Fr(b).denominator.bit_length() - 1)
    grow = max(abs(1 - a) + abs(a), abs(1 - b) + abs(b), 1)
    import math
    return n * m + n * math.log2(float(grow)) + bound_bits + 2 <= 52


def main():
    bezier = C.import_bezier()
    from bezier import _curve_helpers as CH
    rnd, seed = C.rng()
    tier = C.tier()
    thorough = tier == "thorough"
    cfg = C.config_name()
    variant = "py" if cfg == "pure" else "f90"
    res = C.Result("C04")
    rep = C.replay_case()
    cases = []

    def add(kind, routine, nodes, a=None, b=None):
        cases.append((kind, routine, nodes, a, b))

    PARAMS = [Fr(0), Fr(1, 2), Fr(1), Fr(1, 4), Fr(3, 4), Fr(-1), Fr(2)]
    if rep:
        add(rep["kind"], rep["routine"], [[Fr(x) for x in r] for r in rep["nodes"]],
            None if rep.get("a") is None else Fr(rep["a"]), None if rep.get("b") is None else Fr(rep["b"]))
    else:
        degs = list(range(1, 33))
        # operator extraction: identity net = all unit nets (dimension n+1)
        for n in degs:
            add("subdivide", "subdivide_nodes", G.unit_nets(n + 1))
            pairs = [(Fr(0), Fr(1, 2)), (Fr(1, 2), Fr(1)), (Fr(1), Fr(0)), (Fr(1, 4), Fr(1, 4)), (Fr(-1), Fr(2)), (Fr(3, 4), Fr(1, 4))]
            pairs += [(rnd.choice(PARAMS), rnd.choice(PARAMS)) for _ in range(2 if not thorough else 8)]
            ident = G.unit_nets(n + 1)
            if n > 10 and not thorough:
                # the exact model costs O(n^3) rational operations per row: sample unit nets
                ident = rnd.sample(ident, 4)
                pairs = pairs[:3] + pairs[-1:]
            for a, b in pairs:
                add("specialize", "specialize_curve", ident, a, b)
        # integer / float nets in dims 1..4
        for n in degs:
            for dim in ((1, 2, 3, 4) if thorough else (rnd.choice([1, 2]), rnd.choice([3, 4]))):
                add("subdivide", rnd.choice(["subdivide_nodes", "Curve.subdivide"]), G.int_net(rnd, dim, n + 1, 256))
                add("subdivide", "subdivide_nodes", G.float_net(rnd, dim, n + 1, rnd.choice([-10, 0, 10])))
                a, b = rnd.choice(PARAMS), rnd.choice(PARAMS)
                add("specialize", rnd.choice(["specialize_curve", "Curve.specialize"]), G.int_net(rnd, dim, n + 1, 256), a, b)
                add("specialize", "specialize_curve", G.float_net(rnd, dim, n + 1, 0), G.float_param(rnd), G.float_param(rnd))
        # high degrees (the property has no degree bound; 32-bit binomials overflow from C(34,17), 53-bit ones from degree 57):
        # sampled unit nets (a middle one always: it carries the largest binomial), one integer and one float net per degree
        for n in ([33, 34, 36, 48, 57, 64] if not thorough else list(range(33, 81))):
            ident = G.unit_nets(n + 1)
            rows = [ident[n // 2], ident[0]] + rnd.sample(ident, 1 if not thorough else 3)
            add("subdivide", "subdivide_nodes", rows)
            add("subdivide", rnd.choice(["subdivide_nodes", "Curve.subdivide"]), G.int_net(rnd, 2, n + 1, 256))
            add("subdivide", "subdivide_nodes", G.float_net(rnd, 2, n + 1, 0))
            add("junction", "subdivide_nodes", G.float_net(rnd, 2, n + 1, 0))
            add("specialize", "specialize_curve", rows[:1], Fr(1, 4), Fr(3, 4))
            add("specialize", rnd.choice(["specialize_curve", "Curve.specialize"]), G.float_net(rnd, 2, n + 1, 0), G.float_param(rnd, 0.0, 1.0), G.float_param(rnd, 0.0, 1.0))
        # boundary parameters: exactly at / next to the values where "snapping" or special-casing could creep in
        BND = [Fr(2) ** -45, -Fr(2) ** -45, 1 - Fr(2) ** -45, 1 + Fr(2) ** -45, Fr(2) ** -60, 1 - Fr(2) ** -53, Fr(2) ** -30,
               Fr(1, 2) + Fr(2) ** -50]
        for n in (1, 2, 3, 4, 5, 9):
            for a in BND:
                add("specialize", rnd.choice(["specialize_curve", "Curve.specialize"]), G.float_net(rnd, rnd.choice([1, 2, 3]), n + 1, 0), a, rnd.choice([Fr(1, 2), Fr(1), Fr(0)]))
                add("specialize", "specialize_curve", G.int_net(rnd, 2, n + 1, 16), rnd.choice([Fr(0), Fr(1, 2)]), a)
        # junction: many random float nets per degree (bitwise)
        for n in degs:
            for _ in range(20 if not thorough else 200):
                add("junction", "subdivide_nodes", G.float_net(rnd, rnd.choice([1, 2, 3]), n + 1, 0))

    drv = C.Driver()
    idx = []
    for kind, routine, nodes, a, b in cases:
        if kind == "subdivide":
            idx.append(drv.ask("subdivide_" + variant, nodes))
        elif kind == "specialize":
            idx.append(drv.ask("specialize_" + variant, nodes, a, b))
        else:
            idx.append(None)
    replies = drv.run()

    for (kind, routine, nodes, a, b), ri in zip(cases, idx):
        n = len(nodes[0]) - 1
        dim = len(nodes)
        arr = C.farr(nodes)
        all_exact = all(C.is_exact_float(x) for r in nodes for x in r)
        ints = all(x.denominator == 1 for r in nodes for x in r)
        rc = {"kind": kind, "routine": routine, "nodes": C.jfr(nodes) if dim <= 4 else C.jfr(nodes[:1]),
              "a": None if a is None else str(a), "b": None if b is None else str(b)}
        key = (kind, routine, C.jfr(nodes) if dim <= 4 else ("identity", n), str(a), str(b))
        if kind == "junction":
            left, right = CH.subdivide_nodes(arr)
            res.count(key, kind=kind, degree_band="1-3" if n <= 3 else "4+")
            if not np.array_equal(left[:, -1].view(np.uint64), right[:, 0].view(np.uint64)) and \
                    not (np.array_equal(left[:, -1], right[:, 0])):
                res.failure("junction-not-bit-shared:degree>=4" if n >= 4 else "junction-not-bit-shared:degree<4",
                            "subdivide_nodes degree %d: left[:, -1] != right[:, 0] bitwise (%s vs %s)" %
                            (n, left[:, -1].tolist(), right[:, 0].tolist()), rc)
            continue
        st, model = replies[ri]
        if kind == "subdivide":
            if routine == "Curve.subdivide":
                l, r = bezier.Curve(arr, n).subdivide()
                outs = [np.asarray(l.nodes), np.asarray(r.nodes)]
            else:
                outs = [np.asarray(o) for o in CH.subdivide_nodes(arr)]
            ivs = [(Fr(0), Fr(1, 2)), (Fr(1, 2), Fr(1))]
            models = model
            exact_regime = ints and max(abs(x) for r in nodes for x in r) <= 256 and n <= 40
            if not np.array_equal(outs[0][:, -1], outs[1][:, 0]):
                res.failure("junction-not-bit-shared:degree>=4" if n >= 4 else "junction-not-bit-shared:degree<4",
                            "%s degree %d: junction differs" % (routine, n), rc)
        else:
            if routine == "Curve.specialize":
                outs = [np.asarray(bezier.Curve(arr, n).specialize(float(a), float(b)).nodes)]
            else:
                outs = [np.asarray(CH.specialize_curve(arr, float(a), float(b)))]
            ivs = [(a, b)]
            models = [model]
            exact_regime = ints and C.is_exact_float(a) and C.is_exact_float(b) and \
                e_budget_ok(n, a, b, int(max(1, max(abs(x) for r in nodes for x in r))).bit_length())
        res.count(key, kind=kind, routine=routine, regime="E" if exact_regime else "T", dim=min(dim, 5),
                  degree_band="1-3" if n <= 3 else "4-12" if n <= 12 else "13-32")
        res.sample({"kind": kind, "routine": routine, "degree": n, "dim": dim, "a": str(a), "b": str(b),
                    "regime": "E" if exact_regime else "T"})
        # the independent specification (exact blossoms) is O(n^3) per row: all rows for small
        # nets, a random sample of rows for the identity net (model = spec is also a theorem)
        spec_rows = set(range(dim)) if dim <= 4 else set(rnd.sample(range(dim), 3))
        for out, (ia, ib), mod in zip(outs, ivs, models):
            if out.shape != (dim, n + 1):
                res.failure("shape", "%s: result shape %r" % (routine, out.shape), rc)
                continue
            for r in range(dim):
                if r in spec_rows:
                    sp = X.specialize_exact(nodes[r], ia, ib)
                    if sp != mod[r]:
                        res.mismatch("model-vs-spec:" + kind, rc, C.jfr(mod[r]), C.jfr(sp))
                spec = {r: mod[r]}   # equal to the exact blossoms wherever checked above
                scale_row = None
                for c in range(n + 1):
                    got = Fr(float(out[r, c]))
                    if got == mod[r][c]:
                        continue
                    if scale_row is None:
                        scale_row = spec_scale(nodes[r], ia, ib)
                    scale = {r: scale_row}
                    tol = 4 * (3 * n + 3) * C.U * scale[r][c]
                    if n <= 2:
                        # the closed forms for 2 / 3 nodes expand the weights ((1-a)(1-b), a + b - 2ab, ...): their coefficients
                        # are computed with an absolute error of a few u (1 + |a|)(1 + |b|) even where the exact weight cancels
                        tol += 13 * C.U * sum(abs(x) for x in nodes[r]) * (1 + max(abs(ia), abs(ib))) ** n      # C04.specialize_comparator_f90_closed: 13 for every M
                    if exact_regime:
                        if got != mod[r][c]:
                            res.mismatch(routine, rc, str(got), str(mod[r][c]), "E regime: must be bit-exact")
                            if abs(got - spec[r][c]) > tol:
                                res.failure("control-point-wrong", "%s degree %d [a=%s,b=%s] node %d: got %s, exact %s" %
                                            (routine, n, a, b, c, got, spec[r][c]), rc)
                    elif abs(got - mod[r][c]) > tol:
                        res.mismatch(routine, rc, str(got), str(mod[r][c]), "T regime")
                        res.failure("control-point-wrong", "%s degree %d [a=%s,b=%s] node %d: |got-exact|=%.3e > %.3e" %
                                    (routine, n, a, b, c, float(abs(got - spec[r][c])), float(tol)), rc)
    res.emit()
    if rep:
        bad = bool(res.failures)
        print("replay: " + ("property fails on this input: " + res.failures[0]["what"] if bad else "property holds on this input"))
        sys.exit(1 if bad else 0)


main()
