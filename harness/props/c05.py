"""C05 — triangle evaluation equals the bivariate Bernstein definition: correspondence + oracle.

impl  : _triangle_helpers.evaluate_barycentric / evaluate_barycentric_multi / evaluate_cartesian_multi /
        compute_edge_nodes (shim: pure or compiled, by package tree), Triangle.evaluate_barycentric /
        evaluate_cartesian / evaluate_*_multi (verify on and off), Triangle.edges
model : Lean driver `tri_eval_py` / `tri_eval_f90 <kind>` / `tri_evalcart_*` / `tri_edges` / `tri_class_*`
        (K := Rat); the Fortran variant (32-bit integer or real running binomial) is chosen from the
        extracted declaration `f90_triangle_evaluate_barycentric_multi_binom_type`
spec  : exact rational sum  sum_{i+j+k=d} d!/(i!j!k!) l1^i l2^j l3^k v_ijk  in the documented node order
"""
import math
import os
import sys
import numpy as np
from fractions import Fraction as Fr
from math import factorial
import common as C
import exact as X
import gen as G

OVERFLOW_KEY = "f90-int32-binomial-overflow:degree>=30"
RTOL = Fr(1e-05)       # numpy.allclose default rtol used by Triangle._verify_barycentric

_COEF = {}


def coefs(d):
    """trinomial coefficients in storage order with the exponent triples"""
    if d not in _COEF:
        out = []
        for k in range(d + 1):
            for j in range(d + 1 - k):
                i = d - j - k
                out.append((factorial(d) // (factorial(i) * factorial(j) * factorial(k)), i, j, k))
        assert [X.tri_index(d, j, k) for (_, i, j, k) in out] == list(range(len(out)))
        _COEF[d] = out
    return _COEF[d]


def dyadic_ints(xs):
    """xs (Fractions with power-of-two denominators) as integers over the common denominator 2^shift"""
    shift = 0
    for x in xs:
        den = x.denominator
        if den & (den - 1):
            return None, None
        shift = max(shift, den.bit_length() - 1)
    return [x.numerator << (shift - (x.denominator.bit_length() - 1)) for x in xs], shift


def powers(x, d):
    out = [x ** 0]
    for _ in range(d):
        out.append(out[-1] * x)
    return out


def weight_powers(w, d):
    """powers of the three weights; integers over a common power-of-two denominator when the weights
    are dyadic (every binary64 number is), Fractions otherwise"""
    ints, sh = dyadic_ints(list(w))
    if ints is None:
        return (powers(Fr(w[0]), d), powers(Fr(w[1]), d), powers(Fr(w[2]), d), None)
    return (powers(ints[0], d), powers(ints[1], d), powers(ints[2], d), sh * d)


def spec_eval(row, d, w, pw=None):
    """(value, sum of |terms|) of the Bernstein sum  sum c_ijk l1^i l2^j l3^k v_ijk; exact.  Zero control
    values are skipped; dyadic data is summed in integers over one power-of-two denominator"""
    p1, p2, p3, wshift = pw if pw else weight_powers(w, d)
    cf = coefs(d)
    rints, rshift = dyadic_ints(row) if wshift is not None else (None, None)
    if rints is not None:
        tot = 0
        sc = 0
        for idx, v in enumerate(rints):
            if v == 0:
                continue
            c, i, j, k = cf[idx]
            t = c * p1[i] * p2[j] * p3[k] * v
            tot += t
            sc += abs(t)
        den = 1 << (wshift + rshift)
        return Fr(tot, den), Fr(sc, den)
    if wshift is not None:
        q = Fr(1, 1 << (wshift // d if d else 0))
        p1, p2, p3 = [x * q ** n for n, x in enumerate(p1)], [x * q ** n for n, x in enumerate(p2)], [x * q ** n for n, x in enumerate(p3)]
    tot = Fr(0)
    sc = Fr(0)
    for idx, v in enumerate(row):
        if v == 0:
            continue
        c, i, j, k = cf[idx]
        t = c * p1[i] * p2[j] * p3[k] * v
        tot += t
        sc += abs(t)
    return tot, sc


def tol(d, scale):
    return 4 * (3 * d + 6) * C.U * scale


def e_budget_ok(d, ws, vbits):
    """E regime: every intermediate of every evaluation order exactly representable"""
    m = max(Fr(x).denominator.bit_length() - 1 for w in ws for x in w)
    grow = max(max(sum(abs(Fr(x)) for x in w) for w in ws), 1)
    bino = math.log2(max(c for c, _, _, _ in coefs(d))) + math.log2(d + 1)
    return d * m + d * math.log2(float(grow)) + vbits + bino + 3 <= 52


def main():
    bezier = C.import_bezier()
    from bezier import _triangle_helpers as TH
    rnd, seed = C.rng()
    tier = C.tier()
    thorough = tier == "thorough"
    search = bool(os.environ.get("VERIF_SEARCH"))
    cfg = C.config_name()
    res = C.Result("C05")
    thr = C.generated("py_curve_vs_threshold" if cfg == "pure" else "f90_curve_vs_threshold", 55)
    btype = C.generated("f90_triangle_evaluate_barycentric_multi_binom_type", None)
    if btype is None:
        # the extractor no longer finds the declaration of the running binomial in evaluate_barycentric_multi (the routine was
        # restructured): that is a broken obligation of Tables/C05 (reported by check.py), NOT a licence to file failures under the
        # historical 32-bit key - the model variant with the real binomial (the repaired code) is used for the comparison
        res.notes.append("binomial type of the compiled evaluate_barycentric_multi not extracted; comparing against the real-binomial variant")
        btype = "real"
    int32 = (cfg == "speedup" and btype == "int32")
    kind = 0 if btype == "int32" else 1
    res.notes.append("config %s: model variant %s" % (cfg, "Py" if cfg == "pure" else "F90/" + btype))

    def model_theorem_covers(d):
        """model = spec is a theorem (eval_eq_bernstein / f90_agrees_below_30 / f90_real_agrees)"""
        return not int32 or d <= 29

    # self-check of the fast exact summation against the reference specification in exact.py
    for d in (1, 2, 4):
        row = [Fr(rnd.randint(-9, 9), rnd.choice([1, 2, 3, 8])) for _ in range(G.tri_nodes_count(d))]
        for w in ((Fr(1, 3), Fr(1, 4), Fr(5, 12)), (Fr(0.3), Fr(-0.2), Fr(0.9))):
            if spec_eval(row, d, w) != (X.tri_eval(row, d, *w), X.tri_eval_abs(row, d, *w)):
                raise SystemExit("spec_eval disagrees with exact.tri_eval")

    rep = C.replay_case()
    cases = []

    def add(kind_, routine, d, nodes, params, regime, verify=False, label=None):
        cases.append({"kind": kind_, "routine": routine, "degree": d, "nodes": nodes, "params": params,
                      "regime": regime, "verify": verify, "label": label})

    H = Fr(1, 2)
    Q = Fr(1, 4)
    FIXED = [(Fr(1), Fr(0), Fr(0)), (Fr(0), Fr(1), Fr(0)), (Fr(0), Fr(0), Fr(1)),      # corners
             (H, H, Fr(0)), (Fr(0), H, H), (H, Fr(0), H), (Q, 3 * Q, Fr(0)), (Fr(0), Q, 3 * Q), (3 * Q, Fr(0), Q),  # edges
             (Q, H, Q), (H, Q, Q), (Fr(1, 8), Fr(5, 8), Q),                                # dyadic interior
             (Fr(-1, 2), Fr(3, 4), Fr(3, 4)), (Fr(5, 4), Fr(-1, 4), Fr(0)), (Fr(1, 2), Fr(1, 2), Fr(1, 2)),  # outside / not summing to 1
             # one weight exactly 1 (or 0) although the point is no corner (edge): outside the triangle, summing to 1
             (Fr(1), H, -H), (Fr(1), -Q, Q), (H, Fr(1), -H), (-Q, Fr(1), Q), (H, -H, Fr(1)), (-Q, Q, Fr(1)),
             (Fr(0), 3 * H, -H), (3 * H, Fr(0), -H), (-H, 3 * H, Fr(0))]
    CENTROID = (Fr(1.0 / 3.0), Fr(1.0 / 3.0), Fr(1.0 - 1.0 / 3.0 - 1.0 / 3.0))

    def rand_inside():
        s = rnd.uniform(0, 1)
        t = rnd.uniform(0, (1 - s) * 0.999)
        return (Fr(1.0 - s - t), Fr(s), Fr(t))

    def rand_any():
        return (Fr(rnd.uniform(-0.5, 1.5)), Fr(rnd.uniform(-0.5, 1.5)), Fr(rnd.uniform(-0.5, 1.5)))

    def dyadic_triple(bits, lo=-1, hi=2):
        s = G.dyadic_param(rnd, bits, lo, hi)
        t = G.dyadic_param(rnd, bits, lo, hi)
        return (1 - s - t, s, t)

    if rep:
        add(rep["kind"], rep["routine"], rep["degree"], [[Fr(x) for x in r] for r in rep["nodes"]],
            [tuple(Fr(x) for x in p) for p in rep["params"]], rep["regime"], rep.get("verify", False), rep.get("label"))
        cases[-1]["layout"] = rep.get("layout", "F")
    else:
        HAZ = ["evaluate_barycentric", "evaluate_barycentric_multi", "evaluate_cartesian_multi"]
        CLS = ["Triangle.evaluate_barycentric", "Triangle.evaluate_barycentric_multi", "Triangle.evaluate_cartesian",
               "Triangle.evaluate_cartesian_multi"]
        # (a) E regime: integer nets, dyadic weights, everything exact in binary64 -> bitwise
        for d in range(1, 9):
            for dim in (1, 2, 3, 4):
                for _ in range(2 if not thorough else 8):
                    nodes = G.int_net(rnd, dim, G.tri_nodes_count(d), 256)
                    bits = max(1, min(5, 24 // d))
                    ps = [dyadic_triple(bits) for _ in range(rnd.choice([1, 2, 5]))] + [rnd.choice(FIXED[:12])]
                    add("eval", rnd.choice(HAZ + CLS), d, nodes, ps, "E")
        # (b) operator extraction: the identity net (= every unit net at once, dimension N), T regime
        # 55 / 58: rows of the net with more than 55 nodes send the compiled row evaluation through its de Casteljau branch,
        # with weights that do NOT sum to one (lambda1 + lambda2 = 1 - lambda3)
        degs = list(range(1, 13)) + [28, 29, 30, 31, 32, 55, 58]
        if thorough:
            degs = list(range(1, 41)) + [54, 55, 56, 57, 60, 64]
        if search:
            degs = list(range(1, 25)) + [28, 29, 30, 31, 32, 33, 36, 40]
        for d in degs:
            n = G.tri_nodes_count(d)
            ident = G.unit_nets(n)
            full = d <= (12 if not thorough else 16)
            if not full:
                # the exact model costs O(d^2) big-rational operations per (unit net, weight): sample
                # unit nets (always the three corner nets) and add the all-ones net (partition of unity)
                keep = sorted(set([0, d, n - 1] + rnd.sample(range(n), 12 if not thorough else 40)))
                ident = [ident[r] for r in keep] + [[Fr(1)] * n]
            ps = FIXED + [CENTROID, rand_inside(), rand_inside(), rand_any(), dyadic_triple(6, 0, 1)]
            if not full and not thorough:
                ps = FIXED[:5] + [FIXED[9], FIXED[12], CENTROID, rand_inside(), rand_any()]
            add("eval", "evaluate_barycentric_multi", d, ident, ps, "T", label="identity" if full else "unit-sample")
            add("eval", "evaluate_cartesian_multi", d, ident, ps[:10], "T", label="identity" if full else "unit-sample")
            add("eval", "evaluate_barycentric", d, ident, ps[:4] + ps[9:11], "T", label="identity" if full else "unit-sample")
            add("edges", "compute_edge_nodes", d, ident, [], "E", label="identity" if full else "unit-sample")
        # (c) random binary64 nets in dimensions 1..4 through every entry point
        for d in (degs if thorough else sorted(rnd.sample(degs[:12], 8) + [28, 29, 30, 31, 32])):
            for dim in (1, 2, 3, 4):
                nodes = G.float_net(rnd, dim, G.tri_nodes_count(d), rnd.choice([-20, 0, 0, 20]))
                nv = rnd.choice([1, 2, 7, 33])
                inside = [rand_inside() for _ in range(nv)]
                inside[0] = rnd.choice([FIXED[0], FIXED[1], FIXED[2], inside[0]])
                anyw = [rand_any() for _ in range(nv)]
                if rnd.random() < 0.5:
                    anyw[-1] = rnd.choice(FIXED[15:24])       # a weight exactly 1 or 0 off the triangle
                add("eval", rnd.choice(HAZ), d, nodes, anyw, "T")
                add("eval", rnd.choice(CLS), d, nodes, inside, "T", verify=True)
                add("eval", rnd.choice(CLS), d, nodes, anyw, "T", verify=False)
                # the same multi-point calls with the PARAMETER array in C order and as a strided view (the caller's layout
                # must not change the points; a documented refusal of the layout is accepted)
                if nv >= 2 and dim <= 2:
                    for lay in ("C", "strided"):
                        for routine in ("evaluate_barycentric_multi", "evaluate_cartesian_multi",
                                        "Triangle.evaluate_barycentric_multi", "Triangle.evaluate_cartesian_multi"):
                            add("eval", routine, d, nodes, inside, "T", verify=False)
                            cases[-1]["layout"] = lay
            # edge curves are the restriction of the surface (through the public classes)
            nodes = G.float_net(rnd, rnd.choice([2, 3]), G.tri_nodes_count(d), 0)
            add("edgecurves", "Triangle.edges", d, nodes, [(Fr(0),), (Fr(1),), (H,), (Q,), (Fr(rnd.uniform(0, 1)),)], "T")
            add("edges", "compute_edge_nodes", d, G.int_net(rnd, rnd.choice([1, 2, 3, 4]), G.tri_nodes_count(d), 99), [], "E")
        # (e) LONG parameter arrays: a multi-point routine that works through the parameter rows in blocks must treat the rows beyond
        # the first block like the others (block boundaries 1024 / 2048 / 4096 and beyond; seed C05_g: the num_vals x 3 parameter
        # block of the compiled routine handed over with the stride of one block) - exact regime, every row compared bit for bit
        for nrows in ([1025, 2049] if not thorough else [1023, 1024, 1025, 2048, 2049, 4097, 5000]):
            for routine in ("evaluate_barycentric_multi", "evaluate_cartesian_multi", "Triangle.evaluate_barycentric_multi",
                            "Triangle.evaluate_cartesian_multi"):
                d = rnd.choice([1, 2, 3])
                nodes = G.int_net(rnd, rnd.choice([1, 2, 3]), G.tri_nodes_count(d), 256)
                add("eval", routine, d, nodes, [dyadic_triple(5) for _ in range(nrows)], "E", verify=False, label="long-%d" % nrows)
        # (d) the verification in front of the class methods (decision logic, boundary values)
        for d in (1, 2, 5):
            nodes = G.int_net(rnd, 2, G.tri_nodes_count(d), 16)
            eps = Fr(2.0 ** -30)
            # x1: 1 + x1 is the binary64 number next to 1 + 1e-5, so that the sum is formed exactly and
            # the decision |total - 1| <= rtol is taken on either side of the boundary
            x1 = Fr(1.0 + 1e-5) - 1
            ulp = Fr(2.0 ** -52)
            ps = [(H, H, Fr(0)), (H, H, eps), (H, H, x1), (H, H, x1 - ulp), (H, H, x1 + ulp), (H, H, x1 - 2 * ulp),
                  (H, H, Fr(2.0 ** -16)), (H, H, Fr(2.0 ** -17)), (H + Fr(1, 8), H, -Fr(1, 8)),
                  (Fr(1), Fr(0), Fr(0)), (Fr(1), Fr(0), -eps), (Q, Q, Q), (Q, Q, H - Fr(2.0 ** -17)), (Q, Q, H - Fr(2.0 ** -16))]
            for p in ps:
                add("verify", "Triangle.evaluate_barycentric", d, nodes, [p], "E", verify=True)
            cs = [(Fr(0), Fr(0)), (H, H), (H, H + eps), (-eps, H), (Q, Q), (Fr(1), Fr(0)), (Fr(1), eps), (H, -eps)]
            for s_, t_ in cs:
                add("verify", "Triangle.evaluate_cartesian", d, nodes, [(1 - s_ - t_, s_, t_)], "E", verify=True)

    # ------------------------------------------------------------------ model
    def is_cart(routine):
        return "cartesian" in routine

    def impl_weights(c):
        """the weight triples the implementation really uses (Cartesian entry points form
        fl(fl(1 - s) - t) themselves)"""
        out = []
        for p in c["params"]:
            if is_cart(c["routine"]):
                s_, t_ = float(p[1]), float(p[2])
                out.append((Fr(1.0 - s_ - t_), p[1], p[2]))
            else:
                out.append(p)
        return out

    drv = C.Driver()
    for c in cases:
        d, nodes = c["degree"], c["nodes"]
        if c["kind"] == "eval":
            exact_l1 = is_cart(c["routine"]) and all(C.is_exact_float(1 - p[1] - p[2]) and Fr(float(1.0 - float(p[1]) - float(p[2]))) == 1 - p[1] - p[2] for p in c["params"])
            c["cart_exact"] = exact_l1
            if is_cart(c["routine"]) and exact_l1:
                st = [[p[1], p[2]] for p in c["params"]]
                c["mi"] = drv.ask("tri_evalcart_py", thr, d, nodes, st) if cfg == "pure" else \
                    drv.ask("tri_evalcart_f90", kind, thr, d, nodes, st)
            else:
                ws = [list(w) for w in impl_weights(c)]
                c["mi"] = drv.ask("tri_eval_py", thr, d, nodes, ws) if cfg == "pure" else \
                    drv.ask("tri_eval_f90", kind, thr, d, nodes, ws)
        elif c["kind"] == "edges":
            c["mi"] = drv.ask("tri_edges", d, nodes)
        elif c["kind"] == "verify":
            p = c["params"][0]
            if is_cart(c["routine"]):
                c["mi"] = drv.ask("tri_class_cart", 1, thr, d, nodes, [[p[1], p[2]]])
            else:
                c["mi"] = drv.ask("tri_class_bary", 1, RTOL, thr, d, nodes, [list(p)])
        else:
            c["mi"] = None
    import time as _time
    _t0 = _time.time()
    replies = drv.run()
    res.notes.append("driver %.1fs for %d requests" % (_time.time() - _t0, len(replies)))

    # ------------------------------------------------------------------ implementation
    def call_impl(c):
        d, nodes, routine = c["degree"], c["nodes"], c["routine"]
        arr = C.farr(nodes)
        dim = len(nodes)
        ps = c["params"]
        P3 = np.asfortranarray([[float(x) for x in p] for p in ps], dtype=np.float64).reshape(len(ps), 3)
        P2 = np.asfortranarray(P3[:, 1:3])
        lay = c.get("layout", "F")
        if lay == "C":
            P3, P2 = np.ascontiguousarray(P3), np.ascontiguousarray(P2)
        elif lay == "strided":
            P3 = np.asfortranarray(np.repeat(P3, 2, axis=0))[::2]
            P2 = np.asfortranarray(np.repeat(P2, 2, axis=0))[::2]
        vf = c["verify"]
        if routine == "evaluate_barycentric":
            return np.hstack([np.asarray(TH.evaluate_barycentric(arr, d, float(p[0]), float(p[1]), float(p[2]))) for p in ps])
        if routine == "evaluate_barycentric_multi":
            return np.asarray(TH.evaluate_barycentric_multi(arr, d, P3, dim))
        if routine == "evaluate_cartesian_multi":
            return np.asarray(TH.evaluate_cartesian_multi(arr, d, P2, dim))
        tri = bezier.Triangle(arr, d, copy=True, verify=True)
        if routine == "Triangle.evaluate_barycentric":
            return np.hstack([np.asarray(tri.evaluate_barycentric(float(p[0]), float(p[1]), float(p[2]), verify=vf)) for p in ps])
        if routine == "Triangle.evaluate_barycentric_multi":
            return np.asarray(tri.evaluate_barycentric_multi(P3, verify=vf))
        if routine == "Triangle.evaluate_cartesian":
            return np.hstack([np.asarray(tri.evaluate_cartesian(float(p[1]), float(p[2]), verify=vf)) for p in ps])
        if routine == "Triangle.evaluate_cartesian_multi":
            return np.asarray(tri.evaluate_cartesian_multi(P2, verify=vf))
        raise SystemExit("unknown routine " + routine)

    def band(d):
        return "1-4" if d <= 4 else "5-12" if d <= 12 else "13-27" if d < 28 else "28-32" if d <= 32 else "33-40"

    def rcase(c, rows=None):
        nodes = c["nodes"] if rows is None else [c["nodes"][r] for r in rows]
        return {"kind": c["kind"], "routine": c["routine"], "degree": c["degree"], "nodes": C.jfr(nodes),
                "params": C.jfr([list(p) for p in c["params"]]), "regime": c["regime"], "verify": c["verify"],
                "label": c["label"], "layout": c.get("layout", "F")}

    def fail_key(c, what):
        if int32 and c["degree"] >= 30:
            return OVERFLOW_KEY
        if what == "corner-inexact" and c["degree"] >= 52:
            # the running binomial of the row loop exceeds 2^53 in its intermediate product from degree 52 on (the Lean theorem
            # of corner exactness needs degree <= 51): the weight of the corner is then 1 up to a few ulps (finding F-X)
            return "corner-inexact:degree>=52:running-binomial-rounds"
        return "%s:%s" % (what, c["routine"])

    for c in cases:
        d, nodes, routine, regime = c["degree"], c["nodes"], c["routine"], c["regime"]
        dim = len(nodes)
        n = G.tri_nodes_count(d)
        small = dim <= 4
        key = (c["kind"], routine, d, C.jfr(nodes) if small else (c["label"], dim), C.jfr([list(p) for p in c["params"]]), c["verify"], c.get("layout", "F"))
        nontrivial = any(x != 0 for r in nodes for x in r)

        # ---------------------------------------------------------------- compute_edge_nodes
        if c["kind"] == "edges":
            res.count(key, nontrivial=nontrivial, kind="edges", routine=routine, regime="E", degree_band=band(d), dim=min(dim, 5))
            e = [np.asarray(x) for x in TH.compute_edge_nodes(C.farr(nodes), d)]
            st, model = replies[c["mi"]]
            spec = [[[row[X.tri_index(d, j, 0)] for j in range(d + 1)] for row in nodes],
                    [[row[X.tri_index(d, d - k, k)] for k in range(d + 1)] for row in nodes],
                    [[row[X.tri_index(d, 0, d - m)] for m in range(d + 1)] for row in nodes]]
            for q in range(3):
                got = C.to_fr(e[q])
                if got != model[q]:
                    res.mismatch("compute_edge_nodes", rcase(c, range(min(dim, 4))), C.jfr(got[:2]), C.jfr(model[q][:2]), "edge %d" % (q + 1))
                if model[q] != spec[q]:
                    res.mismatch("model-vs-spec:edges", rcase(c, range(min(dim, 4))), C.jfr(model[q][:2]), C.jfr(spec[q][:2]))
                if got != spec[q]:
                    res.failure("edge-nodes-wrong:compute_edge_nodes", "degree %d edge %d: nodes are not the boundary row of the net" % (d, q + 1),
                                rcase(c, range(min(dim, 4))))
            continue

        # ---------------------------------------------------------------- Triangle.edges = restriction
        if c["kind"] == "edgecurves":
            res.count(key, nontrivial=nontrivial, kind="edgecurves", routine=routine, regime="T", degree_band=band(d), dim=dim)
            tri = bezier.Triangle(C.farr(nodes), d)
            edges = tri.edges
            ss = [p[0] for p in c["params"]]
            sides = [lambda s: (1 - s, s, Fr(0)), lambda s: (Fr(0), 1 - s, s), lambda s: (s, Fr(0), 1 - s)]
            for q in range(3):
                vals = np.asarray(edges[q].evaluate_multi(np.array([float(s) for s in ss])))
                for ci, s in enumerate(ss):
                    s = Fr(float(s))
                    w = sides[q](s)
                    surf = np.asarray(TH.evaluate_barycentric(C.farr(nodes), d, float(w[0]), float(w[1]), float(w[2])))
                    for r in range(dim):
                        sp, sc = spec_eval(nodes[r], d, w)
                        t_ = tol(d, sc)
                        ge, gs = Fr(float(vals[r, ci])), Fr(float(surf[r, 0]))
                        if abs(ge - sp) > t_ or abs(gs - sp) > t_:
                            res.failure(fail_key(c, "edge-not-restriction"),
                                        "degree %d edge %d at s=%s: edge curve %s, surface on the side %s, exact %s" %
                                        (d, q + 1, float(s), float(ge), float(gs), float(sp)), rcase(c))
            continue

        # ---------------------------------------------------------------- verification of the class methods
        if c["kind"] == "verify":
            res.count(key, nontrivial=True, kind="verify", routine=routine, regime="E", degree_band=band(d), dim=dim)
            st, model = replies[c["mi"]]
            try:
                out = call_impl(c)
                impl = ("ok", C.to_fr(out))
            except ValueError:
                impl = ("err", "valueError")
            p = c["params"][0]
            exact_inputs = all(C.is_exact_float(x) for x in p)
            # the model decides on the exact sum, the code on the rounded one: compare only when the
            # decision margin is clear (sum exactly representable)
            tot = p[0] + p[1] + p[2] if not is_cart(routine) else p[1] + p[2]
            clear = exact_inputs and C.is_exact_float(tot) and C.is_exact_float(p[0] + p[1])
            if clear and impl[0] != st:
                res.mismatch(routine + ":verify", rcase(c), impl[0], st, "raise / no raise differs")
            if is_cart(routine):
                ok_expected = not (p[1] < 0 or p[2] < 0 or p[1] + p[2] > 1)
            else:
                ok_expected = abs(tot - 1) <= RTOL and min(p) >= 0
            if clear and (impl[0] == "ok") != ok_expected:
                res.failure("verify-decision:" + routine, "degree %d weights %s: %s but documented check says %s" %
                            (d, [float(x) for x in p], impl[0], "accept" if ok_expected else "ValueError"), rcase(c))
            continue

        # ---------------------------------------------------------------- evaluation
        ws = impl_weights(c)
        exact_regime = regime == "E" and all(C.is_exact_float(x) for w in ws for x in w) and \
            e_budget_ok(d, ws, int(max(1, max(abs(x) for r in nodes for x in r))).bit_length()) and \
            (not is_cart(routine) or c["cart_exact"])
        res.count(key, nontrivial=nontrivial, kind="eval", routine=routine, regime="E" if exact_regime else "T",
                  degree_band=band(d), dim=min(dim, 5), nparams=len(ws), verify=c["verify"], layout=c.get("layout", "F"))
        res.sample({"routine": routine, "degree": d, "dim": dim, "regime": "E" if exact_regime else "T",
                    "weights": C.jfr([list(w) for w in ws[:2]])})
        try:
            out = call_impl(c)
        except ValueError as exc:
            if c.get("layout", "F") != "F" and "contiguous" in str(exc):
                res.skip("parameter array in %s layout refused (%s)" % (c["layout"], C.config_name()))
                continue
            res.failure("unexpected-ValueError:" + routine, "degree %d: %r" % (d, exc), rcase(c))
            continue
        if out.shape != (dim, len(ws)):
            res.failure("shape:" + routine, "result shape %r != (%d,%d)" % (out.shape, dim, len(ws)), rcase(c))
            continue
        st, model = replies[c["mi"]]
        covered = model_theorem_covers(d)
        reported = 0
        for ci, w in enumerate(ws):
            pw = weight_powers(w, d)
            for r in range(dim):
                got = Fr(float(out[r, ci]))
                mval = model[r][ci]
                spec, scale = spec_eval(nodes[r], d, w, pw)
                rc = None
                if covered and mval != spec:
                    res.mismatch("model-vs-spec", rcase(c, [r]), str(mval), str(spec), "weights %s" % (C.jfr(list(w)),))
                if not covered and mval != spec:
                    res.dist.setdefault("int32_model_differs_from_spec", {})
                    res.dist["int32_model_differs_from_spec"][str(d)] = res.dist["int32_model_differs_from_spec"].get(str(d), 0) + 1
                t_ = tol(d, scale)
                # the int32 model wraps around: its intermediate terms are not bounded by the
                # Bernstein terms, use the larger of the two scales for the correspondence
                mt = t_ if covered else 4 * (3 * d + 6) * C.U * max(scale, abs(mval), Fr(1))
                if exact_regime:
                    if got != mval:
                        res.mismatch(routine, rcase(c, [r]), str(got), str(mval), "E regime: must be bit-exact")
                elif abs(got - mval) > mt:
                    res.mismatch(routine, rcase(c, [r]), str(got), str(mval), "T regime tolerance 4(3d+6)u*scale")
                if abs(got - spec) > t_ and reported < 3:
                    reported += 1
                    res.failure(fail_key(c, "eval-wrong"),
                                "%s degree %d dim %d at weights %s: got %r, Bernstein sum %r, |diff|=%.3e > tol %.3e" %
                                (routine, d, dim, [float(x) for x in w], float(got), float(spec), float(abs(got - spec)), float(t_)),
                                rcase(c, [r] if not small else None))
                # corners are interpolated exactly (bitwise)
                corner = {(1, 0, 0): 0, (0, 1, 0): d, (0, 0, 1): n - 1}.get(tuple(w))
                if corner is not None and got != nodes[r][corner] and reported < 3:
                    reported += 1
                    res.failure(fail_key(c, "corner-inexact"),
                                "%s degree %d: weights %s return %r, corner control point %r" %
                                (routine, d, [int(x) for x in w], float(got), float(nodes[r][corner])),
                                rcase(c, [r] if not small else None))
    res.emit()
    if rep:
        bad = bool(res.failures)
        print("replay: " + ("property fails on this input: " + res.failures[0]["what"] if bad else "property holds on this input"))
        sys.exit(1 if bad else 0)


main()
