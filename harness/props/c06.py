"""C06 — triangle-triangle intersection returns exactly the common region: oracle + decision trace.

impl  : _triangle_intersection.geometric_intersect (shim: pure / compiled `triangle_intersections`),
        Triangle.intersect (GEOMETRIC and ALGEBRAIC), _make_intersection / CurvedPolygon
spec  : clip.py — exact rational convex clipping (lattice triangles, degree 1 and exactly elevated to 2, 3),
        certified area enclosure + winding-number membership (curved triangles of degree 1..4)
model : the decision functions of Model/Classify.lean; every call of handle_ends / classify_intersection /
        classify_coincident / should_use / to_front / ends_to_curve / verify_edge_segments / bbox_intersect that the
        pure-Python run makes on lattice data is recorded (run-time wrappers on the hazmat module globals, no
        change of /repo) and replayed through the driver: the discrete results must be identical.

Failure keys
  lat<N>:<x0y0x1y1x2y2>-<x0y0x1y1x2y2>:<what>[:deg2|:deg3][:algebraic]     <what> in raised-<Exc>, bad-structure,
                                                                          wrong-area, wrong-region, order-dependent
  curved:<what>[:algebraic]
  nocontact:<what>[:algebraic]      no edge meets an edge (nested / disjoint, family of harness/c06nest.py); <what> in
                                    contained-reported-disjoint, disjoint-reported-contained, wrong-triangle-reported,
                                    raised-<Exc>, order-dependent, or a <what> of the curved judge
The lattice keys are canonical (enumerated space): the known failures of the unchanged tree are listed in
known/C06-*.txt; `VERIF_C06_DUMP=1` regenerates those files by exhaustive enumeration (see known/C06-README.md).
"""
import itertools
import math
import os
import sys
import time
import numpy as np
from fractions import Fraction as Fr
import common as C
import exact as X
import clip as K
import c06nest as NC

TOL_LAT = Fr(1, 2 ** 40)
TOL_CURVED = Fr(1, 2 ** 34)
BITS = 80          # lattice of the exact oracle: degree-6 edges cut 11 times need 6*11 + 6 bits
S = {}          # run-time state: modules of the package tree under test


# ------------------------------------------------------------------ lattice space
def lattice_tris(n):
    """all non-degenerate triangles with vertices on {0..n-1}^2, one positively oriented presentation each
    (smallest vertex first), in lexicographic order"""
    pts = [(x, y) for x in range(n) for y in range(n)]
    out = []
    for a, b, c in itertools.combinations(pts, 3):
        cr = K.cross(a, b, c)
        if cr == 0:
            continue
        out.append((a, b, c) if cr > 0 else (a, c, b))
    return out


def tkey(t):
    return "".join("%d%d" % p for p in t)


def tparse(s):
    return tuple((int(s[2 * i]), int(s[2 * i + 1])) for i in range(3))


def vertex_on_boundary(t1, t2):
    for p, q in ((t1, t2), (t2, t1)):
        for v in p:
            for i in range(3):
                if K.on_segment(v, q[i], q[(i + 1) % 3]):
                    return True
    return False


def present(t, deg):
    """exact control net (two rows) of the straight triangle `deg * t` presented with degree `deg`
    (scaling by deg makes every elevated control point an integer) and the scale"""
    rows = [[Fr(p[0] * deg) for p in t], [Fr(p[1] * deg) for p in t]]
    d = 1
    while d < deg:
        rows = [X.tri_elevate_exact(r, d) for r in rows]
        d += 1
    assert all(x.denominator == 1 for r in rows for x in r)
    return rows


def tri_edges(nodes, d):
    """the three edge nets [(xs, ys)] * 3 of a triangle net (rows)"""
    e1 = tuple([r[X.tri_index(d, j, 0)] for j in range(d + 1)] for r in nodes)
    e2 = tuple([r[X.tri_index(d, d - k, k)] for k in range(d + 1)] for r in nodes)
    e3 = tuple([r[X.tri_index(d, 0, d - k)] for k in range(d + 1)] for r in nodes)
    return [e1, e2, e3]


# ------------------------------------------------------------------ calling the real code
def call_function(n1, d1, n2, d2):
    """function-level entry: (status, edge_infos, contained) with status 'ok' or the exception type name"""
    try:
        ei, contained, _ = S["TI"].geometric_intersect(C.farr(n1), d1, C.farr(n2), d2, True)
    except Exception as exc:  # noqa
        return type(exc).__name__, repr(exc.args)[:160], None
    return "ok", normalize_infos(ei), contained


def call_api(n1, d1, n2, d2, strategy):
    """API-level entry; the CurvedPolygon edges are checked against the exact sub-curves by the caller"""
    T = S["bezier"].Triangle
    a, b = T(C.farr(n1), d1), T(C.farr(n2), d2)
    try:
        out = a.intersect(b, strategy=strategy)
    except Exception as exc:  # noqa
        return type(exc).__name__, repr(exc.args)[:160], None, None
    if len(out) == 1 and out[0] is a:
        return "ok", None, True, None
    if len(out) == 1 and out[0] is b:
        return "ok", None, False, None
    infos, polys = [], []
    for cp in out:
        if not isinstance(cp, S["bezier"].CurvedPolygon):
            return "ok", "unexpected-object", None, None
        infos.append(tuple(cp._metadata))
        polys.append([np.asarray(e._nodes) for e in cp._edges])
    return "ok", normalize_infos(infos), None, polys


def normalize_infos(ei):
    if ei is None:
        return None
    return [[(int(i), float(a), float(b)) for i, a, b in reg] for reg in ei]


# ------------------------------------------------------------------ judging a result
def seg_point(edge, s):
    return (X.bern(edge[0], s), X.bern(edge[1], s))


def structure(infos, e6, tol):
    """structural clauses on the returned regions; returns (None, regions, soft) or (why, None, None);
    regions = [(start points, segments as exact (idx, s, e))]; soft = a defect that still leaves a closed chain
    (consecutive segments on one edge), reported only when the area is right"""
    regs = []
    soft = None
    for reg in infos:
        if len(reg) == 0:
            return "empty region", None, None
        segs = []
        for idx, a, b in reg:
            if not (0 <= idx <= 5):
                return "edge index %r out of range" % (idx,), None, None
            if not (0.0 <= a < b <= 1.0):
                return "segment parameters not 0 <= start < end <= 1: %r" % ((idx, a, b),), None, None
            segs.append((idx, Fr(a), Fr(b)))
        n = len(segs)
        for k in range(n):
            i1, a1, b1 = segs[k]
            i2, a2, b2 = segs[(k + 1) % n]
            if i1 == i2 and soft is None:
                soft = "consecutive segments on one edge: %r, %r" % (reg[k], reg[(k + 1) % n])
            p = seg_point(e6[i1], b1)
            q = seg_point(e6[i2], a2)
            if abs(p[0] - q[0]) > tol or abs(p[1] - q[1]) > tol:
                return "chain broken between %r and %r (gap %.3g)" % (reg[k], reg[(k + 1) % n], float(max(abs(p[0] - q[0]), abs(p[1] - q[1])))), None, None
        regs.append(([seg_point(e6[i], a) for i, a, b in segs], segs))
    return None, regs, soft


def close_cycle(p, q, tol):
    """do the vertex cycles p (exact polygon, cleaned) and q (returned, cleaned approximately) agree up to rotation"""
    if len(p) != len(q):
        return False
    n = len(p)
    for r in range(n):
        if all(abs(p[i][0] - q[(i + r) % n][0]) <= tol and abs(p[i][1] - q[(i + r) % n][1]) <= tol for i in range(n)):
            return True
    return False


def clean_approx(poly, tol):
    """drop repeated / collinear vertices up to tol (the returned parameters are rounded)"""
    out = []
    for p in poly:
        if not out or abs(out[-1][0] - p[0]) > tol or abs(out[-1][1] - p[1]) > tol:
            out.append(p)
    while len(out) > 1 and abs(out[0][0] - out[-1][0]) <= tol and abs(out[0][1] - out[-1][1]) <= tol:
        out.pop()
    changed = True
    while changed and len(out) >= 3:
        changed = False
        for i in range(len(out)):
            a, b, c = out[i - 1], out[i], out[(i + 1) % len(out)]
            if abs(K.cross(a, b, c)) <= tol * (abs(b[0] - a[0]) + abs(b[1] - a[1]) + abs(c[0] - b[0]) + abs(c[1] - b[1]) + 1):
                del out[i]
                changed = True
                break
    return out


def judge_straight(status, infos, contained, p1, p2, e6, exact, scale, sample_pts, algebraic=False):
    """straight-edged inputs (corner lists p1, p2 exact; exact = clipped polygon). -> (what, text) or (None, tag)"""
    tol = TOL_LAT * scale
    if status == "NotImplementedError" and algebraic:
        return None, "refused"
    if status != "ok":
        return "raised-" + status, "raised %s%s" % (status, infos)
    ea = K.area(exact)
    if infos is None:
        inner = p1 if contained else p2
        if contained not in (True, False):
            return "bad-structure", "edge_infos None with contained=%r" % (contained,)
        if K.area(inner) != ea or K.canonical_cycle(K.clean(list(inner))) != K.canonical_cycle(exact):
            return "wrong-area", "reported triangle %d contained in the other (area %s), exact common area %s" % (1 if contained else 2, K.area(inner), ea)
        return None, "contained"
    if infos == "unexpected-object":
        return "bad-structure", "unexpected object in the returned list"
    why, regs, soft = structure(infos, e6, tol)
    if why:
        return "bad-structure", why
    tot = Fr(0)
    for pts, segs in regs:
        a = K.area(pts)
        if a <= 0:
            return "bad-structure", "region not positively oriented (area %s)" % float(a)
        tot += a
    if abs(tot - ea) > tol * scale:
        return "wrong-area", "total area %s, exact common area %s (%d region(s))%s" % (float(tot), ea, len(regs), "; " + soft if soft else "")
    if soft:
        return "bad-structure", soft
    if not exact:
        if regs:
            return "wrong-region", "regions of (numerically) zero area returned for inputs without common area"
        return None, "empty"
    ok = len(regs) == 1 and close_cycle(exact, clean_approx(regs[0][0], tol), 4 * tol)
    if not ok:
        # decide by membership of sample points whether the union of the regions is the exact polygon
        bad = None
        for p in sample_pts:
            w = K.point_in_convex(p, exact)
            if w == 0:
                continue
            ins = any((K.winding_number(p, pts) or 0) != 0 for pts, _ in regs)
            if ins != (w > 0):
                bad = p
                break
        if bad is not None or len(regs) != 1:
            return "wrong-region", "area agrees but the regions are not the exact polygon (%d regions, sample point %s)" % (len(regs), bad)
    else:
        for p in sample_pts:
            w = K.point_in_convex(p, exact)
            if w == 0:
                continue
            wn = K.winding_number(p, regs[0][0])
            if wn is None:
                continue
            if (wn == 1) != (w > 0) or wn not in (0, 1):
                return "wrong-region", "membership of %s: winding number %d, exact %s" % (p, wn, w > 0)
    if K.canonical_cycle(K.clean(list(p1))) == K.canonical_cycle(exact) or K.canonical_cycle(K.clean(list(p2))) == K.canonical_cycle(exact):
        return None, "contained-as-polygon"
    return None, "polygon-%d" % len(exact)


def grid_points(scale, n):
    """points of the lattice-refined grid of step 1/4, shifted off every line through two lattice points"""
    out = []
    for a in range(4 * (n - 1)):
        for b in range(4 * (n - 1)):
            out.append((scale * (Fr(2 * a + 1, 8) + Fr(1, 1024)), scale * (Fr(2 * b + 1, 8) + Fr(1, 4096))))
    return out


_GRID = {}


def check_polys(polys, infos, e6, tol):
    """_make_intersection: every CurvedPolygon edge is the specialised sub-curve (exact comparison up to tol)"""
    for reg, edges in zip(infos, polys):
        for (idx, a, b), nodes in zip(reg, edges):
            want = [X.specialize_exact(r, Fr(a), Fr(b)) for r in e6[idx]]
            if nodes.shape != (2, len(want[0])):
                return "edge nodes of shape %r" % (nodes.shape,)
            for r in range(2):
                for c in range(len(want[0])):
                    if abs(Fr(float(nodes[r, c])) - want[r][c]) > tol:
                        return "CurvedPolygon edge is not the sub-curve [%r, %r] of edge %d" % (a, b, idx)
    return None


def run_lattice(n, t1, t2, deg=1, entry="function", strategy="geometric", membership=True, reverse=True):
    """one lattice pair -> (what or None, text, tag, nontrivial)"""
    n1, n2 = present(t1, deg), present(t2, deg)
    p1 = [(Fr(x * deg), Fr(y * deg)) for x, y in t1]
    p2 = [(Fr(x * deg), Fr(y * deg)) for x, y in t2]
    e6 = tri_edges(n1, deg) + tri_edges(n2, deg)
    exact = K.clip_convex(p1, p2)
    scale = deg * max(n - 1, 1)
    pts = []
    if membership:
        if (n, deg) not in _GRID:
            _GRID[(n, deg)] = grid_points(deg, n)
        pts = _GRID[(n, deg)]
    polys = None
    if entry == "function":
        status, infos, contained = call_function(n1, deg, n2, deg)
    else:
        status, infos, contained, polys = call_api(n1, deg, n2, deg, S["STRAT"][strategy])
    what, text = judge_straight(status, infos, contained, p1, p2, e6, exact, scale, pts, strategy == "algebraic")
    tag = text if what is None else what
    if what is None and polys is not None:
        why = check_polys(polys, infos, e6, TOL_LAT * scale)
        if why:
            what, text = "bad-structure", why
    if what is None and reverse and text != "refused":
        e6r = e6[3:] + e6[:3]
        if entry == "function":
            st2, in2, co2 = call_function(n2, deg, n1, deg)
        else:
            st2, in2, co2, _ = call_api(n2, deg, n1, deg, S["STRAT"][strategy])
        w2, t2x = judge_straight(st2, in2, co2, p2, p1, e6r, exact, scale, [], strategy == "algebraic")
        if w2 is not None:
            what, text = "order-dependent", "intersect(A, B) is right but intersect(B, A) is not: " + t2x
    bb = not (max(p[0] for p in p1) <= min(p[0] for p in p2) or max(p[0] for p in p2) <= min(p[0] for p in p1)
              or max(p[1] for p in p1) <= min(p[1] for p in p2) or max(p[1] for p in p2) <= min(p[1] for p in p1))
    return what, text, tag, bb


def lat_key(n, t1, t2, what, deg, strategy):
    k = "lat%d:%s-%s:%s" % (n, tkey(t1), tkey(t2), what)
    if deg != 1:
        k += ":deg%d" % deg
    if strategy != "geometric":
        k += ":" + strategy
    return k


# ------------------------------------------------------------------ curved triangles
def jacobian_bernstein_positive(nodes, d):
    """all Bernstein coefficients (degree 2(d-1)) of det J positive => valid (sufficient)"""
    from math import factorial
    if d == 1:
        return K.cross((nodes[0][0], nodes[1][0]), (nodes[0][1], nodes[1][1]), (nodes[0][2], nodes[1][2])) > 0
    m = d - 1
    xs, ys = X.tri_jacobian_s(nodes[0], d), X.tri_jacobian_s(nodes[1], d)
    xt, yt = X.tri_jacobian_t(nodes[0], d), X.tri_jacobian_t(nodes[1], d)
    idx = [(m - j - k, j, k) for k in range(m + 1) for j in range(m + 1 - k)]

    def mult(a):
        return factorial(sum(a)) // (factorial(a[0]) * factorial(a[1]) * factorial(a[2]))
    coef = {}
    for ia, a in enumerate(idx):
        for ib, b in enumerate(idx):
            g = (a[0] + b[0], a[1] + b[1], a[2] + b[2])
            w = Fr(mult(a) * mult(b), mult(g))
            coef[g] = coef.get(g, 0) + w * (xs[ia] * yt[ib] - ys[ia] * xt[ib])
    return all(v > 0 for v in coef.values())


def random_curved(rnd, d, box=16):
    """affine image of the reference net (corners on a (3/16)-lattice so that the nets of degree 1..4 are dyadic)
    + small dyadic perturbations of the control points; certified valid"""
    for _ in range(200):
        c = [(Fr(3 * rnd.randint(0, box), 16), Fr(3 * rnd.randint(0, box), 16)) for _ in range(3)]
        cr = K.cross(*c)
        if cr < 0:
            c = [c[0], c[2], c[1]]
            cr = -cr
        if cr < Fr(3, 2):
            continue
        rows = [[], []]
        for k in range(d + 1):
            for j in range(d + 1 - k):
                i = d - j - k
                for r in range(2):
                    rows[r].append((i * c[0][r] + j * c[1][r] + k * c[2][r]) / d)
        if d > 1:
            # perturbation size relative to the shortest edge
            m = min(max(abs(c[a][0] - c[b][0]), abs(c[a][1] - c[b][1])) for a, b in ((0, 1), (1, 2), (2, 0)))
            amp = max(1, int(m * 256 / (6 * d)))
            corners = (0, d, len(rows[0]) - 1)
            for q in range(len(rows[0])):
                if q in corners and rnd.random() < 0.5:
                    continue
                for r in range(2):
                    rows[r][q] += Fr(rnd.randint(-amp, amp), 256)
        if jacobian_bernstein_positive(rows, d):
            return rows
    raise RuntimeError("no valid curved triangle generated")


def bulged_quadratic(rnd):
    """a valid quadratic triangle whose three edges bulge outward so far that every edge control point lies OUTSIDE the
    homothetic straight triangle OUTER (factor lam about the centroid) which nevertheless contains the whole curved
    triangle: edge i is offset by h_i/2 <= 3/4 delta_i < delta_i while its control point is offset by h_i = 3/2 delta_i.
    Returns (curved nets, outer corner triangle nets, [small straight triangles around each edge control point, disjoint
    from the curved triangle])"""
    for _ in range(200):
        c = [(Fr(rnd.randint(0, 12)), Fr(rnd.randint(0, 12))) for _ in range(3)]
        cr = K.cross(*c)
        if cr < 0:
            c = [c[0], c[2], c[1]]
            cr = -cr
        if cr < 12:
            continue
        g = (sum(p[0] for p in c) / 3, sum(p[1] for p in c) / 3)
        lam1 = Fr(rnd.choice([1, 2, 3]), 8)                       # lam - 1
        ctrl, small = {}, []
        for (a, b, name) in ((0, 1, "01"), (0, 2, "02"), (1, 2, "12")):
            ex, ey = c[b][0] - c[a][0], c[b][1] - c[a][1]
            tt = ((g[0] - c[a][0]) * ex + (g[1] - c[a][1]) * ey) / (ex * ex + ey * ey)
            foot = (c[a][0] + tt * ex, c[a][1] + tt * ey)
            dvec = (lam1 * (foot[0] - g[0]), lam1 * (foot[1] - g[1]))        # outward, length delta
            mid = ((c[a][0] + c[b][0]) / 2, (c[a][1] + c[b][1]) / 2)
            P = (mid[0] + Fr(3, 2) * dvec[0], mid[1] + Fr(3, 2) * dvec[1])
            ctrl[name] = P
            # a small triangle around P inside the strip (3/4 delta, ...) measured along the normal: radius delta / 4
            r = (dvec[0] / 4, dvec[1] / 4)
            q = (-r[1], r[0])
            tri = [(P[0] - r[0] - q[0], P[1] - r[1] - q[1]), (P[0] - r[0] + q[0], P[1] - r[1] + q[1]), (P[0] + r[0], P[1] + r[1])]
            if K.cross(*tri) < 0:
                tri = [tri[0], tri[2], tri[1]]
            small.append([[t[0] for t in tri], [t[1] for t in tri]])
        # the nets handed to the library are binary64: round to a dyadic grid here (the margins above are macroscopic, and the verdict is
        # certified on the rounded nets by judge_curved anyway)
        def r64(rows_):
            return [[Fr(round(v * 2 ** 20), 2 ** 20) for v in row] for row in rows_]      # dyadic: exact in binary64 and for the oracle
        rows = r64([[c[0][r], ctrl["01"][r], c[1][r], ctrl["02"][r], ctrl["12"][r], c[2][r]] for r in range(2)])
        if not jacobian_bernstein_positive(rows, 2):
            continue
        outer = [(g[0] + (1 + lam1) * (p[0] - g[0]), g[1] + (1 + lam1) * (p[1] - g[1])) for p in c]
        outer_rows = r64([[p[0] for p in outer], [p[1] for p in outer]])
        return rows, outer_rows, [r64(t) for t in small]
    raise RuntimeError("no bulged triangle generated")


def relabel_quadratic(rows, k):
    """the same quadratic triangle with its corners relabelled cyclically k times (orientation kept)"""
    for _ in range(k % 3):
        rows = [[r[2], r[4], r[5], r[1], r[3], r[0]] for r in rows]
    return rows


def corner_on_edge_curved(rnd):
    """a straight triangle T1 with an edge on the x-axis (interior above) and a valid quadratic triangle T2 with a corner P
    in the interior of that edge; the edge of T2 ARRIVING at P is curved: it leaves its start A (inside T1) going away
    from the x-axis and comes back down to P, so that its tangents at the two ends lie on different sides of the edge of
    T1; the edge leaving P goes outside T1.  Rotated by a multiple of 90 degrees, translated, corners relabelled."""
    for _ in range(400):
        a, b = rnd.randint(2, 6), rnd.randint(4, 8)
        t1 = [[Fr(-a), Fr(b), Fr(rnd.randint(-1, 3))], [Fr(0), Fr(0), Fr(rnd.randint(6, 10))]]
        P = (Fr(rnd.randint(-2 * (a - 1), 2 * (b - 2)), 2), Fr(0))
        A = (P[0] + Fr(rnd.randint(-2, 4), 2), Fr(rnd.randint(1, 4), 2))
        ctrl = (A[0] + Fr(rnd.randint(-2, 2), 2), A[1] + Fr(rnd.randint(2, 6), 2))
        Cc = (P[0] + Fr(rnd.randint(-3, 1), 2), -Fr(rnd.randint(1, 4), 2))
        if K.cross(A, P, Cc) <= 0:
            continue
        mid = lambda u, v: ((u[0] + v[0]) / 2, (u[1] + v[1]) / 2)     # noqa: E731
        pts = [A, ctrl, P, mid(A, Cc), mid(P, Cc), Cc]
        t2 = [[q[0] for q in pts], [q[1] for q in pts]]
        if not jacobian_bernstein_positive(t2, 2):
            continue
        t2 = relabel_quadratic(t2, rnd.randint(0, 2))
        rot = rnd.randint(0, 3)
        sh = (Fr(rnd.randint(-3, 3)), Fr(rnd.randint(-3, 3)))

        def mv(rows):
            xs, ys = rows
            for _ in range(rot):
                xs, ys = [-y for y in ys], list(xs)
            return [[x + sh[0] for x in xs], [y + sh[1] for y in ys]]
        return mv(t1), mv(t2)
    raise RuntimeError("no corner-on-edge configuration generated")


def tangent_corner_on_curved_edge(rnd):
    """a valid quadratic triangle T1 whose first edge is the parabola y = a x^2 over [-w, w] (interior above it, apex (0, h))
    and a straight triangle T2 with a corner P ON the parabola, one edge of T2 leaving P along the tangent of the parabola
    (it lies outside T1: the parabola is convex) and the other edge entering the interior of T1: a tangential contact at a
    corner that is a genuine vertex of the common region.  Corners of T2 relabelled, both tangent directions, rotated by a
    multiple of 90 degrees and translated; all data dyadic."""
    for _ in range(400):
        a = Fr(rnd.choice([1, 1, 2, 1]), rnd.choice([1, 2, 4]))
        w = Fr(rnd.randint(2, 4), 2)
        h = a * w * w + Fr(rnd.randint(3, 8), 2)
        A, B, Cc = (-w, a * w * w), (w, a * w * w), (Fr(0), h)
        mid = lambda u, v: ((u[0] + v[0]) / 2, (u[1] + v[1]) / 2)     # noqa: E731
        pts = [A, (Fr(0), -a * w * w), B, mid(A, Cc), mid(B, Cc), Cc]
        t1 = [[q[0] for q in pts], [q[1] for q in pts]]
        if not jacobian_bernstein_positive(t1, 2):
            continue
        x0 = Fr(rnd.randint(-2, 2), 4) * w
        if abs(x0) >= w:
            continue
        P = (x0, a * x0 * x0)
        sgn = rnd.choice([1, -1])
        L = Fr(rnd.randint(2, 6), 2)
        Q = (P[0] + sgn * L, P[1] + sgn * L * 2 * a * x0)
        R = (P[0] + Fr(rnd.randint(-4, 4), 4), P[1] + Fr(rnd.randint(3, 10), 2))
        cr = K.cross(P, Q, R)
        if cr == 0:
            continue
        tri = [P, Q, R] if cr > 0 else [P, R, Q]
        k = rnd.randint(0, 2)
        tri = tri[k:] + tri[:k]
        t2 = [[q[0] for q in tri], [q[1] for q in tri]]
        rot = rnd.randint(0, 3)
        sh = (Fr(rnd.randint(-3, 3)), Fr(rnd.randint(-3, 3)))

        def mv(rows):
            xs, ys = rows
            for _ in range(rot):
                xs, ys = [-y for y in ys], list(xs)
            return [[x + sh[0] for x in xs], [y + sh[1] for y in ys]]
        return mv(t1), mv(t2)
    raise RuntimeError("no tangent-corner configuration generated")


def wavy_multi_region(rnd):
    """a triangle of degree n = 4..6 whose first edge is the graph of  amp * T_n(x / w) + delta  (T_n Chebyshev) over [-w, w]
    - it dips below y = 0 several times - with apex (0, h), against a straight triangle whose top edge runs along y = 0: the
    common region consists of SEVERAL disjoint lenses (2 or 3).  Control values are rounded to multiples of 1/64 (exact in binary64
    and on the oracle's lattice); argument order random."""
    from math import comb
    for _ in range(200):
        got = _wavy_try(rnd, comb)
        if got is not None and jacobian_bernstein_positive(got[0], got[1]):
            return got
    raise RuntimeError("no valid wavy triangle generated")


def _wavy_try(rnd, comb):
    n = rnd.choice([4, 6, 6])
    w, h = Fr(rnd.choice([2, 3, 4])), Fr(rnd.choice([6, 8, 12, 16]))
    amp, delta = Fr(rnd.choice([2, 3, 4, 5]), 16), Fr(rnd.choice([1, 2]), 16)
    if amp <= delta:
        return None
    cheb = [Fr((-1) ** (n - j) * comb(2 * n, 2 * j), comb(n, j)) for j in range(n + 1)]
    bottom = [amp * c + delta for c in cheb]
    A, B, Cc = (-w, Fr(0)), (w, Fr(0)), (Fr(0), h)
    xs, ys = [], []
    for k in range(n + 1):
        for j in range(n + 1 - k):
            i = n - j - k
            x = (i * A[0] + j * B[0] + k * Cc[0]) / n
            y = (i * A[1] + j * B[1] + k * Cc[1]) / n
            if k == 0:
                y += bottom[j]
            xs.append(Fr(round(x * 64), 64))          # coarse dyadic grid: the exact oracle works on a 2^-64 lattice
            ys.append(Fr(round(y * 64), 64))
    wavy = [xs, ys]
    ww = w + rnd.randint(1, 2)
    straight = [[-ww, Fr(0), ww], [Fr(0), -Fr(rnd.randint(3, 5)), Fr(0)]]
    return wavy, n, straight


def internal_tangency(rnd):
    """a valid cubic triangle OUTER with an S-shaped first edge (varying second derivative) and a small valid quadratic
    triangle INNER inside it that touches that edge from the inside at exactly one point: parameter 1/2 on the inner edge,
    t* != 1/2 on the outer edge (all coordinates dyadic, so the tangency is exact).  The common region is INNER."""
    for _ in range(2000):
        # corners on a coarse lattice, first edge bent into an S
        w, h = rnd.randint(5, 8), rnd.randint(5, 8)
        c0, c1, c2 = (Fr(0), Fr(0)), (Fr(w), Fr(0)), (Fr(rnd.randint(2, w - 2)), Fr(h))
        rows = [[], []]
        d = 3
        for k in range(d + 1):
            for j in range(d + 1 - k):
                i = d - j - k
                for r in range(2):
                    rows[r].append((i * c0[r] + j * c1[r] + k * c2[r]) / d)
        bump = Fr(rnd.randint(2, 6), 4)
        sgn = rnd.choice([1, -1])
        rows[1][1] -= sgn * bump                     # control points 1 and 2 of the first edge: down / up (S shape)
        rows[1][2] += sgn * bump / rnd.choice([4, 8])
        if not jacobian_bernstein_positive(rows, 3):
            continue
        ts = Fr(rnd.choice([1, 3, 5, 7]), 8) if rnd.random() < 0.7 else Fr(rnd.choice([1, 3]), 4)
        ex, ey = rows[0][:4], rows[1][:4]
        touch = (X.bern(ex, ts), X.bern(ey, ts))
        tan = (X.hodograph_exact(ex, ts), X.hodograph_exact(ey, ts))
        nrm = (-tan[1], tan[0])                      # points into OUTER (positively oriented)
        al, be, ga = Fr(1, rnd.choice([8, 16])), Fr(1, rnd.choice([256, 512])), Fr(1, rnd.choice([4, 8]))
        # in two cases out of three the curvature of the inner edge (2 be / (al^2 |T|)) is placed strictly between the
        # curvatures of the S-shaped edge at t* and at 1/2, so that the verdict depends on WHERE the outer curvature is taken
        if rnd.random() < 0.67:
            def kappa(u):
                d1 = (float(X.hodograph_exact(ex, u)), float(X.hodograph_exact(ey, u)))
                d2 = (float(X.second_deriv_exact(ex, u)), float(X.second_deriv_exact(ey, u)))
                return (d1[0] * d2[1] - d1[1] * d2[0]) / (d1[0] ** 2 + d1[1] ** 2) ** 1.5
            kt, kh = kappa(ts), kappa(Fr(1, 2))
            kmid = (kt + kh) / 2
            tl = (float(tan[0]) ** 2 + float(tan[1]) ** 2) ** 0.5
            if kmid > 0 and abs(kt - kh) > 1e-3:
                want = kmid * float(al) ** 2 * tl / 2
                m = max(3, min(14, round(-math.log2(want)))) if want > 0 else 8
                cand = [Fr(q, 2 ** (m + 3)) for q in range(1, 64)]
                lo, hi = sorted((kt, kh))
                good = [b_ for b_ in cand if lo < 2 * float(b_) / (float(al) ** 2 * tl) < hi]
                if good:
                    be = min(good, key=lambda b_: abs(float(b_) - want))
        # a CLEAN tangency only: the curvature of the inner edge must differ clearly from that of the outer edge at the
        # contact point (with nearly equal curvatures the two edges stay within rounding of each other over a stretch and
        # meet again nearby - not the single, well-conditioned contact this family is about)
        d1t = (float(tan[0]), float(tan[1]))
        d2t = (float(X.second_deriv_exact(ex, ts)), float(X.second_deriv_exact(ey, ts)))
        k_outer = (d1t[0] * d2t[1] - d1t[1] * d2t[0]) / (d1t[0] ** 2 + d1t[1] ** 2) ** 1.5
        k_inner = 2 * float(be) / (float(al) ** 2 * (d1t[0] ** 2 + d1t[1] ** 2) ** 0.5)
        if abs(k_inner - k_outer) < 0.4 * max(abs(k_inner), abs(k_outer)):
            continue
        a = (touch[0] - al * tan[0] + be * nrm[0], touch[1] - al * tan[1] + be * nrm[1])
        c = (touch[0] + al * tan[0] + be * nrm[0], touch[1] + al * tan[1] + be * nrm[1])
        ctrl = (touch[0] - be * nrm[0], touch[1] - be * nrm[1])
        apex = (touch[0] + ga * nrm[0], touch[1] + ga * nrm[1])
        mid = lambda u, v: ((u[0] + v[0]) / 2, (u[1] + v[1]) / 2)     # noqa: E731
        pts = [a, ctrl, c, mid(a, apex), mid(c, apex), apex]
        inner = [[q[0] for q in pts], [q[1] for q in pts]]
        if not jacobian_bernstein_positive(inner, 2):
            continue
        if not all(Z_f64(v) and (v * 2 ** 40).denominator == 1 for rr in (rows, inner) for row in rr for v in row):
            continue
        return rows, inner
    return None


def Z_f64(v):
    return Fr(float(v)) == v


def judge_curved(status, infos, contained, n1, d1, n2, d2, polys, depth):
    """-> (what, text) / (None, tag)"""
    if status == "NotImplementedError":
        return None, "refused"
    if status != "ok":
        return "raised-" + status, "raised %s%s" % (status, infos)
    e1, e2 = tri_edges(n1, d1), tri_edges(n2, d2)
    e6 = e1 + e2
    scale = max(abs(x) for r in n1 + n2 for x in r) + 1
    tol = TOL_CURVED * scale
    try:
        lo, hi, (pa, ea, pb, eb) = K.curved_common_area(e1, e2, depth, BITS)
    except K.Degenerate as exc:
        return None, "skipped-degenerate"
    if infos is None:
        inner = e1 if contained else e2
        a = sum(green_exact(e[0], e[1]) for e in inner)
        if not (lo - tol <= a <= hi + tol):
            return "wrong-area", "reported triangle %d contained (area %.6g), common area in [%.6g, %.6g]" % (1 if contained else 2, float(a), float(lo), float(hi))
        return None, "contained"
    if infos == "unexpected-object":
        return "bad-structure", "unexpected object in the returned list"
    why, regs, soft = structure(infos, e6, tol)
    if why or soft:
        return "bad-structure", why or soft
    tot = Fr(0)
    reg_polys = []
    for pts, segs in regs:
        sub = [tuple(X.specialize_exact(r, a, b) for r in e6[i]) for i, a, b in segs]
        a = sum(green_exact(e[0], e[1]) for e in sub)
        if a <= 0:
            return "bad-structure", "region not positively oriented (area %.6g)" % float(a)
        tot += a
        rp, re_ = K.boundary_polyline(sub, 3)
        reg_polys.append((K.to_int_poly(rp, BITS, exact=False), (re_ + tol) * (1 << BITS) + 1))
    if not (lo - tol * scale <= tot <= hi + tol * scale):
        return "wrong-area", "total area %.9g of %d region(s), certified common area in [%.9g, %.9g]" % (float(tot), len(regs), float(lo), float(hi))
    if polys is not None:
        why = check_polys(polys, infos, e6, tol)
        if why:
            return "bad-structure", why
    # membership of dyadic sample points (integer coordinates on the 2^-BITS grid)
    sc = 1 << BITS
    xs = [p[0] for p in pa + pb]
    ys = [p[1] for p in pa + pb]
    x0, x1, y0, y1 = min(xs), max(xs), min(ys), max(ys)
    G = 9
    for a in range(1, G):
        for b in range(1, G):
            p = (x0 + (x1 - x0) * a // G + 12345, y0 + (y1 - y0) * b // G + 4321)
            ia = K.inside_curved(p, pa, ea)
            ib = K.inside_curved(p, pb, eb)
            if ia is None or ib is None:
                continue
            ins = []
            for poly, eps in reg_polys:
                ins.append(K.inside_curved(p, poly, eps))
            if any(v is None for v in ins):
                continue
            if any(ins) != (ia and ib):
                return "wrong-region", "sample point (%s, %s): in a returned region = %s, in both inputs = %s" % (Fr(p[0], sc), Fr(p[1], sc), any(ins), ia and ib)
    return None, "regions-%d" % len(regs)


def green_exact(xs, ys):
    px, py = X.bern_to_power(xs), X.bern_to_power(ys)
    a = X.poly_int01(X.poly_mul(px, X.poly_deriv(py)))
    b = X.poly_int01(X.poly_mul(py, X.poly_deriv(px)))
    return (a - b) / 2


def algebraic_misses(n1, d1, n2, d2):
    """root-cause probe for a failure of the ALGEBRAIC strategy: an edge pair for which the algebraic curve-curve
    intersection returns fewer intersections than the geometric one -> (i, j, n_algebraic, n_geometric) or None"""
    from bezier.hazmat import algebraic_intersection as AI
    from bezier.hazmat import geometric_intersection as GI
    from bezier.hazmat import triangle_helpers as TH
    e1 = TH.compute_edge_nodes(C.farr(n1), d1)
    e2 = TH.compute_edge_nodes(C.farr(n2), d2)
    for i, a in enumerate(e1):
        for j, b in enumerate(e2):
            try:
                na = AI.all_intersections(a, b)[0].shape[1]
                ng = GI.all_intersections(a, b)[0].shape[1]
            except Exception:  # noqa
                continue
            if na < ng:
                return (i, j, na, ng)
    return None


def tangency_key(what, text):
    """failure key of the internal-tangency family: the documented limitation of the tangent handling (two contacts of the same
    edge pair classified TANGENT_FIRST and TANGENT_SECOND => ValueError 'types should all match') has its own key"""
    if "types should all match" in text:
        return "tangency:mixed-tangent-types"
    return "tangency:" + what


def run_curved(n1, d1, n2, d2, entry, strategy, depth=4):
    polys = None
    if entry == "function":
        status, infos, contained = call_function(n1, d1, n2, d2)
    else:
        status, infos, contained, polys = call_api(n1, d1, n2, d2, S["STRAT"][strategy])
    what, text = judge_curved(status, infos, contained, n1, d1, n2, d2, polys, depth)
    if what is None and text not in ("refused", "skipped-degenerate"):
        # argument order: same status and the same total area
        if entry == "function":
            st2, in2, co2 = call_function(n2, d2, n1, d1)
            po2 = None
        else:
            st2, in2, co2, po2 = call_api(n2, d2, n1, d1, S["STRAT"][strategy])
        w2, t2 = judge_curved(st2, in2, co2, n2, d2, n1, d1, po2, depth)
        if w2 is not None:
            what, text = "order-dependent", "intersect(A, B) passes but intersect(B, A) does not: " + t2
    if what is not None and strategy == "algebraic":
        # narrow the key to the root cause when the geometric strategy is right on the same input
        gw, gt = judge_curved(*call_function(n1, d1, n2, d2), n1, d1, n2, d2, None, depth)
        miss = algebraic_misses(n1, d1, n2, d2) or (lambda m: m and (m[1], m[0], m[2], m[3]))(algebraic_misses(n2, d2, n1, d1))
        if gw is None and miss:
            text = "algebraic curve-curve intersection of edge %d of the first with edge %d of the second triangle finds %d instead of %d " \
                   "intersection(s) (the geometric strategy is right on this input); consequence: %s: %s" % (miss + (what, text))
            what = "algebraic-missed-edge-intersection"
    return what, text


# ------------------------------------------------------------------ no edge meets an edge: nested or disjoint (c06nest)
def exact_nocontact(n1, d1, n2, d2):
    """exact verdict for a pair whose boundaries are separated: the enclosure of the common area is a point.
    -> (expect, area1, area2, common) with expect in 'first-inside', 'second-inside', 'disjoint', or None (not decided:
    the enclosure is not a point / neither triangle is the common region / degenerate position)"""
    e1, e2 = tri_edges(n1, d1), tri_edges(n2, d2)
    a1 = sum(green_exact(e[0], e[1]) for e in e1)
    a2 = sum(green_exact(e[0], e[1]) for e in e2)
    try:
        lo, hi, _ = K.curved_common_area(e1, e2, 4, BITS)
    except K.Degenerate:
        return None, a1, a2, None
    if lo != hi:
        return None, a1, a2, None
    if lo == 0:
        return "disjoint", a1, a2, lo
    if lo == a1 and a1 < a2:
        return "first-inside", a1, a2, lo
    if lo == a2 and a2 < a1:
        return "second-inside", a1, a2, lo
    return None, a1, a2, lo


def judge_nocontact(status, infos, contained, polys, expect, first, n1, d1, n2, d2):
    """one call on a pair with an exact verdict (`expect` is stated for the ORIGINAL order; first = this call has the original
    order).  The clauses of the property used: "Disjoint inputs give an empty list and containment returns the inner triangle
    itself".  A non-empty list of regions is handed to the general curved judge (area, membership, structure)."""
    if status == "NotImplementedError":
        return None, "refused"
    if status != "ok":
        return "raised-" + status, "raised %s%s" % (status, infos)
    if expect != "disjoint":
        inner_is_first = (expect == "first-inside") == first
        if infos is None:
            if contained not in (True, False):
                return "bad-structure", "edge_infos None with contained=%r" % (contained,)
            if bool(contained) != inner_is_first:
                return "wrong-triangle-reported", "the %s triangle is reported as the contained one, but it is the OUTER one" % ("first" if contained else "second")
            return None, "contained"
        if infos == []:
            return "contained-reported-disjoint", "an empty list is returned (disjoint) although the %s triangle lies strictly inside the other one" % \
                ("first" if inner_is_first else "second")
    else:
        if infos is None:
            return "disjoint-reported-contained", "the %s triangle is reported as contained in the other although the two are disjoint" % \
                ("first" if contained else "second")
        if infos == []:
            return None, "empty"
    if first:
        return judge_curved(status, infos, contained, n1, d1, n2, d2, polys, 4)
    return judge_curved(status, infos, contained, n2, d2, n1, d1, polys, 4)


def run_nocontact(n1, d1, n2, d2, entry, strategy, verdict=None):
    """both argument orders of one entry point on a no-contact pair -> (what, text, expect)"""
    expect, a1, a2, common = verdict or exact_nocontact(n1, d1, n2, d2)
    if expect is None:
        what, text = run_curved(n1, d1, n2, d2, entry, strategy)          # not a separated pair: the general judge decides
        return what, text, "undecided"
    facts = "exact areas %s and %s, exact common area %s (%s)" % (a1, a2, common, {"disjoint": "disjoint", "first-inside": "the first lies strictly inside the second",
                                                                                  "second-inside": "the second lies strictly inside the first"}[expect])
    outcome = []
    for first in (True, False):
        m1, e1, m2, e2 = (n1, d1, n2, d2) if first else (n2, d2, n1, d1)
        polys = None
        if entry == "function":
            status, infos, contained = call_function(m1, e1, m2, e2)
        else:
            status, infos, contained, polys = call_api(m1, e1, m2, e2, S["STRAT"][strategy])
        what, text = judge_nocontact(status, infos, contained, polys, expect, first, n1, d1, n2, d2)
        if what is not None:
            if not first and outcome and outcome[0] not in ("refused",):
                return "order-dependent", "intersect(A, B) is right (%s) but intersect(B, A) is not: %s; %s" % (outcome[0], text, facts), expect
            return what, ("" if first else "arguments swapped: ") + text + "; " + facts, expect
        outcome.append(text)
    return None, outcome[0] if outcome[0] == outcome[1] else "%s/%s" % tuple(outcome), expect



# ------------------------------------------------------------------ decision trace (pure configuration)
class Trace:
    """recording wrappers around the hazmat decision functions (module globals, run time only)"""

    def __init__(self):
        from bezier.hazmat import triangle_helpers as TH
        from bezier.hazmat import triangle_intersection as PTI
        from bezier.hazmat import geometric_intersection as GI
        from bezier.hazmat import curve_helpers as CH
        self.TH, self.PTI, self.GI, self.CH = TH, PTI, GI, CH
        self.calls = {}
        self.saved = []
        self.total = 0
        self.active = False

    def put(self, op, key, payload):
        self.total += 1
        if (op, key) not in self.calls:
            self.calls[(op, key)] = payload

    @staticmethod
    def inter(x):
        return (x.index_first, x.s, x.index_second, x.t, None if x.interior_curve is None else x.interior_curve.value)

    def install(self):
        TH, PTI, GI = self.TH, self.PTI, self.GI
        tr = self

        def wrap(mod, name, make):
            orig = getattr(mod, name)
            self.saved.append((mod, name, orig))
            setattr(mod, name, make(orig))

        def mk_handle_ends(orig):
            def f(index1, s, index2, t):
                out = orig(index1, s, index2, t)
                tr.put("handle_ends", (index1, float(s), index2, float(t)), out)
                return out
            return f

        def mk_classify(orig):
            def f(intersection, edge_nodes1, edge_nodes2):
                args = (intersection.index_first, float(intersection.s), intersection.index_second, float(intersection.t),
                        tuple(None if e is None else tuple(map(tuple, np.asarray(e).tolist())) for e in edge_nodes1),
                        tuple(None if e is None else tuple(map(tuple, np.asarray(e).tolist())) for e in edge_nodes2))
                try:
                    out = orig(intersection, edge_nodes1, edge_nodes2)
                except Exception as exc:  # noqa
                    tr.put("classify_intersection", args, ("err", type(exc).__name__))
                    raise
                tr.put("classify_intersection", args, ("ok", out.value))
                return out
            return f

        def mk_coincident(orig):
            def f(st_vals, coincident):
                out = orig(st_vals, coincident)
                if coincident:
                    tr.put("classify_coincident", (tuple(map(tuple, np.asarray(st_vals).tolist())), True), None if out is None else out.value)
                else:
                    tr.put("classify_coincident", ((), False), None if out is None else out.value)
                return out
            return f

        def mk_should_use(orig):
            def f(intersection):
                out = orig(intersection)
                tr.put("should_use", tr.inter(intersection), bool(out))
                return out
            return f

        def mk_to_front(orig):
            def f(intersection, intersections, unused):
                pos = {id(x): i for i, x in enumerate(intersections)}
                before = [pos.get(id(u), -1) for u in unused]
                key = (tr.inter(intersection), tuple(tr.inter(x) for x in intersections), tuple(before))
                out = orig(intersection, intersections, unused)
                after = [pos.get(id(u), -1) for u in unused]
                if out is not intersection and id(out) in pos:
                    res = ("existing", pos[id(out)], tuple(after))
                else:
                    res = ("other", tr.inter(out), tuple(after))
                if -1 not in before:
                    tr.put("to_front", key, res)
                return out
            return f

        def mk_ends(orig):
            def f(start_node, end_node):
                key = (tr.inter(start_node), tr.inter(end_node))
                try:
                    out = orig(start_node, end_node)
                except ValueError:
                    tr.put("ends_to_curve", key, ("err", "ValueError"))
                    raise
                tr.put("ends_to_curve", key, ("ok", (out[0], float(out[1]), float(out[2]))))
                return out
            return f

        def mk_verify(orig):
            def f(edge_infos):
                if edge_infos is None:
                    return orig(edge_infos)
                key = tuple(tuple((int(i), float(a), float(b)) for i, a, b in reg) for reg in edge_infos)
                try:
                    out = orig(edge_infos)
                except ValueError:
                    tr.put("verify_edge_segments", key, "err")
                    raise
                tr.put("verify_edge_segments", key, "ok")
                return out
            return f

        def mk_bbox(orig):
            def f(nodes1, nodes2):
                out = orig(nodes1, nodes2)
                a1, a2 = np.asarray(nodes1), np.asarray(nodes2)
                if a1.shape[0] == 2 and a2.shape[0] == 2 and a1.shape[1] <= 15 and a2.shape[1] <= 15:
                    tr.put("bbox_intersect", (tuple(map(tuple, a1.tolist())), tuple(map(tuple, a2.tolist()))), int(out))
                return out
            return f

        wrap(TH, "handle_ends", mk_handle_ends)
        wrap(TH, "classify_intersection", mk_classify)
        wrap(PTI, "classify_coincident", mk_coincident)
        wrap(PTI, "should_use", mk_should_use)
        wrap(TH, "to_front", mk_to_front)
        wrap(TH, "ends_to_curve", mk_ends)
        wrap(PTI, "verify_edge_segments", mk_verify)
        wrap(GI, "bbox_intersect", mk_bbox)
        self.active = True

    def remove(self):
        for mod, name, orig in reversed(self.saved):
            setattr(mod, name, orig)
        self.saved = []
        self.active = False

    # ---- replay through the model
    @staticmethod
    def opt(v):
        return [] if v is None else [v]

    def enc_inter(self, t):
        return [self.opt(t[0]), self.opt(t[1]), self.opt(t[2]), self.opt(t[3]), self.opt(t[4])]

    def replay(self, res, thr):
        CH = self.CH
        drv = C.Driver()
        plan = []
        err_name = {"ValueError": "valueError", "NotImplementedError": "notImplemented"}
        for (op, key), out in self.calls.items():
            if op == "handle_ends":
                plan.append((op, key, out, drv.ask("handle_ends", key[0], key[1], key[2], key[3]), None))
            elif op == "classify_coincident":
                st = [list(r) for r in key[0]] if key[1] else [[0, 0], [0, 0]]
                plan.append((op, key, out, drv.ask("classify_coincident", st, key[1]), None))
            elif op == "should_use":
                plan.append((op, key, out, drv.ask("should_use", self.enc_inter(key)), None))
            elif op == "to_front":
                plan.append((op, key, out, drv.ask("to_front", self.enc_inter(key[0]), [self.enc_inter(x) for x in key[1]], list(key[2])), None))
            elif op == "ends_to_curve":
                plan.append((op, key, out, drv.ask("ends_to_curve", self.enc_inter(key[0]), self.enc_inter(key[1])), None))
            elif op == "verify_edge_segments":
                plan.append((op, key, out, drv.ask("verify_edge_segments", [[list(sg) for sg in reg] for reg in key]), None))
            elif op == "bbox_intersect":
                plan.append((op, key, out, drv.ask("bbox_intersect", [list(r) for r in key[0]], [list(r) for r in key[1]]), None))
            elif op == "classify_intersection":
                i1, s, i2, t, e1, e2 = key
                if any(e is None for e in e1 + e2):
                    continue
                ed1 = [np.asfortranarray(e) for e in e1]
                ed2 = [np.asfortranarray(e) for e in e2]
                # the tangents exactly as the implementation computes them (same routine, same inputs)
                t1 = CH.evaluate_hodograph(s, ed1[i1]).ravel(order="F")
                t2 = CH.evaluate_hodograph(t, ed2[i2]).ravel(order="F")
                q1 = CH.evaluate_hodograph(1.0, ed1[(i1 - 1) % 3]).ravel(order="F")
                q2 = CH.evaluate_hodograph(1.0, ed2[(i2 - 1) % 3]).ravel(order="F")
                tv = [[Fr(float(v)) for v in vec] for vec in (t1, t2, q1, q2)]
                cps = []
                nq1, nq2 = [-x for x in tv[2]], [-x for x in tv[3]]
                for u, v in ((tv[0], tv[1]), (tv[1], tv[0]), (tv[1], nq1), (tv[0], nq2), (tv[2], tv[1]), (tv[0], nq2), (tv[2], nq2)):
                    cps.append((u[0] * v[1], u[1] * v[0]))
                clear = all(a == b or abs(a - b) > Fr(1, 2 ** 44) * (abs(a) + abs(b)) for a, b in cps)
                lines = all(len(e[0]) == 2 for e in e1 + e2)
                j = drv.ask("classify_tangents", s, t, tv[0], tv[1], tv[2], tv[3], 0, tv[0][0] ** 2 + tv[0][1] ** 2, 0, tv[1][0] ** 2 + tv[1][1] ** 2) if lines else None
                dy = all(Fr(v).denominator <= 2 ** 20 for v in (s, t))
                j2 = drv.ask("classify_intersection", thr, i1, s, i2, t, [[list(r) for r in e] for e in e1], [[list(r) for r in e] for e in e2]) if dy else None
                plan.append((op, key, out, j, (j2, clear)))
        replies = drv.run() if drv.lines else []
        n_cmp = 0
        for op, key, out, j, extra in plan:
            n_cmp += 1
            if op == "classify_intersection":
                j2, clear = extra
                want = ("ok", [Fr(out[1])]) if out[0] == "ok" else ("err", err_name.get(out[1], out[1]))
                for jj, nm in ((j, "classify_tangents"), (j2, "classify_intersection")):
                    if jj is None:
                        continue
                    st, val = replies[jj]
                    got = ("ok", [val]) if st == "ok" else ("err", val)
                    if got != want:
                        if not clear:
                            res.skip("trace: classify decision within rounding of a tie (not compared)")
                        else:
                            res.mismatch(nm, {"args": repr(key)[:600]}, repr(out), repr(replies[jj]), "recorded call of the pure-Python run vs model")
                continue
            st, val = replies[j]
            if op == "handle_ends":
                want = [Fr(int(out[0])), Fr(int(out[1])), Fr(out[2][0]), Fr(float(out[2][1])), Fr(out[2][2]), Fr(float(out[2][3]))]
                ok = st == "ok" and val == want
            elif op == "classify_coincident":
                ok = st == "ok" and val == ([] if out is None else [Fr(out)])
            elif op == "should_use":
                ok = st == "ok" and val == Fr(int(out))
            elif op == "to_front":
                if out[0] == "existing":
                    want = [Fr(0), Fr(out[1]), [Fr(x) for x in out[2]]]
                else:
                    want = [Fr(1), [[Fr(float(v))] if v is not None else [] for v in out[1]], [Fr(x) for x in out[2]]]
                ok = st == "ok" and val == want
            elif op == "ends_to_curve":
                if out[0] == "ok":
                    ok = st == "ok" and val == [Fr(out[1][0]), Fr(out[1][1]), Fr(out[1][2])]
                else:
                    ok = st == "err" and val == "valueError"
            elif op == "verify_edge_segments":
                ok = (st == "ok") == (out == "ok") and (st == "ok" or val == "valueError")
            elif op == "bbox_intersect":
                ok = st == "ok" and val == Fr(out)
            else:
                ok = True
            if not ok:
                res.mismatch(op, {"args": repr(key)[:600]}, repr(out), repr((st, val)), "recorded call of the pure-Python run vs model")
        return n_cmp


def decision_lattice(res, thr):
    """exhaustive tie lattice for the corner logic: two straight triangles sharing the corner (0,0) (double corner),
    and a corner of the second in the middle of an edge of the first; real (pure-Python) classify_intersection
    vs the model.  Same code in both package trees."""
    from bezier.hazmat import triangle_helpers as TH
    from bezier.hazmat.intersection_helpers import Intersection
    dirs = [(x, y) for x in (-1, 0, 1) for y in (-1, 0, 1) if (x, y) != (0, 0)] + [(2, 1), (-1, 2)]
    drv = C.Driver()
    plan = []

    def edges(o, a, b):
        pts = [o, a, b]
        return [np.asfortranarray([[float(pts[i][0]), float(pts[(i + 1) % 3][0])], [float(pts[i][1]), float(pts[(i + 1) % 3][1])]]) for i in range(3)]
    cases = []
    for a in dirs:
        for b in dirs:
            if K.cross((0, 0), a, b) <= 0:
                continue
            for c in dirs:
                for d in dirs:
                    if K.cross((0, 0), c, d) <= 0:
                        continue
                    cases.append(((0, 0), a, b, (0, 0), c, d, 0, 0.0, 0, 0.0))
    # corner of triangle 2 at the middle of edge 0 of triangle 1: triangle 1 = (-a, a, b'), s = 1/2
    for a in dirs:
        for b in dirs:
            if K.cross((-a[0], -a[1]), a, b) <= 0:
                continue
            for c in dirs:
                for d in dirs:
                    if K.cross((0, 0), c, d) <= 0:
                        continue
                    cases.append(((-a[0], -a[1]), a, b, (0, 0), c, d, 0, 0.5, 0, 0.0))
                    cases.append(((0, 0), c, d, (-a[0], -a[1]), a, b, 0, 0.0, 0, 0.5))
    for o1, a, b, o2, c, d, i1, s, i2, t in cases:
        e1, e2 = edges(o1, a, b), edges(o2, c, d)
        try:
            out = ("ok", TH.classify_intersection(Intersection(i1, s, i2, t), e1, e2).value)
        except NotImplementedError:
            out = ("err", "notImplemented")
        except ValueError:
            out = ("err", "valueError")
        j = drv.ask("classify_intersection", thr, i1, s, i2, t, [e.tolist() for e in e1], [e.tolist() for e in e2])
        plan.append(((o1, a, b, o2, c, d, s, t), out, j))
    replies = drv.run()
    for key, out, j in plan:
        st, val = replies[j]
        got = ("ok", int(val)) if st == "ok" else ("err", val)
        res.count(("decision", key), kind="decision-lattice", outcome=str(out[1]))
        if got != out:
            res.mismatch("classify_intersection", {"case": repr(key)}, repr(out), repr(got), "tie lattice of corner configurations")
    return len(cases)


# ------------------------------------------------------------------ exhaustive dump of the failing keys
def _dump_worker(job):
    n, i, deg, strategy = job
    tris = S["tris"][n]
    t1 = tris[i]
    out = []
    entry = "function" if strategy == "geometric" else "api"
    for t2 in tris:
        what, text, tag, bb = run_lattice(n, t1, t2, deg, entry, strategy, membership=(n == 3))
        if what is not None:
            out.append(lat_key(n, t1, t2, what, deg, strategy))
    return out


def dump(cfg):
    import multiprocessing as mp
    spaces = os.environ.get("VERIF_C06_SPACES", "lat3,elevated,algebraic,lat4").split(",")
    procs = int(os.environ.get("VERIF_C06_PROCS", "16"))
    S["tris"] = {3: lattice_tris(3), 4: lattice_tris(4)}
    plan = {"lat3": [(3, 1, "geometric")], "elevated": [(3, 2, "geometric"), (3, 3, "geometric")],
            "algebraic": [(3, 1, "algebraic")], "lat4": [(4, 1, "geometric")]}
    ctx = mp.get_context("fork")
    known = os.path.join(C.VERIF, "known")
    os.makedirs(known, exist_ok=True)
    for sp in spaces:
        t0 = time.time()
        jobs = [(n, i, deg, strat) for n, deg, strat in plan[sp] for i in range(len(S["tris"][n]))]
        with ctx.Pool(procs) as pool:
            keys = [k for ks in pool.map(_dump_worker, jobs, chunksize=1) for k in ks]
        keys.sort()
        path = os.path.join(known, "C06-%s-%s.txt" % (sp, cfg))
        counts = {}
        for k in keys:
            w = k.split(":", 2)[2]
            counts[w] = counts.get(w, 0) + 1
        with open(path, "w") as fh:
            fh.write("# failing keys of C06 on the %s space, configuration %s, unchanged tree; exhaustive enumeration (VERIF_C06_DUMP=1)\n" % (sp, cfg))
            fh.write("# counts: %s\n" % ", ".join("%s=%d" % kv for kv in sorted(counts.items())))
            for k in keys:
                fh.write(k + "\n")
        print("dump %s %s: %d failing keys in %.1fs  %s" % (sp, cfg, len(keys), time.time() - t0, counts), flush=True)


def load_known(cfg):
    """the enumerated known failures (known/C06-*-<cfg>.txt).  Used ONLY to decide which failures are written out in
    full: Result keeps at most 200 failure records, so keys that are not listed (potential violations) go first and
    listed ones are represented by a few records per file; every failure is counted in dist['failure_keys']."""
    import glob
    out = {}
    for path in sorted(glob.glob(os.path.join(C.VERIF, "known", "C06-*-%s.txt" % cfg))):
        with open(path) as fh:
            for line in fh:
                line = line.strip()
                if line and not line.startswith("#"):
                    out[line] = os.path.basename(path)
    return out


class Failures:
    def __init__(self, res, known, per_file=6):
        self.res, self.known, self.per_file = res, known, per_file
        self.used = {}

    def add(self, key, what, replay):
        src = self.known.get(key)
        if src is None or self.used.get(src, 0) < self.per_file:
            if src is not None:
                self.used[src] = self.used.get(src, 0) + 1
            self.res.failure(key, what, replay)
        else:
            d = self.res.dist.setdefault("failure_keys", {})
            d[key] = d.get(key, 0) + 1
            k = self.res.dist.setdefault("listed_failures_not_written_out", {})
            k[src] = k.get(src, 0) + 1


# ------------------------------------------------------------------ main
def main():
    bezier = C.import_bezier()
    from bezier import _triangle_intersection as TI
    from bezier.hazmat.intersection_helpers import IntersectionStrategy
    S["bezier"] = bezier
    S["TI"] = TI
    S["STRAT"] = {"geometric": IntersectionStrategy.GEOMETRIC, "algebraic": IntersectionStrategy.ALGEBRAIC}
    cfg = C.config_name()
    if os.environ.get("VERIF_C06_DUMP"):
        return dump(cfg)
    rnd, seed = C.rng()
    thorough = C.tier() == "thorough"
    search = bool(os.environ.get("VERIF_SEARCH"))
    res = C.Result("C06")
    fails = Failures(res, load_known(cfg))
    rep = C.replay_case()
    thr = C.generated("py_curve_vs_threshold" if cfg == "pure" else "f90_curve_vs_threshold", 55)
    t_start = time.time()

    # ---------------- replay of one case
    if rep:
        if rep["kind"] == "lat":
            what, text, tag, bb = run_lattice(rep["n"], tparse(rep["t1"]), tparse(rep["t2"]), rep["deg"], rep["entry"], rep["strategy"])
        elif rep["kind"] == "nocontact":
            n1 = [[Fr(x) for x in r] for r in rep["n1"]]
            n2 = [[Fr(x) for x in r] for r in rep["n2"]]
            what, text, _ = run_nocontact(n1, rep["d1"], n2, rep["d2"], rep["entry"], rep["strategy"])
        else:
            n1 = [[Fr(x) for x in r] for r in rep["n1"]]
            n2 = [[Fr(x) for x in r] for r in rep["n2"]]
            what, text = run_curved(n1, rep["d1"], n2, rep["d2"], rep["entry"], rep["strategy"])
        print("replay: " + ("property fails on this input: %s: %s" % (what, text) if what else "property holds on this input (%s)" % text))
        sys.exit(1 if what else 0)

    parts = os.environ.get("VERIF_C06_PARTS", "nocontact,lattice,decision,curved").split(",")     # debugging aid

    # ---------------- no edge meets an edge: nested / disjoint pairs whose control nets mislead (harness/c06nest.py).
    # Run FIRST and on a CPU-time budget (not wall time): on a loaded machine the lattice bulk below uses up the wall-time
    # budgets of the later curved families; the first N_MIN cases run unconditionally.  Own PRNG derived from the seed, so
    # that the sampled lattice / curved cases of a seed stay what they were.
    import random as _random
    nc_rnd = _random.Random(C.rng()[0].getrandbits(64) ^ 0x6E6F63)
    n_nc = (1500 if thorough else 90) * (2 if search else 1)
    if "nocontact" not in parts:
        n_nc = 0
    N_MIN, cpu0, nc_written = 12, time.process_time(), {}
    for k in range(n_nc):
        if not thorough and k >= N_MIN and time.process_time() - cpu0 > 20.0:
            res.skip("cpu budget: remaining no-contact cases not run")
            continue
        cs = NC.case(nc_rnd, k)
        n1, d1, n2, d2 = cs["n1"], cs["d1"], cs["n2"], cs["d2"]
        verdict = exact_nocontact(n1, d1, n2, d2)
        modes = [("function", "geometric"), ("api", "algebraic")]
        if k % 3 == 0:
            modes.append(("api", "geometric"))
        for entry, strategy in modes:
            what, text, expect = run_nocontact(n1, d1, n2, d2, entry, strategy, verdict)
            res.count(("nocontact", str(n1), str(n2), entry, strategy), nontrivial=True, space="nocontact-%s-%s" % (entry, strategy),
                      degrees="%d,%d" % (d1, d2), outcome=(what or text), nocontact_family=cs["family"], nocontact_expect=expect,
                      **{"nocontact_" + t: v for t, v in cs["tags"].items()})
            if what is not None:
                key = "nocontact:" + what + ("" if strategy == "geometric" else ":" + strategy)
                nc_written[key] = nc_written.get(key, 0) + 1
                if nc_written[key] > 8:
                    # Result keeps 200 failure records: a few witnesses per class are written out, every failure is counted
                    fk = res.dist.setdefault("failure_keys", {})
                    fk[key] = fk.get(key, 0) + 1
                    continue
                fails.add(key, "no edge meets an edge (%s pair, degrees %d and %d, %s; %s strategy, %s level): %s" %
                          (cs["family"], d1, d2, ", ".join("%s=%s" % kv for kv in sorted(cs["tags"].items())), strategy, entry, text),
                          {"kind": "nocontact", "n1": C.jfr(n1), "d1": d1, "n2": C.jfr(n2), "d2": d2, "entry": entry, "strategy": strategy})
            elif k < 2 and entry == "function":
                res.sample({"kind": "nocontact", "family": cs["family"], "tags": cs["tags"], "degrees": [d1, d2], "expect": expect, "outcome": text})
    t_nc = time.time() - t_start
    cpu_nc = time.process_time() - cpu0
    t_start = time.time()          # the wall-time budgets of the families below are what they were before this family was added

    tris3, tris4 = lattice_tris(3), lattice_tris(4)
    res.notes.append("positively oriented lattice triangles: 3x3: %d (%d ordered pairs), 4x4: %d (%d ordered pairs)" %
                     (len(tris3), len(tris3) ** 2, len(tris4), len(tris4) ** 2))
    witness = (((0, 0), (1, 0), (0, 2)), ((0, 1), (1, 0), (2, 0)))

    # ---------------- plan of lattice cases: (n, t1, t2, deg, entry, strategy)
    plan = []
    all3 = [(a, b) for a in tris3 for b in tris3]
    plan += [(3, a, b, 1, "function", "geometric") for a, b in all3]          # exhaustive in both configurations
    plan.append((3, witness[0], witness[1], 1, "function", "geometric"))
    if thorough:
        plan += [(4, a, b, 1, "function", "geometric") for a in tris4 for b in tris4]
        plan += [(3, a, b, d, "function", "geometric") for d in (2, 3) for a, b in all3]
        plan += [(3, a, b, 1, "api", "algebraic") for a, b in all3]
        plan += [(3, a, b, 1, "api", "geometric") for a, b in rnd.sample(all3, 1500)]
    else:
        ne = 600 if cfg == "speedup" else 150
        for d in (2, 3):
            plan += [(3, a, b, d, "function", "geometric") for a, b in rnd.sample(all3, ne)]
        plan += [(3, a, b, 1, "api", "algebraic") for a, b in rnd.sample(all3, 400 if cfg == "speedup" else 200)]
        plan += [(3, a, b, 1, "api", "geometric") for a, b in rnd.sample(all3, 400 if cfg == "speedup" else 200)]
        n4 = 10000 if cfg == "speedup" else 6000
        if search:
            n4 *= 2
        plan += [(4, rnd.choice(tris4), rnd.choice(tris4), 1, "function", "geometric") for _ in range(n4)]      # sampled, last
    if "lattice" not in parts:
        plan = []

    trace = Trace() if cfg == "pure" else None
    if trace:
        trace.install()
    budget = None if thorough else 80.0
    done = 0
    for n, t1, t2, deg, entry, strategy in plan:
        if budget is not None and n == 4 and time.time() - t_start > budget:
            res.skip("time budget: sampled 4x4 pair not run")
            continue
        if trace and (deg != 1 or strategy != "geometric") and trace.active:
            trace.remove()          # the trace covers the degree-1 geometric runs (exact comparisons)
        elif trace and deg == 1 and strategy == "geometric" and not trace.active:
            trace.install()
        mem = (n == 3) or rnd.random() < 0.05
        what, text, tag, bb = run_lattice(n, t1, t2, deg, entry, strategy, membership=mem)
        done += 1
        res.count(("lat", n, t1, t2, deg, entry, strategy), nontrivial=bb, space="lat%d-deg%d-%s-%s" % (n, deg, entry, strategy),
                  outcome=tag, vertex_on_boundary=vertex_on_boundary(t1, t2))
        if what is not None:
            fails.add(lat_key(n, t1, t2, what, deg, strategy),
                        "lattice triangles %s x %s (%dx%d grid, degree %d, %s strategy, %s level): %s" % (t1, t2, n, n, deg, strategy, entry, text),
                        {"kind": "lat", "n": n, "t1": tkey(t1), "t2": tkey(t2), "deg": deg, "entry": entry, "strategy": strategy})
        elif bb and tag.startswith("polygon"):
            res.sample({"kind": "lattice", "t1": str(t1), "t2": str(t2), "degree": deg, "outcome": tag})
    if trace:
        trace.remove()
        ncmp = trace.replay(res, thr)
        res.notes.append("decision trace: %d recorded calls of the pure-Python run, %d distinct replayed through the model" % (trace.total, ncmp))
        res.dist["trace_ops"] = {}
        for (op, _k) in trace.calls:
            res.dist["trace_ops"][op] = res.dist["trace_ops"].get(op, 0) + 1
    if "decision" in parts:
        nd = decision_lattice(res, thr)
        res.notes.append("corner tie lattice: %d configurations of classify_intersection compared with the model" % nd)

    # ---------------- curved triangles in general position
    n_curved = (60 if cfg == "speedup" else 30) if not thorough else (600 if cfg == "speedup" else 200)
    if search:
        n_curved *= 2
    if "curved" not in parts:
        n_curved = 0
    t_curved = time.time()
    for k in range(n_curved):
        if not thorough and time.time() - t_start > 130:
            res.skip("time budget: remaining curved cases not run")
            break
        d1, d2 = rnd.randint(1, 4), rnd.randint(1, 4)
        n1, n2 = random_curved(rnd, d1), random_curved(rnd, d2)
        is_tangency = False
        if k % 5 == 1:
            # no edge meets an edge, and the control points mislead: a bulged quadratic inside the straight triangle that
            # its edge control points stick out of / a small straight triangle around one of those control points
            # (disjoint from the curved triangle although inside its control-point box); either argument order
            bq, outer, small = bulged_quadratic(rnd)
            if (k // 5) % 2 == 0:
                n1, d1, n2, d2 = outer, 1, bq, 2
            else:
                n1, d1, n2, d2 = rnd.choice(small), 1, bq, 2
            if rnd.random() < 0.5:
                n1, d1, n2, d2 = n2, d2, n1, d1
        elif k % 5 == 4:
            # an internal tangency on a cubic S-shaped edge (parameters 1/2 and t* != 1/2): containment or a thin sliver
            # outside, depending on the curvatures at the contact point
            tang = internal_tangency(rnd)
            if tang is not None:
                is_tangency = True
                n1, d1, n2, d2 = tang[1], 2, tang[0], 3
                if rnd.random() < 0.5:
                    n1, d1, n2, d2 = n2, d2, n1, d1
        elif k % 10 == 7:
            # several disjoint regions (the region-end workspace of the compiled code grows on the first such call of a process)
            wv, dn, st3 = wavy_multi_region(rnd)
            n1, d1, n2, d2 = wv, dn, st3, 1
            if rnd.random() < 0.5:
                n1, d1, n2, d2 = n2, d2, n1, d1
        elif k % 10 == 2:
            # a corner of a straight triangle ON a curved edge of the other, one of its edges tangent to the curve there
            t1q, t2s = tangent_corner_on_curved_edge(rnd)
            n1, d1, n2, d2 = t1q, 2, t2s, 1
            if rnd.random() < 0.5:
                n1, d1, n2, d2 = n2, d2, n1, d1
        elif k % 5 == 3:
            # a corner of a curved triangle in the interior of an edge of a straight one, reached by a curved edge
            t1s, t2q = corner_on_edge_curved(rnd)
            n1, d1, n2, d2 = t1s, 1, t2q, 2
            if rnd.random() < 0.5:
                n1, d1, n2, d2 = n2, d2, n1, d1
        elif k % 7 == 3:
            # a small copy of the second triangle placed at the centroid of the corners of the first (usually contained)
            cx = sum(n1[0][i] for i in (0, d1, len(n1[0]) - 1)) / 3
            cy = sum(n1[1][i] for i in (0, d1, len(n1[1]) - 1)) / 3
            cx, cy = Fr(round(cx * 16), 16), Fr(round(cy * 16), 16)
            mx, my = sum(n2[0]) / len(n2[0]), sum(n2[1]) / len(n2[1])
            mx, my = Fr(round(mx * 16), 16), Fr(round(my * 16), 16)
            n2 = [[cx + (x - mx) / 8 for x in n2[0]], [cy + (y - my) / 8 for y in n2[1]]]
            if rnd.random() < 0.5:
                n1, d1, n2, d2 = n2, d2, n1, d1
        elif k % 7 == 5:
            n2 = [[x + 4 for x in n2[0]], n2[1]]          # boxes apart: the gate answers
        modes = [("function", "geometric")]
        if k % 3 == 0:
            modes.append(("api", "geometric"))
        if k % 2 == 0:
            modes.append(("api", "algebraic"))
        for entry, strategy in modes:
            what, text = run_curved(n1, d1, n2, d2, entry, strategy)
            res.count(("curved", str(n1), str(n2), entry, strategy), nontrivial=text not in ("empty",), space="curved-%s-%s" % (entry, strategy),
                      degrees="%d,%d" % (d1, d2), outcome=(what or text))
            if what is not None:
                key = "curved:" + what + ("" if strategy == "geometric" or what.startswith("algebraic") else ":" + strategy)
                if is_tangency and strategy == "geometric":
                    key = tangency_key(what, text)
                fails.add(key, "curved triangles of degree %d and %d (%s strategy, %s level): %s" % (d1, d2, strategy, entry, text),
                            {"kind": "curved", "n1": C.jfr(n1), "d1": d1, "n2": C.jfr(n2), "d2": d2, "entry": entry, "strategy": strategy})
            elif text.startswith("regions"):
                res.sample({"kind": "curved", "degrees": [d1, d2], "entry": entry, "strategy": strategy, "outcome": text})
    # ---------------- internal tangencies on an S-shaped cubic edge (both argument orders, geometric, function level)
    n_tang = 0 if "curved" not in parts else ((24 if not thorough else 160) * (2 if search else 1))
    for k in range(n_tang):
        if not thorough and time.time() - t_start > 200:
            res.skip("time budget: remaining tangency cases not run")
            break
        tang = internal_tangency(rnd)
        if tang is None:
            continue
        for (n1, d1, n2, d2) in ((tang[1], 2, tang[0], 3), (tang[0], 3, tang[1], 2)):
            what, text = run_curved(n1, d1, n2, d2, "function", "geometric")
            res.count(("tangency", str(n1), str(n2)), nontrivial=True, space="tangency-function-geometric", outcome=(what or text))
            if what is not None:
                fails.add(tangency_key(what, text), "internal tangency, degrees %d and %d: %s" % (d1, d2, text),
                          {"kind": "curved", "n1": C.jfr(n1), "d1": d1, "n2": C.jfr(n2), "d2": d2, "entry": "function", "strategy": "geometric"})
    res.notes.append("wall: no-contact %.1fs (cpu %.1fs), lattice %.1fs, curved %.1fs" % (t_nc, cpu_nc, t_curved - t_start, time.time() - t_curved))
    res.emit()


main()
