"""C06 (boundary walk) — correspondence of Model/Walk.lean with the real triangle-triangle intersection + clipping oracle.

impl  : bezier._triangle_intersection.geometric_intersect (shim: pure `generic_intersect` / compiled
        `triangle_intersections`), Triangle.intersect (GEOMETRIC); in the pure configuration additionally the hazmat
        routines `triangle_intersections`, `combine_intersections` (recorded at run time by wrappers on the module
        globals, no change of /repo), `basic_interior_combine`, `tangent_only_intersections`, `verify_duplicates`
        called directly on synthetic lists
model : Model/Walk.lean through Driver/Ops/Walk.lean
        * `tri_intersect_lin` — whole `generic_intersect` (Py) / `triangles_intersect` + wrapper (F90) on two
          degree-1 triangles, edge-edge primitive = pipeline model (`check_lines` → `segment_intersection` /
          `parallel_lines_parameters`), run with binary64-rounded arithmetic (mode 1) and over ℚ (mode 0)
        * `tri_intersections_lin` — the 3×3 edge-pair loop (keep / duplicates / unused / all_types)
        * `combine_intersections` — dispatch + boundary walk on a given intersection list (ℚ; the walk only compares)
        * `tangent_only`, `verify_duplicates`
spec  : clip.py — exact Sutherland-Hodgman clipping of the two straight triangles (independent of both)

Regime E: the nets are small integers (lattices 3×3, 4×4, 5×5) or dyadic rationals k/8: every cross / dot product of
the code is exact in binary64, the only rounded operations are the quotients of `segment_intersection` /
`parallel_lines_parameters`; the model (mode 1) rounds every operation to binary64, so the returned structure
(regions, edge indices, parameters, contained flag, exception class) must be IDENTICAL, bit for bit.  The ℚ run must
give the same discrete structure with parameters within 4 ulp.

Failure keys (property failures against the clipping oracle; the same keys as props/c06.py on its spaces)
  lat3:<t1>-<t2>:<what>, lat4:<t1>-<t2>:<what>                        (listed in known/C06-lat{3,4}-<config>.txt)
  walk:touching-collinear:<what>          lat5 / dyadic pairs of the family F-H (an edge of one triangle collinear
                                          with an edge of the other, touching it in exactly one point)
  walk:<space>:<t1>-<t2>:<what>           anything else
<what> in raised-<Exc>, bad-structure, wrong-area, wrong-region
"""
import inspect
import itertools
import os
import sys
import time
from fractions import Fraction as Fr

import numpy as np

import common as C
import clip as K
import pipeline as P

TOL = Fr(1, 2 ** 40)
ERR = {"ValueError": "valueError", "RuntimeError": "runtimeError", "NotImplementedError": "notImplemented"}
S = {}


# ------------------------------------------------------------------ spaces
def lattice_tris(n):
    """all non-degenerate triangles on {0..n-1}^2, one positively oriented presentation each (as in props/c06.py)"""
    pts = [(x, y) for x in range(n) for y in range(n)]
    out = []
    for a, b, c in itertools.combinations(pts, 3):
        cr = K.cross(a, b, c)
        if cr == 0:
            continue
        out.append((a, b, c) if cr > 0 else (a, c, b))
    return out


def tkey(t):
    return "".join("%d%d" % p for p in t)


def rkey(t):
    return ",".join("%s:%s" % (p[0], p[1]) for p in t)


def rows(t):
    return [[Fr(p[0]) for p in t], [Fr(p[1]) for p in t]]


def random_dyadic(rnd, pool):
    """positively oriented triangle with vertices k/8 from a small pool (collinear / shared features are likely)"""
    while True:
        a, b, c = rnd.sample(pool, 3)
        cr = K.cross(a, b, c)
        if cr == 0:
            continue
        t = (a, b, c) if cr > 0 else (a, c, b)
        r = rnd.randrange(3)
        return t[r:] + t[:r]


def touching_collinear(t1, t2):
    """family F-H: an edge of t1 collinear with an edge of t2, the two segments meeting in exactly one point"""
    for i in range(3):
        a, b = t1[i], t1[(i + 1) % 3]
        for j in range(3):
            c, d = t2[j], t2[(j + 1) % 3]
            if K.cross(a, b, c) != 0 or K.cross(a, b, d) != 0:
                continue
            dx, dy = b[0] - a[0], b[1] - a[1]
            pr = lambda p: (p[0] - a[0]) * dx + (p[1] - a[1]) * dy
            lo1, hi1 = sorted((pr(a), pr(b)))
            lo2, hi2 = sorted((pr(c), pr(d)))
            if max(lo1, lo2) == min(hi1, hi2):
                return True
    return False


# ------------------------------------------------------------------ the real code
def norm_out(ei, contained):
    regs = [] if ei is None else [[[[Fr(int(i)), Fr(float(a)), Fr(float(b))] for i, a, b in r] for r in ei]]
    cont = [] if contained is None else [Fr(int(bool(contained)))]
    return [regs, cont]


def call_function(t1, t2):
    try:
        ei, contained, _ = S["TI"].geometric_intersect(C.farr(rows(t1)), 1, C.farr(rows(t2)), 1, True)
    except Exception as exc:  # noqa
        return ("err", ERR.get(type(exc).__name__, type(exc).__name__), type(exc).__name__, repr(exc.args)[:120])
    return ("ok", norm_out(ei, contained))


def call_api(t1, t2):
    T = S["bezier"].Triangle
    a, b = T(C.farr(rows(t1)), 1), T(C.farr(rows(t2)), 1)
    try:
        out = a.intersect(b)
    except Exception as exc:  # noqa
        return ("err", ERR.get(type(exc).__name__, type(exc).__name__), type(exc).__name__, repr(exc.args)[:120])
    if len(out) == 1 and out[0] is a:
        return ("ok", [[], [Fr(1)]])
    if len(out) == 1 and out[0] is b:
        return ("ok", [[], [Fr(0)]])
    infos = []
    for cp in out:
        if not isinstance(cp, S["bezier"].CurvedPolygon):
            return ("ok", "unexpected-object")
        infos.append(tuple(cp._metadata))
    return ("ok", norm_out(infos, None))


# ------------------------------------------------------------------ oracle (clip.py)
def edge_point(e6, idx, s):
    a, b = e6[idx]
    return (a[0] + s * (b[0] - a[0]), a[1] + s * (b[1] - a[1]))


def clean_approx(poly, tol):
    out = []
    for p in poly:
        if not out or abs(out[-1][0] - p[0]) > tol or abs(out[-1][1] - p[1]) > tol:
            out.append(p)
    while len(out) > 1 and abs(out[0][0] - out[-1][0]) <= tol and abs(out[0][1] - out[-1][1]) <= tol:
        out.pop()
    changed = True
    while changed and len(out) >= 3:
        changed = False
        for i in range(len(out)):
            a, b, c = out[i - 1], out[i], out[(i + 1) % len(out)]
            if abs(K.cross(a, b, c)) <= tol * (abs(b[0] - a[0]) + abs(b[1] - a[1]) + abs(c[0] - b[0]) + abs(c[1] - b[1]) + 1):
                del out[i]
                changed = True
                break
    return out


def close_cycle(p, q, tol):
    if len(p) != len(q):
        return False
    n = len(p)
    return any(all(abs(p[i][0] - q[(i + r) % n][0]) <= tol and abs(p[i][1] - q[(i + r) % n][1]) <= tol
                   for i in range(n)) for r in range(n))


def judge(impl, t1, t2, scale):
    """property verdict of one answer of the real code: (what, text) on failure, (None, tag) otherwise"""
    tol = TOL * scale
    if impl[0] == "err":
        return "raised-" + impl[2], "raised %s%s" % (impl[2], impl[3])
    p1 = [(Fr(x), Fr(y)) for x, y in t1]
    p2 = [(Fr(x), Fr(y)) for x, y in t2]
    exact = K.clip_convex(p1, p2)
    ea = K.area(exact)
    out = impl[1]
    if out == "unexpected-object":
        return "bad-structure", "unexpected object in the returned list"
    regs, cont = out
    if not regs:
        if not cont:
            return "bad-structure", "edge_infos None without contained flag"
        inner = p1 if cont[0] == 1 else p2
        if K.area(inner) != ea or K.canonical_cycle(K.clean(list(inner))) != K.canonical_cycle(exact):
            return "wrong-area", "reported triangle %d contained (area %s), exact common area %s" % (1 if cont[0] == 1 else 2, K.area(inner), ea)
        return None, "contained"
    e6 = [(p1[i], p1[(i + 1) % 3]) for i in range(3)] + [(p2[i], p2[(i + 1) % 3]) for i in range(3)]
    polys = []
    soft = None
    for reg in regs[0]:
        if not reg:
            return "bad-structure", "empty region"
        for idx, a, b in reg:
            if not (0 <= idx <= 5) or not (0 <= a < b <= 1):
                return "bad-structure", "segment %r" % ((int(idx), float(a), float(b)),)
        n = len(reg)
        for k in range(n):
            i1, a1, b1 = reg[k]
            i2, a2, b2 = reg[(k + 1) % n]
            if i1 == i2 and soft is None:
                soft = "consecutive segments on one edge"
            p = edge_point(e6, int(i1), b1)
            q = edge_point(e6, int(i2), a2)
            if abs(p[0] - q[0]) > tol or abs(p[1] - q[1]) > tol:
                return "bad-structure", "chain broken between segments %d and %d" % (k, (k + 1) % n)
        polys.append([edge_point(e6, int(i), a) for i, a, b in reg])
    tot = Fr(0)
    for pts in polys:
        a = K.area(pts)
        if a <= 0:
            return "bad-structure", "region not positively oriented (area %s)" % float(a)
        tot += a
    if abs(tot - ea) > tol * scale:
        return "wrong-area", "total area %s, exact common area %s (%d region(s))%s" % (float(tot), ea, len(polys), "; " + soft if soft else "")
    if soft:
        return "bad-structure", soft
    if not exact:
        return ("wrong-region", "regions of zero area returned for inputs without common area") if polys else (None, "empty")
    if len(polys) != 1 or not close_cycle(exact, clean_approx(polys[0], tol), 4 * tol):
        return "wrong-region", "area agrees but the region is not the exact polygon (%d regions)" % len(polys)
    return None, "polygon-%d" % len(exact)


def failure_key(space, t1, t2, what):
    if space in ("lat3", "lat4"):
        return "%s:%s-%s:%s" % (space, tkey(t1), tkey(t2), what)
    if touching_collinear(t1, t2):
        return "walk:touching-collinear:%s" % what
    return "walk:%s:%s-%s:%s" % (space, rkey(t1), rkey(t2), what)


# ------------------------------------------------------------------ comparing with the model
def same_structure(a, b, ulps=4):
    """two outcomes [regions?, contained?] with identical discrete parts and parameters within `ulps` ulp"""
    if a[1] != b[1] or len(a[0]) != len(b[0]):
        return False
    if not a[0]:
        return True
    ra, rb = a[0][0], b[0][0]
    if len(ra) != len(rb):
        return False
    for x, y in zip(ra, rb):
        if len(x) != len(y):
            return False
        for (i, s0, s1), (j, u0, u1) in zip(x, y):
            if i != j or abs(s0 - u0) > ulps * C.U or abs(s1 - u1) > ulps * C.U:
                return False
    return True


def jout(o):
    return C.jfr(o)


# ------------------------------------------------------------------ recording the pure-Python run
class Recorder:
    """wrappers on `triangle_intersections` / `combine_intersections` of the hazmat modules (pure configuration)"""

    def __init__(self):
        import bezier.hazmat.triangle_intersection as PTI
        import bezier.hazmat.triangle_helpers as TH
        self.PTI, self.TH = PTI, TH
        self.points = None
        self.combine = None
        self.saved = []

    @staticmethod
    def inter(x):
        o = lambda v: [] if v is None else [v]
        return [o(x.index_first), o(None if x.s is None else Fr(float(x.s))), o(x.index_second),
                o(None if x.t is None else Fr(float(x.t))), o(None if x.interior_curve is None else x.interior_curve.value)]

    def install(self):
        PTI, TH = self.PTI, self.TH
        orig_points, orig_combine = PTI.triangle_intersections, TH.combine_intersections
        rec = self

        def points(e1, e2, all_int):
            out = orig_points(e1, e2, all_int)
            keep, dups, unused, types = out
            rec.points = [[rec.inter(x) for x in keep], [rec.inter(x) for x in dups], [rec.inter(x) for x in unused],
                          sorted(t.value for t in types)]
            return out

        def combine(intersections, nodes1, degree1, nodes2, degree2, all_types):
            ints = [[x.index_first, Fr(float(x.s)), x.index_second, Fr(float(x.t)), x.interior_curve.value] for x in intersections]
            types = sorted(t.value for t in all_types)
            try:
                out = orig_combine(intersections, nodes1, degree1, nodes2, degree2, set(all_types))
            except Exception as exc:  # noqa
                rec.combine = (ints, types, ("err", ERR.get(type(exc).__name__, type(exc).__name__)))
                raise
            rec.combine = (ints, types, ("ok", norm_out(out[0], out[1])))
            return out

        self.saved = [(PTI, "triangle_intersections", orig_points), (TH, "combine_intersections", orig_combine)]
        PTI.triangle_intersections = points
        TH.combine_intersections = combine

    def remove(self):
        for mod, name, orig in self.saved:
            setattr(mod, name, orig)
        self.saved = []


# ------------------------------------------------------------------ one batch of pairs
def run_pairs(res, space, pairs, scale, rec, api_every=0):
    """pairs: list of (t1, t2).  IMPL + MODEL (three driver questions per pair, one driver run per batch) + SPEC"""
    cfg = res.config
    py = 1 if cfg == "pure" else 0
    consts = S["consts"]
    me = S["max_edges"]
    drv = C.Driver()
    impls, recs, apis = [], [], []
    for k, (t1, t2) in enumerate(pairs):
        if rec is not None:
            rec.points = rec.combine = None
        impls.append(call_function(t1, t2))
        recs.append((rec.points, rec.combine) if rec is not None else (None, None))
        apis.append(call_api(t1, t2) if api_every and k % api_every == 0 else None)
        n1, n2 = rows(t1), rows(t2)
        drv.ask("tri_intersect_lin", py, 1, 1, me, consts, n1, n2)
        drv.ask("tri_intersect_lin", py, 0, 1, me, consts, n1, n2)
        drv.ask("tri_intersections_lin", py, 1, consts, n1, n2)
    # the recorded combine_intersections calls (pure): replay on the recorded (binary64) lists over ℚ
    comb_idx = {}
    for k, (pts, comb) in enumerate(recs):
        if comb is not None:
            ints, types, _ = comb
            t1, t2 = pairs[k]
            l12 = S["TI"].locate_point(C.farr(rows(t2)), 1, float(t1[0][0]), float(t1[0][1])) is not None
            l21 = S["TI"].locate_point(C.farr(rows(t1)), 1, float(t2[0][0]), float(t2[0][1])) is not None
            comb_idx[k] = drv.ask("combine_intersections", py, me, ints, types, l12, l21)
    rep = drv.run()
    for k, (t1, t2) in enumerate(pairs):
        im = impls[k]
        m64, mq, mpts = rep[3 * k], rep[3 * k + 1], rep[3 * k + 2]
        inp = {"space": space, "t1": [list(map(str, p)) for p in t1], "t2": [list(map(str, p)) for p in t2]}
        # IMPL vs MODEL (binary64-rounded): identical
        imc = (im[0], im[1])
        agree = imc == (m64[0], m64[1])
        if not agree:
            res.mismatch("tri_intersect_lin", inp, jout(list(imc)), jout(list(m64)),
                         "real code and model (binary64-rounded arithmetic) differ")
        # MODEL over ℚ: same discrete structure
        if mq[0] != m64[0] or (mq[0] == "ok" and not same_structure(mq[1], m64[1])) or (mq[0] == "err" and mq[1] != m64[1]):
            qsame = False
            res.mismatch("tri_intersect_lin:exact-vs-binary64", inp, jout(list(m64)), jout(list(mq)),
                         "model over the rationals and model with binary64 rounding differ in structure")
        else:
            qsame = True
        # the edge-pair loop (pure: recorded)
        pts, comb = recs[k]
        if pts is not None:
            if mpts[0] != "ok" or [mpts[1][0], mpts[1][1], mpts[1][2], sorted(int(c) for c in mpts[1][3])] != \
                    [C.to_fr(pts[0]), C.to_fr(pts[1]), C.to_fr(pts[2]), pts[3]]:
                res.mismatch("triangle_intersections", inp, jout(pts), jout(list(mpts)), "recorded keep/duplicates/unused/all_types")
            S["n_points"] += 1
        if k in comb_idx:
            ints, types, out = comb
            mc = rep[comb_idx[k]]
            if (mc[0], mc[1]) != (out[0], out[1]):
                res.mismatch("combine_intersections", {"ints": jout(ints), "all_types": types}, jout(list(out)), jout(list(mc)),
                             "recorded call of combine_intersections")
            S["n_combine"] += 1
            if len(S["recorded_lists"]) < 400 and ints:
                S["recorded_lists"].append(ints)
        # API level
        if apis[k] is not None:
            ap = apis[k]
            if (ap[0], ap[1]) != (m64[0], m64[1]):
                res.mismatch("Triangle.intersect", inp, jout(list(ap[:2])), jout(list(m64)), "API result vs model")
            S["n_api"] += 1
        # SPEC: the property itself
        what, text = judge(im, t1, t2, scale)
        tag = text if what is None else what
        if what is not None:
            key = failure_key(space, t1, t2, what)
            res.failure(key, text, {"space": space, "t1": [[str(c) for c in p] for p in t1], "t2": [[str(c) for c in p] for p in t2], "scale": str(scale)})
        nreg = -1 if im[0] == "err" else (len(im[1][0][0]) if im[1][0] else 0)
        nseg = 0 if nreg <= 0 else max(len(r) for r in im[1][0][0])
        res.count((space, t1, t2), nontrivial=nreg != 0 or im[0] == "err", space=space, outcome=tag,
                  regions=nreg, max_segments=nseg, agree=agree, exact_field_same_structure=qsame,
                  family_touching_collinear=touching_collinear(t1, t2))
        if nseg >= 6 or nreg >= 2:
            res.sample({"space": space, "t1": str(t1), "t2": str(t2), "impl": jout(im[1])}, cap=8)


# ------------------------------------------------------------------ synthetic lists (pure configuration)
def random_list(rnd):
    """a list of complete intersections with many ties: small index / parameter sets, every class"""
    n = rnd.choice([1, 1, 2, 2, 3, 3, 4, 5, 6, 8])
    params = [Fr(0), Fr(1, 4), Fr(1, 2), Fr(3, 4), Fr(float(Fr(1, 3)))]
    classes = rnd.choice([[0, 1], [0, 1], [0, 1, 7], [0, 1, 3, 4], [0, 1, 3, 4, 7], list(range(9))])
    return [[rnd.randrange(3), rnd.choice(params), rnd.randrange(3), rnd.choice(params), rnd.choice(classes)] for _ in range(n)]


def direct_lists(res, rnd, count):
    TH = S["TH"]
    IH = S["IH"]
    cls = {c.value: c for c in IH.IntersectionClassification}
    me = S["max_edges"]
    drv = C.Driver()
    cases = list(S["recorded_lists"][:count // 4])
    rnd2 = rnd
    # recorded lists with one class flipped / one node dropped, and random lists
    for ints in list(cases):
        if len(ints) > 1:
            j = rnd2.randrange(len(ints))
            cases.append(ints[:j] + ints[j + 1:])
        j = rnd2.randrange(len(ints))
        mod = [list(x) for x in ints]
        mod[j][4] = 1 - mod[j][4] if mod[j][4] in (0, 1) else rnd2.choice([0, 1])
        cases.append(mod)
    while len(cases) < count:
        cases.append(random_list(rnd2))
    impls = []
    for ints in cases:
        objs = [IH.Intersection(i1, float(s), i2, float(t), interior_curve=cls[c]) for i1, s, i2, t, c in ints]
        try:
            out = TH.basic_interior_combine(objs)
            impls.append(("ok", norm_out(out[0], out[1])))
        except Exception as exc:  # noqa
            impls.append(("err", ERR.get(type(exc).__name__, type(exc).__name__)))
        drv.ask("combine_intersections", 1, me, ints, sorted(set(x[4] for x in ints)), 0, 0)
    rep = drv.run()
    for ints, im, mo in zip(cases, impls, rep):
        ok = (im[0], im[1]) == (mo[0], mo[1])
        if not ok:
            res.mismatch("basic_interior_combine", {"ints": jout(ints)}, jout(list(im)), jout(list(mo)), "direct call on a synthetic list")
        kind = im[1] if im[0] == "err" else ("contained" if im[1][1] else "regions-%d" % len(im[1][0][0]))
        res.count(("direct", tuple(map(tuple, ints))), space="direct-basic_interior_combine", direct_outcome=kind, agree=ok)
    # tangent_only_intersections on every set of at most two classes
    drv = C.Driver()
    sets = [[a] for a in range(9)] + [[a, b] for a in range(9) for b in range(a + 1, 9)] + [[]]
    impls = []
    for st in sets:
        try:
            out = TH.tangent_only_intersections(set(cls[c] for c in st))
            impls.append(("ok", norm_out(out[0], out[1])))
        except Exception as exc:  # noqa
            impls.append(("err", ERR.get(type(exc).__name__, type(exc).__name__)))
        drv.ask("tangent_only", 1, st)
    for st, im, mo in zip(sets, impls, drv.run()):
        ok = (im[0], im[1]) == (mo[0], mo[1])
        if not ok:
            res.mismatch("tangent_only_intersections", {"all_types": st}, jout(list(im)), jout(list(mo)), "")
        res.count(("tangent_only", tuple(st)), space="direct-tangent_only", agree=ok)


def direct_verify_duplicates(res, rnd, count):
    """verify_duplicates on recorded-like lists: corner duplicates, with perturbations"""
    PTI, IH = S["PTI"], S["IH"]
    drv = C.Driver()
    cases, impls = [], []
    params = [Fr(0), Fr(0), Fr(1, 2), Fr(1, 3), Fr(1, 2) + Fr(1, 2 ** 45), Fr(3, 4)]
    for _ in range(count):
        nu = rnd.randrange(1, 5)
        uniq = [[rnd.randrange(3), rnd.choice(params), rnd.randrange(3), rnd.choice(params)] for _ in range(nu)]
        dups = []
        for _ in range(rnd.randrange(0, 5)):
            u = list(rnd.choice(uniq))
            if rnd.random() < 0.2:
                u[rnd.choice([1, 3])] = rnd.choice(params)
            dups.append(u)
        mk = lambda x: IH.Intersection(x[0], float(x[1]), x[2], float(x[3]))
        try:
            PTI.verify_duplicates([mk(x) for x in dups], [mk(x) for x in uniq])
            impls.append(("ok", 1))
        except ValueError:
            impls.append(("err", "valueError"))
        enc = lambda x: [[x[0]], [Fr(float(x[1]))], [x[2]], [Fr(float(x[3]))], []]
        drv.ask("verify_duplicates", [enc(x) for x in dups], [enc(x) for x in uniq])
        cases.append((dups, uniq))
    for (dups, uniq), im, mo in zip(cases, impls, drv.run()):
        ok = im[0] == mo[0] and (im[0] == "ok" or im[1] == mo[1])
        if not ok:
            res.mismatch("verify_duplicates", {"duplicates": jout(dups), "uniques": jout(uniq)}, list(im), jout(list(mo)), "")
        res.count(("verify_duplicates", str(dups), str(uniq)), space="direct-verify_duplicates", vd_outcome=im[0], agree=ok)


# ------------------------------------------------------------------ main
def parse_case(rc):
    f = lambda t: tuple((Fr(p[0]), Fr(p[1])) for p in t)
    return f(rc["t1"]), f(rc["t2"]), Fr(rc.get("scale", "1"))


def main():
    bezier = C.import_bezier()
    from bezier import _triangle_intersection as TI
    import bezier.hazmat.triangle_helpers as TH
    import bezier.hazmat.triangle_intersection as PTI
    import bezier.hazmat.intersection_helpers as IH
    S.update({"bezier": bezier, "TI": TI, "TH": TH, "PTI": PTI, "IH": IH, "n_points": 0, "n_combine": 0, "n_api": 0,
              "recorded_lists": []})
    cfg = C.config_name()
    S["consts"] = [Fr(x) for x in P.consts(cfg)]
    py_me = inspect.signature(TH.basic_interior_combine).parameters["max_edges"].default
    S["max_edges"] = int(py_me) if cfg == "pure" else int(C.generated("f90_triangle_intersection_MAX_EDGES", 10))

    rc = C.replay_case()
    if rc is not None:
        t1, t2, scale = parse_case(rc)
        im = call_function(t1, t2)
        what, text = judge(im, t1, t2, scale)
        print("replay: %s %s" % (what, text))
        sys.exit(1 if what is not None else 0)

    res = C.Result("C06")
    rnd, seed = C.rng()
    thorough = C.tier() == "thorough"
    search = os.environ.get("VERIF_SEARCH") == "1"
    rec = None
    if cfg == "pure":
        rec = Recorder()
        rec.install()
    t0 = time.time()
    try:
        # 3×3: every ordered pair
        t3 = lattice_tris(3)
        pairs = [(a, b) for a in t3 for b in t3]
        for i in range(0, len(pairs), 1500):
            run_pairs(res, "lat3", pairs[i:i + 1500], Fr(2), rec, api_every=9)
        # 4×4, 5×5: samples (half of them biased to pairs sharing a lattice line: collinear / touching features)
        for n, cnt in ((4, 40000 if thorough else 3000), (5, 30000 if thorough else 2500)):
            if search:
                cnt *= 2
            tn = lattice_tris(n)
            sample = []
            while len(sample) < cnt:
                a = rnd.choice(tn)
                b = rnd.choice(tn)
                if len(sample) % 2 == 0:
                    # force a shared vertex or a vertex of b on the line of an edge of a
                    for _ in range(20):
                        b = rnd.choice(tn)
                        if any(K.cross(a[i], a[(i + 1) % 3], v) == 0 for i in range(3) for v in b):
                            break
                sample.append((a, b))
            for i in range(0, len(sample), 1500):
                run_pairs(res, "lat%d" % n, sample[i:i + 1500], Fr(n - 1), rec, api_every=25)
        # dyadic rationals k/8 on a small pool
        cnt = (20000 if thorough else 2000) * (2 if search else 1)
        sample = []
        while len(sample) < cnt:
            size = rnd.choice([5, 6, 8, 12])
            pool = [(Fr(rnd.randrange(0, 33), 8), Fr(rnd.randrange(0, 33), 8)) for _ in range(size)]
            if len(set(pool)) < 4:
                continue
            for _ in range(10):
                sample.append((random_dyadic(rnd, pool), random_dyadic(rnd, pool)))
        for i in range(0, len(sample), 1500):
            run_pairs(res, "dyadic", sample[i:i + 1500], Fr(4), rec, api_every=25)
    finally:
        if rec is not None:
            rec.remove()
    t1_ = time.time()
    if cfg == "pure":
        direct_lists(res, rnd, 12000 if thorough else 2500)
        direct_verify_duplicates(res, rnd, 6000 if thorough else 1500)
    else:
        res.skip("direct calls of basic_interior_combine / tangent_only_intersections / verify_duplicates: the compiled "
                 "interior_combine is not exported; covered end-to-end only")
    res.notes.append("max_edges=%d; recorded triangle_intersections calls compared: %d; recorded combine_intersections "
                     "calls compared: %d; Triangle.intersect calls compared: %d; wall: pairs %.1fs, direct %.1fs"
                     % (S["max_edges"], S["n_points"], S["n_combine"], S["n_api"], t1_ - t0, time.time() - t1_))
    res.emit()


main()
