"""C07 — compiled speedups and pure-Python code are observably equivalent.

Runs in the `speedup` package tree only, where both implementations live side by side
(`bezier.hazmat.*` and `bezier._speedup`).  The pairs are enumerated mechanically from the six
shim modules (AST); a pair without a registered generator is itself a broken obligation.
Discrete outcomes (found / not found, counts, enums, flags, exception type) must be IDENTICAL on
inputs whose arithmetic is exact (dyadic lattices); numeric outputs must agree to a few units of
rounding relative to the data.
"""
import ast
import itertools
import math
import os
import random
import sys
import numpy as np
from fractions import Fraction as Fr
import common as C
import exact as X
import gen as G

SHIMS = ["_curve_helpers", "_helpers", "_geometric_intersection", "_intersection_helpers",
         "_triangle_helpers", "_triangle_intersection"]


def enumerate_pairs(pkg):
    """[(shim module, public name, pure dotted target, speedup attribute)] from the shim sources"""
    out = {}
    for shim in SHIMS:
        path = os.path.join(pkg, "bezier", shim + ".py")
        tree = ast.parse(open(path).read())
        aliases = {}
        for node in ast.walk(tree):
            if isinstance(node, ast.ImportFrom) and node.module == "bezier.hazmat":
                for a in node.names:
                    aliases[a.asname or a.name] = a.name
        for node in ast.walk(tree):
            if isinstance(node, ast.Assign) and len(node.targets) == 1 and isinstance(node.targets[0], ast.Name) \
                    and isinstance(node.value, ast.Attribute) and isinstance(node.value.value, ast.Name):
                name = node.targets[0].id
                base = node.value.value.id
                key = (shim, name)
                if base == "_speedup":
                    out.setdefault(key, {})["speedup"] = node.value.attr
                elif base in aliases:
                    out.setdefault(key, {})["pure"] = (aliases[base], node.value.attr)
    return out


def fa(rows):
    return np.asfortranarray([[float(x) for x in r] for r in rows])


def canon(x):
    """canonical, comparable rendering of an output"""
    if isinstance(x, tuple):
        return tuple(canon(y) for y in x)
    if isinstance(x, list):
        return [canon(y) for y in x]
    if isinstance(x, np.ndarray):
        return ("arr", x.shape, tuple(float(v) for v in np.asarray(x, dtype=float).ravel(order="F")))
    if isinstance(x, (bool, np.bool_)):
        return bool(x)
    if isinstance(x, (float, np.floating)):
        return float(x)
    if isinstance(x, (int, np.integer)):
        return int(x)
    if x is None:
        return None
    if hasattr(x, "name") and hasattr(x, "value"):     # enum
        return ("enum", int(x.value))
    return repr(x)


def nan_safe(c):
    """canonical form in which a NaN equals a NaN (for 'is this still the value that was returned')"""
    if isinstance(c, float) and c != c:
        return "nan"
    if isinstance(c, (tuple, list)):
        return type(c)(nan_safe(y) for y in c)
    return c


def flat(c):
    if isinstance(c, tuple) and c and c[0] == "arr":
        return list(c[2])
    if isinstance(c, (tuple, list)):
        out = []
        for y in c:
            out += flat(y)
        return out
    if isinstance(c, bool) or c is None:
        return []
    if isinstance(c, (int, float)):
        return [float(c)]
    return []


def shape_of(c):
    if isinstance(c, tuple) and c and c[0] == "arr":
        return ("arr", c[1])
    if isinstance(c, tuple) and c and c[0] == "enum":
        return c
    if isinstance(c, (tuple, list)):
        return tuple(shape_of(y) for y in c)
    if isinstance(c, bool) or c is None:
        return c
    if isinstance(c, int):
        return ("int", c)
    if isinstance(c, float):
        return "float"
    return c


def vertex_on_boundary(t1, t2):
    """degree-1 lattice triangles: some vertex of one lies on the boundary of the other (exact)"""
    def pts(t):
        return [(Fr(float(t[0, i])), Fr(float(t[1, i]))) for i in range(3)]

    def on_seg(p, a, b):
        cr = (b[0] - a[0]) * (p[1] - a[1]) - (b[1] - a[1]) * (p[0] - a[0])
        return cr == 0 and min(a[0], b[0]) <= p[0] <= max(a[0], b[0]) and min(a[1], b[1]) <= p[1] <= max(a[1], b[1])
    p1, p2 = pts(t1), pts(t2)
    for p, q in ((p1, p2), (p2, p1)):
        for v in p:
            for i in range(3):
                if on_seg(v, q[i], q[(i + 1) % 3]):
                    return True
    return False


def lcm_binom(n):
    """lcm of the binomials C(n, 0..n): a net of degree m multiplied by it (n >= m) stays integral under exact elevation up to degree n"""
    out = 1
    for j in range(n + 1):
        c = math.comb(n, j)
        out = out * c // math.gcd(out, c)
    return out


def exact_fa(rows):
    """Fortran-ordered binary64 array of an exact rational net, or None when some entry is not exactly representable"""
    out = []
    for r in rows:
        fr = [float(v) for v in r]
        if any(Fr(f) != Fr(v) for f, v in zip(fr, r)):
            return None
        out.append(fr)
    return np.asfortranarray(out)


def to_direct(args):
    """JSON rendering of a call's arguments from which the call can be repeated bit for bit (floats round-trip through repr)"""
    out = []
    for x in args:
        if isinstance(x, np.ndarray):
            out.append({"arr": [[float(v) for v in r] for r in np.atleast_2d(x).tolist()], "ndim": int(x.ndim)})
        elif isinstance(x, (bool, np.bool_)):
            out.append({"bool": bool(x)})
        elif isinstance(x, (int, np.integer)):
            out.append({"int": int(x)})
        else:
            out.append({"float": float(x)})
    return out


def from_direct(items):
    out = []
    for it in items:
        if "arr" in it:
            a = np.asfortranarray(it["arr"], dtype=float)
            out.append(a if it.get("ndim", 2) == 2 else np.array(it["arr"][0], dtype=float))
        elif "bool" in it:
            out.append(bool(it["bool"]))
        elif "int" in it:
            out.append(int(it["int"]))
        else:
            out.append(float(it["float"]))
    return out


# positions of a sub-triangle inside (or partly outside) its parent, as barycentric corner weights (dyadic): every one shares a
# whole piece of at least one curved edge with the parent
_H, _Q, _Z, _O = Fr(1, 2), Fr(1, 4), Fr(0), Fr(1)
TRI_SUBS = {
    "corner-A": ((_O, _Z, _Z), (_H, _H, _Z), (_H, _Z, _H)),
    "corner-B": ((_H, _H, _Z), (_Z, _O, _Z), (_Z, _H, _H)),
    "corner-C": ((_H, _Z, _H), (_Z, _H, _H), (_Z, _Z, _O)),
    "edge1-middle": ((Fr(3, 4), _Q, _Z), (_Q, Fr(3, 4), _Z), (_Q, _Q, _H)),
    "edge1-whole": ((_O, _Z, _Z), (_Z, _O, _Z), (_Q, _Q, _H)),
    "same-triangle": ((_O, _Z, _Z), (_Z, _O, _Z), (_Z, _Z, _O)),
    "over-corner-B": ((_H, _H, _Z), (-_H, Fr(3, 2), _Z), (_Z, _H, _H)),
}
TRI_SUBS_NO_COMMON_CORNER = ("edge1-middle", "over-corner-B")


KEPT = []          # (label, raw result object, its canonical form right after the call): the user keeps what a call returned


def run(fn, args, keep=None):
    try:
        raw = fn(*args)
        c = canon(raw)
        if keep is not None and len(KEPT) < 4000:
            KEPT.append((keep, raw, c))
        return ("ok", c)
    except Exception as exc:  # noqa
        return ("exc", type(exc).__name__)


def main():
    bezier = C.import_bezier()
    cfg = C.config_name()
    res = C.Result("C07")
    if cfg != "speedup":
        res.notes.append("C07 compares both implementations inside the speedup tree; nothing to do in " + cfg)
        res.count("noop", nontrivial=False)
        res.emit()
        return
    from bezier import _speedup
    import importlib
    rnd, seed = C.rng()
    # independent stream (derived from the same seed) for the shared-arc families, so that the inputs of the older families stay what they were
    rnd2 = random.Random("C07/shared-arc/%d" % seed)
    thorough = C.tier() == "thorough"
    pkg = os.environ["BEZIER_PKG"]
    pairs = enumerate_pairs(pkg)
    rep = C.replay_case()
    U = float(C.U)
    from bezier.hazmat.intersection_helpers import IntersectionStrategy  # noqa

    # ------------------------------------------------------------------ generators
    def lat_curve(n, dim=2, b=4):
        return fa(G.int_net(rnd, dim, n + 1, b))

    def flt_curve(n, dim=2):
        return fa(G.float_net(rnd, dim, n + 1, 0))

    def dyad(bits=3, lo=0, hi=1):
        return float(G.dyadic_param(rnd, bits, lo, hi))

    def degs(lo=1, hi=12):
        return [rnd.randint(lo, hi) for _ in range(6 if not thorough else 30)]

    def tri_net(d, dim=2, lattice=True):
        nn = G.tri_nodes_count(d)
        return fa(G.int_net(rnd, dim, nn, 8)) if lattice else fa(G.float_net(rnd, dim, nn, 0))

    def valid_tri(d, jitter=0.0):
        xs, ys = [], []
        for k in range(d + 1):
            for j in range(d + 1 - k):
                xs.append(j / d * 4 + (rnd.randint(-1, 1) * jitter))
                ys.append(k / d * 4 + (rnd.randint(-1, 1) * jitter))
        return fa([xs, ys])

    GEN = {}

    def reg(name, kind):
        def deco(f):
            GEN[name] = (kind, f)
            return f
        return deco

    # kind: "exact" = lattice inputs, outputs must be identical (bitwise), "close" = few ulps, "mixed" = generator yields (args, kind)
    @reg("_curve_helpers.subdivide_nodes", "mixed")
    def _():
        for n in degs(1, 12):
            yield (lat_curve(n, rnd.randint(1, 4), 64),), "exact"
            yield (flt_curve(n, rnd.randint(1, 4)),), "close"

    @reg("_curve_helpers.evaluate_multi", "mixed")
    def _():
        for n in degs(1, 12) + [54, 55, 56, 60]:
            yield (lat_curve(n, rnd.randint(1, 4), 16), np.array([dyad(min(3, 28 // n)) for _ in range(3)])), "exact" if n <= 8 else "close"
            yield (flt_curve(n, rnd.randint(1, 4)), np.array([rnd.uniform(-1, 2) for _ in range(5)])), "close"

    @reg("_curve_helpers.evaluate_multi_barycentric", "mixed")
    def _():
        for n in degs(1, 12) + [55, 56]:
            s = np.array([rnd.uniform(0, 1) for _ in range(4)])
            yield (flt_curve(n, rnd.randint(1, 4)), 1.0 - s, s), "close"
            yield (flt_curve(n, 2), np.array([0.25, 0.5]), np.array([0.25, 1.0])), "close"     # weights not summing to one

    @reg("_curve_helpers.compute_length", "mixed")
    def _():
        yield (fa([[0, 3], [0, 4]]),), "exact"
        yield (fa([[1], [2]]),), "exact"
        # degree >= 2 needs SciPy on the pure side: compared in C12 through the tooling interpreter

    @reg("_curve_helpers.elevate_nodes", "mixed")
    def _():
        for n in degs(1, 12):
            yield (fa([[x * (n + 1) for x in r] for r in G.int_net(rnd, rnd.randint(1, 4), n + 1, 16)]),), "exact"
            yield (flt_curve(n, rnd.randint(1, 4)),), "close"

    @reg("_curve_helpers.specialize_curve", "mixed")
    def _():
        for n in degs(1, 10):
            yield (lat_curve(n, rnd.randint(1, 4), 16), dyad(2, -1, 2) if n <= 8 else float(rnd.randint(-1, 2)), dyad(2, -1, 2) if n <= 8 else float(rnd.randint(-1, 2))), "exact"
            yield (flt_curve(n, rnd.randint(1, 4)), rnd.uniform(-1, 2), rnd.uniform(-1, 2)), "close"

    @reg("_curve_helpers.evaluate_hodograph", "mixed")
    def _():
        for n in degs(1, 12):
            yield (dyad(min(3, 28 // n)), lat_curve(n, rnd.randint(1, 4), 16)), "exact" if n <= 8 else "close"
            yield (rnd.uniform(0, 1), flt_curve(n, rnd.randint(1, 4))), "close"

    @reg("_curve_helpers.get_curvature", "mixed")
    def _():
        for n in degs(1, 10):
            nodes = flt_curve(n)
            s = rnd.uniform(0, 1)
            from bezier.hazmat import curve_helpers as H
            yield (nodes, H.evaluate_hodograph(s, nodes), s), "close"

    @reg("_curve_helpers.newton_refine", "mixed")
    def _():
        for n in degs(1, 10):
            nodes = fa(G.smooth_float_net(rnd, 2, n + 1))
            yield (nodes, fa([[rnd.uniform(0, 3)], [rnd.uniform(-1, 1)]]), rnd.uniform(0, 1)), "close"

    @reg("_curve_helpers.locate_point", "mixed")
    def _():
        from bezier.hazmat import curve_helpers as H
        for n in degs(1, 6):
            # strictly monotone lattice curve (regular, injective), dyadic nodes; point at a dyadic parameter
            xs = np.cumsum([rnd.randint(1, 4) for _ in range(n + 1)]).astype(float)
            ys = [float(rnd.randint(-4, 4)) for _ in range(n + 1)]
            nodes = fa([xs, ys])
            s = dyad(3)
            pt = H.evaluate_multi(nodes, np.array([s]))
            yield (nodes, pt), "locate"
            yield (nodes, fa([[100.0], [100.0]])), "exact"          # far away: None
            yield (nodes, pt + fa([[0.0], [0.5]])), "locate"
        # a point with TWO pre-images a controlled distance apart: the spread test (std-dev cap) decides between
        # "ValueError: parameters not close enough" and a located value; both implementations must decide alike
        for k in (6, 8, 10, 11, 12, 14, 16, 18, 22):
            e = 2.0 ** -k
            loop = fa([[3, -1, -1, 3], [-3 + 3 * e * e, 3 + e * e, -3 - e * e, 3 - 3 * e * e]])
            yield (loop, fa([[3 * e * e], [0.0]])), "locate"

    @reg("_curve_helpers.reduce_pseudo_inverse", "mixed")
    def _():
        for nn in (2, 3, 4, 5):
            yield (fa([[x * 420 for x in r] for r in G.int_net(rnd, rnd.randint(1, 3), nn, 8)]),), "exact"
            yield (flt_curve(nn - 1, 2),), "close"
        yield (lat_curve(6),), "exact"                                # both must raise UnsupportedDegree

    @reg("_curve_helpers.full_reduce", "mixed")
    def _():
        for nn in (1, 2, 3, 4, 5):
            base = G.int_net(rnd, 2, nn, 8)
            yield (fa(base),), "shape+close"
            if nn <= 4:
                yield (fa([[float(x) for x in X.elevate_exact(r)] for r in base]),), "shape+close"
        yield (lat_curve(7),), "exact"

    @reg("_helpers.vector_close", "mixed")
    def _():
        eps = 0.5 ** 40
        for _ in range(10):
            v = np.array([float(rnd.randint(-4, 4)), float(rnd.randint(-4, 4))])
            for w in (v.copy(), v * (1 + eps), v * (1 + 4 * eps), v + 1.0, np.zeros(2), v * eps):
                yield (v, w), "exact"
        yield (np.zeros(2), np.zeros(2)), "exact"
        yield (np.zeros(2), np.array([eps / 2, 0.0])), "exact"

    @reg("_helpers.in_interval", "mixed")
    def _():
        for v in (0.0, 1.0, 0.5, -0.0, 1.0 + 2 ** -52, -2 ** -60, 2.0):
            yield (v, 0.0, 1.0), "exact"

    @reg("_helpers.bbox", "mixed")
    def _():
        for n in degs(1, 8):
            yield (lat_curve(n),), "exact"
            yield (flt_curve(n),), "exact"

    @reg("_helpers.contains_nd", "mixed")
    def _():
        for n in degs(1, 6):
            dim = rnd.randint(1, 4)
            nodes = lat_curve(n, dim, 4)
            for _ in range(4):
                yield (nodes, np.array([float(rnd.randint(-5, 5)) for _ in range(dim)])), "exact"

    @reg("_helpers.cross_product", "mixed")
    def _():
        for _ in range(10):
            yield (np.array([float(rnd.randint(-9, 9)), float(rnd.randint(-9, 9))]), np.array([float(rnd.randint(-9, 9)), float(rnd.randint(-9, 9))])), "exact"
            yield (np.array([rnd.uniform(-1, 1), rnd.uniform(-1, 1)]), np.array([rnd.uniform(-1, 1), rnd.uniform(-1, 1)])), "close"

    @reg("_helpers.wiggle_interval", "mixed")
    def _():
        w = 0.5 ** 44
        for v in (0.0, 1.0, 0.5, -w, -w / 2, -2 * w, 1 + w, 1 + w / 2, 1 + 2 * w, np.nextafter(-w, 0), np.nextafter(1 + w, 2), 2.0, -1.0):
            yield (float(v),), "exact"

    @reg("_helpers.simple_convex_hull", "mixed")
    def _():
        pts = [(x, y) for x in range(3) for y in range(3)]
        seqs = list(itertools.product(pts, repeat=3)) + [tuple(rnd.choice(pts) for _ in range(k)) for k in (4, 5, 5, 6, 7) for _ in range(60 if not thorough else 600)]
        for sq in seqs:
            arr = fa([[p[0] for p in sq], [p[1] for p in sq]])
            yield (arr,), "hull"

    @reg("_helpers.polygon_collide", "mixed")
    def _():
        polys = [[(0, 0), (2, 0), (2, 2), (0, 2)], [(0, 0), (2, 0), (0, 2)], [(1, 1), (3, 1), (3, 3), (1, 3)], [(2, 0), (4, 0), (4, 2)],
                 [(3, 3), (4, 3), (4, 4)], [(2, 2), (3, 2), (3, 3), (2, 3)], [(0, 2), (2, 2), (1, 4)], [(5, 5), (6, 5), (6, 6), (5, 6)]]
        for p in polys:
            for q in polys:
                yield (fa([[a for a, _ in p], [b for _, b in p]]), fa([[a for a, _ in q], [b for _, b in q]])), "exact"

    @reg("_geometric_intersection.bbox_intersect", "mixed")
    def _():
        for _ in range(40 if not thorough else 400):
            yield (lat_curve(rnd.randint(1, 3), 2, 3), lat_curve(rnd.randint(1, 3), 2, 3)), "exact"

    @reg("_geometric_intersection.all_intersections", "mixed")
    def _():
        for _ in range(60 if not thorough else 600):
            yield (lat_curve(rnd.randint(1, 4), 2, 4), lat_curve(rnd.randint(1, 4), 2, 4)), "intersections"
        for _ in range(20 if not thorough else 200):
            yield (fa(G.smooth_float_net(rnd, 2, rnd.randint(2, 6))), fa([list(reversed(r)) for r in G.smooth_float_net(rnd, 2, rnd.randint(2, 6))])), "intersections"
        # overlapping sub-arcs of one injective dyadic parent (x strictly increasing), every relative position of the two
        # parameter windows (contained either way, staggered either way, touching, disjoint), both directions of the
        # second arc, optionally degree elevated: exercises coincident_parameters / add_coincident_parameters branch by
        # branch; the nodes are exact (dyadic windows, integer parent), so both implementations see identical data
        from fractions import Fraction as Fr
        wins = [(Fr(a, 8), Fr(b, 8)) for a in range(0, 8) for b in range(a + 2, 9)]
        for n in (2, 3, 4):
            par = [list(np.cumsum([rnd.randint(1, 3) for _ in range(n + 1)])), [rnd.randint(-3, 3) * 4 for _ in range(n + 1)]]
            if len({tuple(c) for c in zip(*par)}) < n + 1 or all(par[1][j + 1] - par[1][j] == par[1][1] - par[1][0] for j in range(n)):
                par[1][1] += 4
            prs = [(w1, w2) for w1 in wins for w2 in wins]
            rnd.shuffle(prs)
            for (a, b), (c, d) in prs[:(14 if not thorough else 150)]:
                first = [[float(v) for v in X.specialize_exact(r, a, b)] for r in par]
                for rev in (False, True):
                    lo, hi = (d, c) if rev else (c, d)
                    second = [X.specialize_exact(r, lo, hi) for r in par]
                    if rnd.random() < 0.3:
                        second = [X.elevate_exact(r) for r in second]
                    yield (fa(first), fa([[float(v) for v in r] for r in second])), "intersections"
        # tangential contact of curves of DIFFERENT degree at a parameter that is dyadic only at depth 10 (so that the
        # double-root Newton iteration, not an end-point check, has to find it): parabola y = x^2 against the cubic
        # y = x^2 + k (x - x0)^2 (x + 1); exact dyadic nets
        for x0n, k in ((341, 1), (683, 2), (205, -1), (819, 1)):
            x0 = Fr(x0n, 1024)
            quad_pw = ([Fr(-1, 2), Fr(2)], X.poly_mul([Fr(-1, 2), Fr(2)], [Fr(-1, 2), Fr(2)]))          # x = 2s - 1/2, y = x^2
            cub_y = X.poly_add([Fr(0), Fr(0), Fr(1)], X.poly_scale(X.poly_mul(X.poly_mul([-x0, Fr(1)], [-x0, Fr(1)]), [Fr(1), Fr(1)]), Fr(k)))
            cub_pw = ([Fr(0), Fr(1)], cub_y)

            def to_bern(pw, n):
                pw = list(pw) + [Fr(0)] * (n + 1 - len(pw))
                from math import comb
                return [float(sum(Fr(comb(j, i), comb(n, i)) * pw[i] for i in range(j + 1))) for j in range(n + 1)]
            c2 = fa([to_bern(quad_pw[0], 2), to_bern(quad_pw[1], 2)])
            c3 = fa([to_bern(cub_pw[0], 3), to_bern(cub_pw[1], 3)])
            yield (c2, c3), "intersections"
            yield (c3, c2), "intersections"
            yield (c3, fa([[float(v) for v in X.elevate_exact([Fr(x) for x in r])] for r in c2.tolist()])), "intersections"
        # collinear lattice segments (the compiled parallel_lines_parameters is reachable only through this entry point)
        for _ in range(40 if not thorough else 400):
            dx, dy = rnd.choice([(1, 0), (0, 1), (1, 1), (2, 1), (1, -2)])
            a0, a1, b0, b1 = (rnd.randint(-4, 4) for _ in range(4))
            if a0 == a1 or b0 == b1:
                continue
            yield (fa([[a0 * dx, a1 * dx], [a0 * dy, a1 * dy]]), fa([[b0 * dx, b1 * dx], [b0 * dy, b1 * dy]])), "intersections"
        # the same arc presented with DIFFERENT degrees: two windows of one injective, genuinely curved integer parent of degree
        # 2..7, each elevated 0..4 times (degree gap 0..4 in either argument order, also both elevated), second arc in either
        # direction.  The coincidence test has to bring the two nets to a common degree first (make_same_degree: zero, one or
        # several elevation steps of either argument) before it can compare them.  The parent is multiplied by the lcm of the
        # binomials of the target degrees, so every elevated, specialised control point is an exact binary64 number (asserted): both
        # implementations receive exactly coincident data and the discrete outcome (coincident flag, number of columns, exception
        # type) has to be the same.  Straight parents (collinear, unevenly spaced nets) are NOT part of this family: on those the
        # unchanged compiled code itself is presentation dependent (it drops the shared segment of degree 3 / 5 against degree 6 in one
        # argument order, rounding in the straight-line path, neighbourhood of finding F-U) - reported separately, not hidden here.
        gaps = [(0, k) for k in (1, 2, 3, 4)] + [(k, 0) for k in (1, 2, 3, 4)]
        both = [(1, 3), (3, 1), (1, 4), (4, 1), (2, 4), (4, 2), (1, 2), (2, 1), (0, 0), (2, 2)]
        plan = []
        for n in (2, 3, 4, 5):
            for _ in range(1 if not thorough else 10):
                plan.append((n, gaps + [rnd2.choice(both), rnd2.choice(both)]))
        for n in (6, 7):
            for _ in range(1 if not thorough else 6):
                ok_ = [g for g in gaps + both if n + max(g) <= 10 and abs(g[0] - g[1]) >= 2]
                plan.append((n, [rnd2.choice(ok_) for _ in range(4)]))
        for n, glist in plan:
            while True:
                par = [list(np.cumsum([rnd2.randint(1, 3) for _ in range(n + 1)])), [rnd2.randint(-3, 3) for _ in range(n + 1)]]
                if any((par[0][1] - par[0][0]) * (par[1][j] - par[1][0]) != (par[1][1] - par[1][0]) * (par[0][j] - par[0][0]) for j in range(2, n + 1)):
                    break                                                       # control points not collinear: a genuinely curved arc
            for e1, e2 in glist:
                scale = lcm_binom(n + e1) * lcm_binom(n + e2)
                (a, b), (c, d) = rnd2.choice(wins), rnd2.choice(wins)
                if rnd2.random() < 0.5:
                    c, d = d, c
                first = [X.specialize_exact([Fr(int(v)) * scale for v in r], a, b) for r in par]
                second = [X.specialize_exact([Fr(int(v)) * scale for v in r], c, d) for r in par]
                for _ in range(e1):
                    first = [X.elevate_exact(r) for r in first]
                for _ in range(e2):
                    second = [X.elevate_exact(r) for r in second]
                n1, n2 = exact_fa(first), exact_fa(second)
                if n1 is None or n2 is None:
                    res.skip("shared-arc: net not exactly representable")
                    continue
                gap = abs(e1 - e2)
                yield (n1, n2), "intersections", {"family": "shared-arc", "degrees": "%d-%d" % (n + e1, n + e2),
                                                  "cls": "shared-arc:" + ("equal-degree" if gap == 0 else "degree-gap=1" if gap == 1 else "degree-gap>=2")}

    @reg("_intersection_helpers.newton_refine", "mixed")
    def _():
        for _ in range(12):
            a = fa(G.smooth_float_net(rnd, 2, rnd.randint(2, 6)))
            b = fa([list(reversed(r)) for r in G.smooth_float_net(rnd, 2, rnd.randint(2, 6))])
            yield (rnd.uniform(0, 1), a, rnd.uniform(0, 1), b), "close-cond"
        yield (0.5, fa([[0, 1], [0, 1]]), 0.5, fa([[0, 2], [1, 3]])), "exact"        # singular: both raise ValueError
        yield (0.5, fa([[0, 2], [0, 2]]), 0.5, fa([[0, 2], [2, 0]])), "exact"        # exact hit: no-op

    @reg("_triangle_helpers.de_casteljau_one_round", "mixed")
    def _():
        for d in degs(1, 8):
            yield (tri_net(d, rnd.randint(1, 3)), d, 0.25, 0.5, 0.25), "exact"
            yield (tri_net(d, 2, False), d, rnd.uniform(0, 1), rnd.uniform(0, 1), rnd.uniform(0, 1)), "close"

    @reg("_triangle_helpers.specialize_triangle", "mixed")
    def _():
        for d in degs(1, 6):
            wa, wb, wc = np.array([1.0, 0, 0]), np.array([0.5, 0.5, 0]), np.array([0.5, 0, 0.5])
            yield (tri_net(d, rnd.randint(1, 3)), d, wa, wb, wc), "exact"
            w = [np.array([0.5, 0.25, 0.25]), np.array([0, 0.5, 0.5]), np.array([0.25, 0, 0.75])]
            yield (tri_net(d, 2), d, *w), "exact" if d <= 5 else "close"

    @reg("_triangle_helpers.subdivide_nodes", "mixed")
    def _():
        for d in degs(1, 8):
            yield (tri_net(d, rnd.randint(1, 3)), d), "exact"
            yield (tri_net(d, 2, False), d), "close"

    @reg("_triangle_helpers.jacobian_both", "mixed")
    def _():
        for d in degs(1, 8):
            dim = rnd.randint(1, 4)
            yield (tri_net(d, dim), d, dim), "exact"

    @reg("_triangle_helpers.jacobian_det", "mixed")
    def _():
        for d in degs(1, 6):
            yield (tri_net(d, 2), d, np.asfortranarray([[0.25, 0.25], [0.5, 0.125], [0.0, 0.0]])), "exact" if d <= 4 else "close"
            yield (tri_net(d, 2, False), d, np.asfortranarray([[rnd.uniform(0, .5), rnd.uniform(0, .5)]])), "close-cond"

    @reg("_triangle_helpers.evaluate_barycentric", "mixed")
    def _():
        for d in degs(1, 8) + [28, 29, 30, 31, 32]:
            nn = G.tri_nodes_count(d)
            if d <= 5:
                yield (tri_net(d, rnd.randint(1, 3)), d, 0.25, 0.5, 0.25), "exact"
            yield (np.asfortranarray(np.ones((1, nn))), d, 0.25, 0.5, 0.25), "close:deg%d" % d
            yield (tri_net(d, 2, False), d, 0.2, 0.3, 0.5), "close:deg%d" % d

    @reg("_triangle_helpers.evaluate_barycentric_multi", "mixed")
    def _():
        for d in degs(1, 8) + [30]:
            pts = np.asfortranarray([[1.0, 0, 0], [0, 1.0, 0], [0, 0, 1.0], [0.25, 0.5, 0.25], [0.2, 0.3, 0.5]])
            yield (tri_net(d, 2, False), d, pts), "close:deg%d" % d

    @reg("_triangle_helpers.evaluate_cartesian_multi", "mixed")
    def _():
        for d in degs(1, 8) + [30]:
            pts = np.asfortranarray([[0.0, 0.0], [1.0, 0.0], [0.0, 1.0], [0.25, 0.5], [0.3, 0.3]])
            yield (tri_net(d, 2, False), d, pts), "close:deg%d" % d

    @reg("_triangle_helpers.compute_edge_nodes", "mixed")
    def _():
        for d in degs(1, 8):
            yield (tri_net(d, rnd.randint(1, 3), False), d), "exact"

    @reg("_triangle_helpers.compute_area", "mixed")
    def _():
        for nn in (2, 3, 4, 5):
            yield ((fa(G.int_net(rnd, 2, nn, 8)), fa(G.int_net(rnd, 2, nn, 8))),), "close"
        yield ((fa(G.int_net(rnd, 2, 6, 8)),),), "exact"                               # both raise

    @reg("_triangle_intersection.newton_refine", "mixed")
    def _():
        for d in degs(1, 4):
            nodes = valid_tri(d, 0.125)
            yield (nodes, d, 1.0 + rnd.uniform(0, 1), 1.0 + rnd.uniform(0, 1), 0.25, 0.25), "close-cond"
        # one target coordinate reproduced exactly, the other off: x affine in s (exact lattice), dyadic s
        for d in (1, 2, 3, 4):
            nodes = valid_tri(d, 0.0)
            nodes[1, :] += np.array([0.03125 * ((7 * i) % 5 - 2) for i in range(nodes.shape[1])])
            for s0, t0 in ((0.25, 0.3), (0.5, 0.2), (0.125, 0.6)):
                yield (np.asfortranarray(nodes), d, 4.0 * s0, 1.0, s0, t0), "close-cond"
                yield (np.asfortranarray(nodes[::-1, :].copy()), d, 1.0, 4.0 * s0, t0, s0), "close-cond"

    @reg("_triangle_intersection.locate_point", "mixed")
    def _():
        from bezier.hazmat import triangle_helpers as TH
        for d in degs(1, 4):
            nodes = valid_tri(d, 0.125)
            s, t = rnd.choice([0.0, 0.25, 0.5]), rnd.choice([0.0, 0.25, 0.5])
            p = TH.evaluate_barycentric(nodes, d, 1 - s - t, s, t)
            yield (nodes, d, float(p[0, 0]), float(p[1, 0])), "locate"
            yield (nodes, d, 50.0, 50.0), "exact"
        for d in (1, 2, 3, 4):
            nodes = valid_tri(d, 0.0)
            nodes[1, :] += np.array([0.03125 * ((7 * i) % 5 - 2) for i in range(nodes.shape[1])])
            for s0, t0 in ((0.25, 0.3), (0.5, 0.2), (0.125, 0.6)):
                p = TH.evaluate_barycentric(np.asfortranarray(nodes), d, 1 - s0 - t0, s0, t0)
                yield (np.asfortranarray(nodes), d, float(p[0, 0]), float(p[1, 0])), "locate"

    @reg("_triangle_intersection.geometric_intersect", "mixed")
    def _():
        def lt():
            while True:
                p = [(rnd.randint(0, 3), rnd.randint(0, 3)) for _ in range(3)]
                area2 = (p[1][0] - p[0][0]) * (p[2][1] - p[0][1]) - (p[2][0] - p[0][0]) * (p[1][1] - p[0][1])
                if area2 > 0:
                    return fa([[q[0] for q in p], [q[1] for q in p]])
        for _ in range(80 if not thorough else 800):
            yield (lt(), 1, lt(), 1, True), "tri-intersections"
        # curved triangles of DIFFERENT degree that share whole pieces of curved edges: a valid integer parent of degree 2..3 (4 in the
        # thorough tier) against a dyadic sub-triangle of it (corner pieces, a piece resting on the middle of an edge, on a whole edge,
        # the parent itself, a piece sticking out over a corner), each elevated 0..3 times, either argument order.  The edge-edge
        # intersections of such a pair are coincident arcs of unequal degree.  Exact nets as above (parent multiplied by the product
        # of the elevation denominators).  `verify` is False (the compiled routine ignores it; with True the pure implementation
        # refuses pairs with a common corner from verify_duplicates, the class of finding F-H) and True only for the positions
        # without a common corner.
        tgaps = [(0, 2), (2, 0), (0, 3), (3, 0), (1, 3), (3, 1)]
        tnear = [(0, 1), (1, 0), (0, 0), (1, 1), (1, 2)]
        for d in ((2, 3) if not thorough else (2, 3, 4, 2, 3, 4, 2, 3)):
            xs, ys = [], []
            for k in range(d + 1):
                for j in range(d + 1 - k):
                    xs.append(Fr(j * 8 + rnd2.randint(-1, 1)))
                    ys.append(Fr(k * 8 + rnd2.randint(-1, 1)))
            todo = [(sub, rnd2.choice(tgaps)) for sub in TRI_SUBS] + [(rnd2.choice(list(TRI_SUBS)), rnd2.choice(tnear)) for _ in range(2)]
            if thorough:
                todo += [(sub, g) for sub in TRI_SUBS for g in tgaps + tnear]
            for sub, (e1, e2) in todo:
                if d + max(e1, e2) > 6:
                    e1, e2 = min(e1, 6 - d), min(e2, 6 - d)
                scale = 1
                for i in range(1, max(e1, e2) + 1):
                    scale *= d + i
                first = [[v * scale for v in xs], [v * scale for v in ys]]
                second = [X.tri_specialize_exact(r, d, *TRI_SUBS[sub]) for r in first]
                d1 = d2 = d
                for _ in range(e1):
                    first = [X.tri_elevate_exact(r, d1) for r in first]
                    d1 += 1
                for _ in range(e2):
                    second = [X.tri_elevate_exact(r, d2) for r in second]
                    d2 += 1
                n1, n2 = exact_fa(first), exact_fa(second)
                if n1 is None or n2 is None:
                    res.skip("shared-curved-edge: net not exactly representable")
                    continue
                verify = sub in TRI_SUBS_NO_COMMON_CORNER and rnd2.random() < 0.5
                gap = abs(d1 - d2)
                tag = {"family": "shared-curved-edge", "degrees": "%d-%d" % (d1, d2), "position": sub,
                       "cls": "shared-curved-edge:" + ("equal-degree" if gap == 0 else "degree-gap=1" if gap == 1 else "degree-gap>=2")}
                if rnd2.random() < 0.5:
                    yield (n1, d1, n2, d2, verify), "tri-intersections", tag
                else:
                    yield (n2, d2, n1, d1, verify), "tri-intersections", tag

        # outside tangency of a curved edge with a STRAIGHT edge presented at degree 2 (curvature exactly 0), tangents opposed: the compiled
        # classification takes the sign of a curvature with sign(1, k) (two values, 0 counts as positive -> OPPOSED, the triangles only
        # touch: []), the pure one with np.sign (three values -> TANGENT_BOTH -> ValueError 'Point type not for tangency').  Found by the
        # source-level tie of triangle_intersection.f90 (Lemmas/ClassifyF90.fortran_python_differ_at_zero_curvature); finding F-Y.
        w1 = [[Fr(0), Fr(1, 2), Fr(1), Fr(0), Fr(1, 2), Fr(0)], [Fr(0), Fr(0), Fr(0), Fr(1, 2), Fr(1, 2), Fr(1)]]
        w2 = [[Fr(1), Fr(1, 2), Fr(0), Fr(3, 4), Fr(1, 4), Fr(1, 2)], [Fr(-1, 4), Fr(1, 4), Fr(-1, 4), Fr(-9, 8), Fr(-9, 8), Fr(-2)]]
        for k, (tx, ty) in ((0, (0, 0)), (2, (3, -5)), (-2, (Fr(1, 4), Fr(7, 8)))):
            f = Fr(2) ** k
            a = exact_fa([[v * f + tx for v in w1[0]], [v * f + ty for v in w1[1]]])
            b = exact_fa([[v * f + tx for v in w2[0]], [v * f + ty for v in w2[1]]])
            tag = {"family": "outside-tangency-straight-edge", "degrees": "2-2", "position": "scale 2^%d" % k,
                   "cls": "outside-tangency-with-zero-curvature-edge"}
            yield (a, 2, b, 2, True), "tri-intersections", tag
            yield (b, 2, a, 2, True), "tri-intersections", dict(tag, position="scale 2^%d, swapped" % k)

    # ------------------------------------------------------------------ run
    registered = set(GEN)
    found = {"%s.%s" % k for k in pairs}
    for k in sorted(found - registered):
        res.mismatch("unregistered-shim-pair", {"pair": k}, "shim binds it", "no correspondence op", "every shim pair needs a registered op")
    res.notes.append("shim pairs enumerated: %d; registered ops: %d" % (len(found), len(registered)))

    def compare(name, kind, args, a, b, rc):
        """a = pure, b = compiled"""
        if a[0] != b[0]:
            return "outcome", "pure %s %s vs compiled %s %s" % (a[0], str(a[1])[:80], b[0], str(b[1])[:80])
        if a[0] == "exc":
            if a[1] != b[1]:
                return "exception-type", "pure raises %s, compiled raises %s" % (a[1], b[1])
            return None
        ca, cb = a[1], b[1]
        if name == "_helpers.wiggle_interval" and isinstance(ca, tuple) and isinstance(cb, tuple) and ca[1] is False and cb[1] is False:
            return None          # on failure the returned value is unspecified (NaN / uninitialised)
        if kind == "exact":
            if ca != cb:
                return "value", "pure %s vs compiled %s" % (str(ca)[:120], str(cb)[:120])
            return None
        if kind == "hull":
            if ca != cb:
                return "hull", "pure %s vs compiled %s" % (str(ca)[:120], str(cb)[:120])
            return None
        if shape_of(ca) != shape_of(cb):
            return "shape", "pure %s vs compiled %s" % (str(shape_of(ca))[:100], str(shape_of(cb))[:100])
        fa_, fb_ = flat(ca), flat(cb)
        scale = max([abs(v) for arg in args for v in flat(canon(arg))] + [1e-300])
        if kind in ("close", "shape+close") or kind.startswith("close:"):
            tol = 256 * U * max(scale, max([abs(v) for v in fa_] + [0.0]))
        elif kind == "close-cond":
            tol = 1e-9 * max(1.0, max([abs(v) for v in fa_] + [0.0]))
        elif kind in ("locate",):
            tol = 1e-9
        elif kind in ("intersections", "tri-intersections"):
            tol = 1e-9
        else:
            tol = 0.0
        for x, y in zip(fa_, fb_):
            if not (abs(x - y) <= tol or (x != x and y != y)):
                return "value", "pure %r vs compiled %r (tol %.3e)" % (x, y, tol)
        return None

    only = rep["name"] if rep else None
    for name in sorted(registered):
        if only and name != only:
            continue
        shim, fname = name.split(".")
        if (shim, fname) not in pairs or "pure" not in pairs[(shim, fname)] or "speedup" not in pairs[(shim, fname)]:
            res.mismatch("stale-registration", {"pair": name}, "not bound by the shim any more", "registered")
            continue
        pmod, pattr = pairs[(shim, fname)]["pure"]
        pure_fn = getattr(importlib.import_module("bezier.hazmat." + pmod), pattr)
        fast_fn = getattr(_speedup, pairs[(shim, fname)]["speedup"])
        kind0, genf = GEN[name]
        if rep and rep.get("direct") is not None:
            # a case that carries its own arguments (the shared-arc families): repeated bit for bit, whatever seed / tier is set now
            cases = [(rep["index"], (from_direct(rep["direct"]), rep["kind"], rep.get("tag")))]
        else:
            cases = enumerate(genf())
        for idx, item in cases:
            args, kind = item[0], item[1]
            tag = item[2] if len(item) > 2 else None
            if rep and rep.get("direct") is None and idx != rep["index"] and not rep.get("whole_run"):
                continue
            # fresh copies for each side (also detects in-place modification differences)
            a = run(pure_fn, [np.array(x, order="F") if isinstance(x, np.ndarray) else x for x in args])
            rc = {"name": name, "index": idx, "seed": seed, "kind": kind, "args": str([canon(x) for x in args])[:600]}
            if tag:
                rc.update(tag=tag, direct=to_direct(args))
            b = run(fast_fn, [np.array(x, order="F") if isinstance(x, np.ndarray) else x for x in args], keep=(name, rc))
            res.count((name, str([canon(x) for x in args])), op=name, kind=kind.split(":")[0], outcome=a[0] if a[0] == "exc" else "ok",
                      **({"family": tag["family"], tag["family"] + ":degrees": tag["degrees"],
                          tag["family"] + ":outcome": (a[1] if a[0] == "exc" else "coincident" if name.endswith("all_intersections") and a[1][1] is True
                                                       else "returned")} if tag else {}))
            if idx < 1:
                res.sample({"op": name, "kind": kind, "pure": str(a)[:100], "compiled": str(b)[:100]})
            bad = compare(name, kind, args, a, b, rc)
            if bad:
                what, detail = bad
                key = "py-vs-f90:%s:%s" % (name, what)
                if name.startswith("_triangle_helpers.evaluate_") and kind.startswith("close:deg") and int(kind[9:]) >= 30:
                    key = "f90-int32-binomial-overflow:degree>=30"
                if name == "_helpers.simple_convex_hull":
                    pts = list(zip(*[list(r) for r in args[0]]))
                    if len(set(pts)) < len(pts):
                        key = "f90-hull:repeated-points"
                if name == "_triangle_intersection.geometric_intersect" and a == ("exc", "ValueError") and b[0] == "ok" \
                        and vertex_on_boundary(args[0], args[2]):
                    key = "tri-intersect:vertex-on-boundary:py-raises-f90-returns"
                if tag:
                    # the shared-arc families name their own class (degrees of the two presentations), never one of the keys above
                    key = "py-vs-f90:%s:%s:%s" % (name, what, tag["cls"])
                    detail = "%s [%s, degrees %s%s]" % (detail, tag["family"], tag["degrees"], ", position " + tag["position"] if "position" in tag else "")
                res.failure(key, "%s: %s" % (name, detail), rc)
    # what the compiled call returned must still be what it returned: results are kept (as a program keeps them) and read again
    # after all later calls; the pure implementation always hands out fresh arrays
    if not rep or rep.get("whole_run"):
        for (name, rc), raw, c0 in KEPT:
            c1 = canon(raw)
            if nan_safe(c1) != nan_safe(c0):            # NaN entries are unchanged entries (NaN != NaN was a false alarm, soak seed 13)
                res.failure("py-vs-f90:%s:result-changed-by-later-calls" % name, "%s: the value returned by the compiled routine read %s right after "
                            "the call and %s after later calls of the run (the pure implementation returns independent arrays)" %
                            (name, str(c0)[:160], str(c1)[:160]), dict({k: v for k, v in rc.items() if k != "direct"}, whole_run=True))
                break
    res.emit()
    if rep:
        bad = bool(res.failures)
        print("replay: " + ("implementations differ: " + res.failures[0]["what"] if bad else "implementations agree on this input"))
        sys.exit(1 if bad else 0)


main()
