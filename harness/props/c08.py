"""C08 — degree elevation preserves the shape; reduction inverts elevation: correspondence + oracle.

impl  : elevate_nodes, reduce_pseudo_inverse, full_reduce (shims), Curve.elevate / reduce_, Triangle.elevate
model : driver `elevate`/`elevate_f90`, `reduce`, `fullreduce`, `canreduce`
spec  : exact elevation formula, exact Moore-Penrose right inverse E^T (E E^T)^-1, same-map test
"""
import sys
import numpy as np
from fractions import Fraction as Fr
import common as C
import exact as X
import gen as G


def kfold(row, k):
    for _ in range(k):
        row = X.elevate_exact(row)
    return row


def main():
    bezier = C.import_bezier()
    from bezier import _curve_helpers as CH
    from bezier.hazmat import helpers as HH
    rnd, seed = C.rng()
    thorough = C.tier() == "thorough"
    cfg = C.config_name()
    res = C.Result("C08")
    rep = C.replay_case()
    thr = C.generated("py_curve_helpers_REDUCE_THRESHOLD" if cfg == "pure" else "f90_curve_REDUCE_THRESHOLD", Fr(1, 2 ** 26))
    thr_sq = thr * thr
    cases = []

    def add(kind, routine, nodes, extra=None):
        cases.append((kind, routine, nodes, extra))

    if rep:
        add(rep["kind"], rep["routine"], [[Fr(x) for x in r] for r in rep["nodes"]], rep.get("extra"))
    else:
        # ---- elevation: operator extraction (scaled identity: all outputs integers => regime E), degrees 1..40
        for n in range(1, 41):
            nn = n + 1
            add("elevate", "elevate_nodes", G.unit_nets(nn, scale=nn))
            add("elevate", "elevate_nodes", G.unit_nets(nn))
            for dim in (1, 2, 3, 4) if thorough else (rnd.choice([1, 2, 3, 4]),):
                add("elevate", rnd.choice(["elevate_nodes", "Curve.elevate"]), G.float_net(rnd, dim, nn, rnd.choice([-8, 0, 8])))
        # ---- reduction: all unit nets scaled by 420 (= lcm of the denominators 2, 6, 20, 210 .. so outputs are integers)
        for nn in (2, 3, 4, 5):
            add("reduce", "reduce_pseudo_inverse", G.unit_nets(nn, scale=420))
            add("reduce", "reduce_pseudo_inverse", G.unit_nets(nn))
            for dim in (1, 2, 3, 4):
                add("reduce", rnd.choice(["reduce_pseudo_inverse", "Curve.reduce_"]), G.float_net(rnd, dim, nn, 0))
                add("reduce", "reduce_pseudo_inverse", G.int_net(rnd, dim, nn, 64))
            # reduce(elevate(v)) == v
            for _ in range(4):
                base = G.float_net(rnd, rnd.choice([1, 2, 3]), nn - 1, 0)
                add("reduce-elevated", "reduce_pseudo_inverse", base)
        for nn in range(6, 14):
            add("reduce-raises", rnd.choice(["reduce_pseudo_inverse", "Curve.reduce_"]), G.int_net(rnd, 2, nn, 8))
        add("reduce-raises", "full_reduce", G.float_net(rnd, 2, 7, 0))
        # ---- full reduction: k-fold elevations at distance 0, 2^-40, 2^-20 from the elevated subspace
        for base_n in (1, 2, 3, 4):          # degree of the genuine curve
            for k in range(0, 4):
                if base_n + k > 4:
                    continue
                for dist_exp in (None, -40, -20):
                    for _ in range(2 if not thorough else 8):
                        dim = rnd.choice([1, 2, 3])
                        def top_difference(r):
                            from math import comb
                            m = len(r) - 1
                            return sum((-1) ** (m - j) * comb(m, j) * r[j] for j in range(m + 1))
                        while True:
                            base = G.int_net(rnd, dim, base_n + 1, 32)
                            # the base must be genuinely of its degree: some coordinate has a non-zero top forward difference
                            # (and clearly so: the reduction test is relative, 2^-4 of the size is far from its threshold)
                            size = max(abs(x) for r in base for x in r) or 1
                            if any(abs(top_difference(r)) * 16 >= size for r in base):
                                break
                        # the decision is relative: it must not depend on the overall scale of the net
                        sc = Fr(2) ** rnd.choice([0, 0, -12, -20, 12, 30])
                        base = [[x * sc for x in r] for r in base]
                        add("full-reduce", "full_reduce", base, {"k": k, "dist_exp": dist_exp, "scale": str(sc)})

    # ------------------------------------------------------------------ model queries
    drv = C.Driver()
    idx = []
    prepared = []
    for kind, routine, nodes, extra in cases:
        if kind == "elevate":
            idx.append(drv.ask("elevate" if cfg == "pure" else "elevate_f90", nodes))
            prepared.append(nodes)
        elif kind == "reduce":
            idx.append(drv.ask("reduce", nodes))
            prepared.append(nodes)
        elif kind == "reduce-elevated":
            el = [X.elevate_exact(r) for r in nodes]
            el = [[Fr(float(x)) for x in r] for r in el]     # what is actually passed (binary64)
            idx.append(drv.ask("reduce", el))
            prepared.append(el)
        elif kind == "full-reduce":
            k, de = extra["k"], extra["dist_exp"]
            el = [kfold(r, k) for r in nodes]
            if de is not None:
                size = max(abs(x) for r in el for x in r) or 1
                # alternate-sign perturbation: far from every elevated subspace
                el = [[x + ((-1) ** j) * size * Fr(2) ** de for j, x in enumerate(r)] for r in el]
            el = [[Fr(float(x)) for x in r] for r in el]
            idx.append((drv.ask("fullreduce", thr_sq, el), drv.ask("canreduce", thr_sq, el)))
            prepared.append(el)
        else:
            idx.append(None)
            prepared.append(nodes)
    replies = drv.run()

    def call(routine, arr):
        n = arr.shape[1] - 1
        if routine == "elevate_nodes":
            return np.asarray(CH.elevate_nodes(arr))
        if routine == "Curve.elevate":
            return np.asarray(bezier.Curve(arr, n).elevate().nodes)
        if routine == "reduce_pseudo_inverse":
            return np.asarray(CH.reduce_pseudo_inverse(arr))
        if routine == "Curve.reduce_":
            return np.asarray(bezier.Curve(arr, n).reduce_().nodes)
        if routine == "full_reduce":
            return np.asarray(CH.full_reduce(arr))
        raise SystemExit("unknown routine " + routine)

    for (kind, routine, nodes, extra), ri, inp in zip(cases, idx, prepared):
        dim = len(inp)
        nn = len(inp[0])
        arr = C.farr(inp)
        rc = {"kind": kind, "routine": routine, "nodes": C.jfr(nodes) if dim <= 4 else C.jfr(nodes[:2]), "extra": extra}
        key = (kind, routine, C.jfr(nodes) if dim <= 4 else ("identity", nn, str(nodes[0][0])), str(extra))
        res.count(key, kind=kind, routine=routine, num_nodes=nn, dim=min(dim, 5))
        res.sample({"kind": kind, "routine": routine, "num_nodes": nn, "dim": dim, "extra": extra})
        if kind == "reduce-raises":
            try:
                call(routine, arr)
                res.failure("unsupported-degree-not-raised", "%s with %d nodes returned normally" % (routine, nn), rc)
            except HH.UnsupportedDegree:
                pass
            except Exception as exc:  # noqa
                res.failure("unsupported-degree-wrong-error", "%s with %d nodes raised %r" % (routine, nn, type(exc).__name__), rc)
            continue
        try:
            out = call(routine, arr)
        except Exception as exc:  # noqa
            res.failure("raised:" + type(exc).__name__, "%s raised %r" % (routine, exc), rc)
            continue
        if kind == "elevate":
            st, model = replies[ri]
            if out.shape != (dim, nn + 1):
                res.failure("shape", "elevate shape %r" % (out.shape,), rc)
                continue
            for r in range(dim):
                spec = X.elevate_exact(inp[r])
                if spec != model[r]:
                    res.mismatch("model-vs-spec:elevate", rc, C.jfr(model[r]), C.jfr(spec))
                # end points bit-for-bit
                if Fr(float(out[r, 0])) != inp[r][0] or Fr(float(out[r, nn])) != inp[r][nn - 1]:
                    res.failure("elevate-endpoint-changed", "%s: end point not copied bit-for-bit (row %d)" % (routine, r), rc)
                exact_regime = all(x.denominator == 1 for x in spec) and max(abs(x) for x in inp[r]) <= 2 ** 20
                for c in range(nn + 1):
                    got = Fr(float(out[r, c]))
                    if got == model[r][c]:
                        continue
                    scale = (abs(inp[r][c - 1]) if c >= 1 else 0) + (abs(inp[r][c]) if c < nn else 0)
                    tol = 8 * C.U * scale
                    if exact_regime:
                        res.mismatch(routine, rc, str(got), str(model[r][c]), "E regime")
                    if abs(got - model[r][c]) > tol:
                        if not exact_regime:
                            res.mismatch(routine, rc, str(got), str(model[r][c]), "T regime")
                        res.failure("elevate-wrong", "%s %d nodes: node %d is %s, exact %s" % (routine, nn, c, got, spec[c]), rc)
                # same map, point for point (dyadic parameters, exact evaluation of both nets)
                if dim <= 4:
                    for s in (Fr(1, 4), Fr(5, 8)):
                        a = X.bern([Fr(float(x)) for x in out[r]], s)
                        b = X.bern(inp[r], s)
                        if abs(a - b) > 16 * C.U * X.bern_abs(inp[r], s):
                            res.failure("elevate-not-same-map", "%s: elevated curve differs at s=%s: %s vs %s" % (routine, s, a, b), rc)
        elif kind in ("reduce", "reduce-elevated"):
            st, model = replies[ri]
            if st != "ok":
                res.mismatch(routine, rc, "returned", "err " + str(model))
                continue
            pinv = X.reduction_pinv(nn - 2)        # degree nn-2 -> elevation matrix E of size (nn-1) x nn
            for r in range(dim):
                spec = [sum(inp[r][i] * pinv[i][j] for i in range(nn)) for j in range(nn - 1)]
                if spec != model[r]:
                    res.mismatch("model-vs-spec:reduce", rc, C.jfr(model[r]), C.jfr(spec))
                exact_regime = all(x.denominator == 1 for x in spec) and all(x.denominator == 1 for x in inp[r])
                for c in range(nn - 1):
                    got = Fr(float(out[r, c]))
                    if got == model[r][c]:
                        continue
                    scale = sum(abs(inp[r][i] * pinv[i][c]) for i in range(nn))
                    tol = 16 * C.U * scale
                    if exact_regime:
                        res.mismatch(routine, rc, str(got), str(model[r][c]), "E regime")
                    if abs(got - spec[c]) > tol:
                        if not exact_regime:
                            res.mismatch(routine, rc, str(got), str(model[r][c]), "T regime")
                        res.failure("reduce-not-pseudo-inverse", "%s %d nodes: node %d is %s, least-squares inverse gives %s" %
                                    (routine, nn, c, got, spec[c]), rc)
                if kind == "reduce-elevated":
                    for c in range(nn - 1):
                        if abs(Fr(float(out[r, c])) - nodes[r][c]) > 64 * C.U * max(abs(x) for x in nodes[r]):
                            res.failure("reduce-does-not-invert-elevate", "%s: reduce(elevate(v)) node %d = %s, v = %s" %
                                        (routine, c, out[r, c], nodes[r][c]), rc)
        elif kind == "full-reduce":
            (st, model) = replies[ri[0]]
            (st2, can) = replies[ri[1]]
            k, de = extra["k"], extra["dist_exp"]
            base_nn = len(nodes[0])
            got_nn = out.shape[1]
            # specification: distance 0 or 2^-40 (relative) => all k spurious elevations stripped (the
            # base is genuinely of its degree); 2^-20 => untouched
            want_nn = base_nn if de in (None, -40) else base_nn + k
            if de == -40 and k == 0:
                want_nn = base_nn
            model_nn = len(model[0]) if st == "ok" else None
            if model_nn is not None and got_nn != model_nn:
                res.mismatch("full_reduce", rc, got_nn, model_nn, "number of nodes after full reduction")
            if got_nn != want_nn and not (de == -40 and got_nn < want_nn):
                res.failure("full-reduce-wrong-degree", "full_reduce of a %d-fold elevation (perturbation %s) of a genuine degree-%d net returned %d nodes, expected %d" %
                            (k, de, base_nn - 1, got_nn, want_nn), rc)
            elif st == "ok" and got_nn == model_nn:
                size = max(abs(x) for r in inp for x in r) or 1
                for r in range(dim):
                    for c in range(got_nn):
                        if abs(Fr(float(out[r, c])) - model[r][c]) > 256 * C.U * size:
                            res.mismatch("full_reduce", rc, str(out[r, c]), str(model[r][c]), "values")
                            res.failure("full-reduce-wrong-values", "full_reduce node (%d,%d) = %s, exact %s" % (r, c, out[r, c], model[r][c]), rc)

    # ---- Triangle.elevate: same map + corners bit-for-bit (spec only here; the triangle model has its own check)
    if not rep:
        for d in range(1, 13):
            nn = G.tri_nodes_count(d)
            for trial in range(2 if not thorough else 6):
                dim = rnd.choice([2, 3])
                nodes = G.float_net(rnd, dim, nn, 0) if trial else G.int_net(rnd, dim, nn, 64)
                arr = C.farr(nodes)
                tri = bezier.Triangle(arr, d)
                el = np.asarray(tri.elevate().nodes)
                rc = {"kind": "tri-elevate", "routine": "Triangle.elevate", "nodes": C.jfr(nodes), "extra": {"degree": d}}
                res.count(("tri-elevate", C.jfr(nodes)), kind="tri-elevate", routine="Triangle.elevate", num_nodes=nn, dim=dim)
                for r in range(dim):
                    spec = X.tri_elevate_exact(nodes[r], d)
                    for c in range(len(spec)):
                        got = Fr(float(el[r, c]))
                        if abs(got - spec[c]) > 16 * C.U * max(abs(x) for x in nodes[r]):
                            res.failure("tri-elevate-wrong", "Triangle.elevate degree %d node %d: %s vs exact %s" % (d, c, got, spec[c]), rc)
                    corners_old = [0, d, nn - 1]
                    corners_new = [0, d + 1, len(spec) - 1]
                    for co, cn in zip(corners_old, corners_new):
                        if Fr(float(el[r, cn])) != nodes[r][co]:
                            res.failure("tri-elevate-corner-changed", "Triangle.elevate degree %d: corner %d not unchanged bit-for-bit (%s -> %s)" %
                                        (d, co, float(nodes[r][co]).hex(), float(el[r, cn]).hex()), rc)
    res.emit()
    if rep:
        bad = bool(res.failures)
        print("replay: " + ("property fails on this input: " + res.failures[0]["what"] if bad else "property holds on this input"))
        sys.exit(1 if bad else 0)


main()
