"""C09 — triangle subdivision tiles the original surface: correspondence + oracle.

impl  : _triangle_helpers.subdivide_nodes / specialize_triangle / de_casteljau_one_round (shim: pure or
        compiled, by package tree), Triangle.subdivide
model : Lean driver `tri_subdivide_py|f90`, `tri_subdivide_generic_py|f90`, `tri_specialize_py|f90`,
        `tri_dcround`, `tri_submat` (K := Rat)
spec  : exact blossoms: control point (i,j,k) of the piece = i rounds with weights a, j with b, k with c
        (exact.py), and for whole operator matrices the same rounds carried out in integers on the
        identity matrix (all weights dyadic), independent of the library's tables and of the model
"""
import math
import os
import sys
import numpy as np
from fractions import Fraction as Fr
import common as C
import exact as X
import gen as G

QUARTERS = "ABCD"


def idx(d, j, k):
    return X.tri_index(d, j, k)


def int_round(mat, d, w, scale):
    """one de Casteljau round on every column-vector net: mat is (N_d x M) integers, weights w are
    integers over the common denominator `scale`; result (N_{d-1} x M), to be divided by scale"""
    rows = []
    for k in range(d):
        for j in range(d - k):
            rows.append(w[0] * mat[idx(d, j, k)] + w[1] * mat[idx(d, j + 1, k)] + w[2] * mat[idx(d, j, k + 1)])
    return rows


def spec_operator(d, wa, wb, wc):
    """exact operator matrix M (N x N, new = nodes . M) of the specialisation to the triangle with
    barycentric corners wa, wb, wc (dyadic).  Integer arithmetic over the denominator scale^d."""
    den = 1
    for w in (wa, wb, wc):
        for x in w:
            den = max(den, Fr(x).denominator)
    assert den & (den - 1) == 0, "dyadic weights expected"
    ws = [[int(Fr(x) * den) for x in w] for w in (wa, wb, wc)]
    n = G.tri_nodes_count(d)
    ident = [np.array([1 if r == c else 0 for c in range(n)], dtype=object) for r in range(n)]
    # prefix sharing: nets after a^i, then a^i b^j, then a^i b^j c^k
    cols = {}
    net_a = ident
    deg = d
    nets_a = [net_a]
    for i in range(1, d + 1):
        net_a = int_round(net_a, deg, ws[0], den)
        deg -= 1
        nets_a.append(net_a)
    for i in range(d + 1):
        net_ab = nets_a[i]
        deg_ab = d - i
        for j in range(d - i + 1):
            if j > 0:
                net_ab = int_round(net_ab, deg_ab, ws[1], den)
                deg_ab -= 1
            net = net_ab
            deg = deg_ab
            k = d - i - j
            for _ in range(k):
                net = int_round(net, deg, ws[2], den)
                deg -= 1
            assert len(net) == 1
            cols[(j, k)] = net[0]
    full = den ** d
    m = [[None] * n for _ in range(n)]
    for (j, k), vec in cols.items():
        c = idx(d, j, k)
        for r in range(n):
            m[r][c] = Fr(int(vec[r]), full)
    return m


def abs_blossom_scale(row, d, wa, wb, wc):
    aw = [tuple(abs(Fr(x)) for x in w) for w in (wa, wb, wc)]
    return X.tri_specialize_exact([abs(x) for x in row], d, *aw)


def e_budget_ok(d, ws, vbits):
    m = max(Fr(x).denominator.bit_length() - 1 for w in ws for x in w)
    grow = max(max(sum(abs(Fr(x)) for x in w) for w in ws), 1)
    return d * m + d * math.log2(float(grow)) + vbits + 3 <= 52


def main():
    bezier = C.import_bezier()
    from bezier import _triangle_helpers as TH
    from bezier.hazmat import triangle_helpers as HZ
    rnd, seed = C.rng()
    tier = C.tier()
    thorough = tier == "thorough"
    search = bool(os.environ.get("VERIF_SEARCH"))
    cfg = C.config_name()
    variant = "py" if cfg == "pure" else "f90"
    res = C.Result("C09")
    rep = C.replay_case()

    # the six weight constants of the library (Python module constants; the Fortran literals are the
    # same numbers by Tables/C09b: its closed forms and generic calls are compared with the same model)
    W6 = [[Fr(float(x)) for x in getattr(HZ, "_WEIGHTS_SUBDIVIDE%d" % i)] for i in range(6)]
    QW = {"A": (W6[0], W6[1], W6[2]), "B": (W6[3], W6[2], W6[1]), "C": (W6[1], W6[4], W6[3]), "D": (W6[2], W6[3], W6[5])}
    for q in QUARTERS:
        if tuple(tuple(w) for w in QW[q]) != X.TRI_QUARTERS[q]:
            res.failure("quarter-weights", "weights of quarter %s are %s, documented %s" % (q, QW[q], X.TRI_QUARTERS[q]),
                        {"kind": "weights"})

    cases = []

    def add(kind, routine, d, nodes, ws=None, label=None):
        cases.append({"kind": kind, "routine": routine, "degree": d, "nodes": nodes, "ws": ws, "label": label})

    DY = [Fr(0), Fr(1), Fr(1, 2), Fr(1, 4), Fr(3, 4), Fr(-1, 2), Fr(3, 2), Fr(1, 8)]

    def dy_weight(barycentric=True):
        a, b = rnd.choice(DY), rnd.choice(DY)
        return [1 - a - b, a, b] if barycentric else [a, b, rnd.choice(DY)]

    if rep:
        add(rep["kind"], rep["routine"], rep["degree"], [[Fr(x) for x in r] for r in rep["nodes"]],
            None if rep.get("ws") is None else [[Fr(x) for x in w] for w in rep["ws"]], rep.get("label"))
    else:
        degs = list(range(1, 11)) if not thorough else list(range(1, 15))
        if search:
            degs = list(range(1, 13))
        for d in degs:
            n = G.tri_nodes_count(d)
            # (1) operator extraction: the identity net (= every unit net at once)
            add("subdivide", "subdivide_nodes", d, G.unit_nets(n), label="identity")
            # (2) integer / dyadic nets in dimensions 1..3 through both entry points
            for dim in (1, 2, 3):
                add("subdivide", rnd.choice(["subdivide_nodes", "Triangle.subdivide"]), d, G.int_net(rnd, dim, n, 256))
                add("subdivide", "Triangle.subdivide" if dim > 1 else "subdivide_nodes", d, G.dyadic_net(rnd, dim, n, 16, 6))
                add("subdivide", "subdivide_nodes", d, G.float_net(rnd, dim, n, rnd.choice([-10, 0, 10])))
            # (3) the generic blossoming path called directly with the six weights (tables vs generic)
            add("generic", "specialize_triangle", d, G.unit_nets(n) if d <= 6 else G.int_net(rnd, 3, n, 256), label="identity" if d <= 6 else None)
            add("generic", "specialize_triangle", d, G.int_net(rnd, rnd.choice([1, 2, 3]), n, 256))
            # (4) specialize_triangle with other dyadic weight triples
            for _ in range(2 if not thorough else 6):
                add("specialize", "specialize_triangle", d, G.int_net(rnd, rnd.choice([1, 2, 3]), n, 64),
                    [dy_weight(), dy_weight(), dy_weight(rnd.random() < 0.8)])
            if d <= 6:
                add("specialize", "specialize_triangle", d, G.unit_nets(n), [dy_weight(), dy_weight(), dy_weight()], label="identity")
            add("specialize", "specialize_triangle", d, G.float_net(rnd, 2, n, 0),
                [[Fr(rnd.uniform(-0.5, 1.5)) for _ in range(3)] for _ in range(3)])
            # (5) one round of de Casteljau
            for _ in range(2):
                add("round", "de_casteljau_one_round", d, G.int_net(rnd, rnd.choice([1, 2, 3]), n, 256), [dy_weight(False)])
            add("round", "de_casteljau_one_round", d, G.unit_nets(n), [dy_weight(False)], label="identity")
            add("round", "de_casteljau_one_round", d, G.float_net(rnd, 2, n, 0), [[Fr(rnd.uniform(-1, 2)) for _ in range(3)]])

    # ------------------------------------------------------------------ model requests
    drv = C.Driver()
    mat_req = {}
    for c in cases:
        d, nodes = c["degree"], c["nodes"]
        big = len(nodes) > 8
        # the exact Python-variant model multiplies by full one-round matrices: on the identity net of
        # degree >= 8 only a sample of unit nets is sent (the whole operator is compared with
        # `tri_submat` and with the integer specification in any case)
        c["rows"] = list(range(len(nodes)))
        if big and variant == "py" and d >= (8 if not thorough else 10):
            c["rows"] = sorted(rnd.sample(range(len(nodes)), 6))
        sent = [nodes[r] for r in c["rows"]]
        if c["kind"] == "subdivide":
            c["mi"] = drv.ask("tri_subdivide_" + variant, d, sent, W6)
            if c["label"] == "identity" and d not in mat_req:
                mat_req[d] = drv.ask("tri_submat", d, W6)
        elif c["kind"] == "generic":
            c["mi"] = drv.ask("tri_subdivide_generic_" + variant, d, sent, W6)
        elif c["kind"] == "specialize":
            c["mi"] = drv.ask("tri_specialize_" + variant, d, sent, *c["ws"])
        elif c["kind"] == "round":
            c["mi"] = drv.ask("tri_dcround", d, sent, c["ws"][0])
    import time as _time
    _t0 = _time.time()
    replies = drv.run()
    res.notes.append("driver %.1fs for %d requests" % (_time.time() - _t0, len(replies)))

    spec_ops = {}

    def spec_op(d, ws):
        key = (d, tuple(tuple(w) for w in ws))
        if key not in spec_ops:
            spec_ops[key] = spec_operator(d, *ws)
        return spec_ops[key]

    def band(d):
        return "1-4" if d <= 4 else "5-10" if d <= 10 else "11+"

    def rcase(c, rows=None):
        nodes = c["nodes"] if rows is None else [c["nodes"][r] for r in rows]
        return {"kind": c["kind"], "routine": c["routine"], "degree": c["degree"], "nodes": C.jfr(nodes),
                "ws": None if c["ws"] is None else C.jfr(c["ws"]), "label": c["label"]}

    def compare(c, name, out, model_rows, spec, scale_fn, ws, exact_regime, reported):
        """out: ndarray dim x m; model_rows: {row index: list}; spec: list of rows (exact)"""
        d = c["degree"]
        dim = len(c["nodes"])
        for r in range(dim):
            mrow = model_rows.get(r)
            if mrow is not None and mrow != spec[r]:
                res.mismatch("model-vs-spec:" + name, rcase(c, [r]), C.jfr(mrow[:6]), C.jfr(spec[r][:6]))
            scale_row = None
            for col in range(len(spec[r])):
                got = Fr(float(out[r, col]))
                if got == spec[r][col]:
                    continue
                if scale_row is None:
                    scale_row = scale_fn(r)
                t_ = 4 * (3 * d + 6) * C.U * scale_row[col]
                if exact_regime:
                    if mrow is not None:
                        res.mismatch(c["routine"], rcase(c, [r]), str(got), str(mrow[col]), "E regime: must be bit-exact (%s)" % name)
                    if reported[0] < 3:
                        reported[0] += 1
                        res.failure("control-point-wrong:" + c["routine"] + (":tables" if c["kind"] == "subdivide" and d <= 4 else ":generic"),
                                    "%s degree %d piece %s node %d: got %r, exact %r" % (c["routine"], d, name, col, float(got), float(spec[r][col])),
                                    rcase(c, [r] if dim > 4 else None))
                elif abs(got - spec[r][col]) > t_:
                    if mrow is not None:
                        res.mismatch(c["routine"], rcase(c, [r]), str(got), str(mrow[col]), "T regime (%s)" % name)
                    if reported[0] < 3:
                        reported[0] += 1
                        res.failure("control-point-wrong:" + c["routine"] + (":tables" if c["kind"] == "subdivide" and d <= 4 else ":generic"),
                                    "%s degree %d piece %s node %d: |got-exact|=%.3e > %.3e" %
                                    (c["routine"], d, name, col, float(abs(got - spec[r][col])), float(t_)), rcase(c, [r] if dim > 4 else None))

    for c in cases:
        d, nodes, routine, kind = c["degree"], c["nodes"], c["routine"], c["kind"]
        dim = len(nodes)
        n = G.tri_nodes_count(d)
        arr = C.farr(nodes)
        ints = all(x.denominator == 1 for r in nodes for x in r)
        dyadic = all(C.is_exact_float(x) for r in nodes for x in r)
        vb = int(max(1, max(abs(x.numerator) for r in nodes for x in r))).bit_length() + \
            max(x.denominator.bit_length() - 1 for r in nodes for x in r)
        key = (kind, routine, d, C.jfr(nodes) if dim <= 4 else (c["label"], dim), C.jfr(c["ws"]))
        nontrivial = any(x != 0 for r in nodes for x in r)
        reported = [0]
        st, model = replies[c["mi"]]
        if st != "ok":
            res.mismatch(routine, rcase(c, range(min(dim, 3))), "ok", "err " + str(model), "model raised")
            continue

        if kind in ("subdivide", "generic"):
            if kind == "subdivide":
                if routine == "Triangle.subdivide":
                    outs = [np.asarray(t.nodes) for t in bezier.Triangle(arr, d).subdivide()]
                else:
                    outs = [np.asarray(o) for o in TH.subdivide_nodes(arr, d)]
            else:
                outs = [np.asarray(TH.specialize_triangle(arr, d, np.asfortranarray([float(x) for x in QW[q][0]]),
                                                          np.asfortranarray([float(x) for x in QW[q][1]]),
                                                          np.asfortranarray([float(x) for x in QW[q][2]]))) for q in QUARTERS]
            small_float = dyadic and not ints and max(x.denominator for r in nodes for x in r) > 2 ** 10
            exact_regime = dyadic and not small_float and e_budget_ok(d, [w for q in QUARTERS for w in QW[q]], vb)
            res.count(key, nontrivial=nontrivial, kind=kind, routine=routine, regime="E" if exact_regime else "T",
                      degree_band=band(d), dim=min(dim, 4), path="tables" if (kind == "subdivide" and d <= 4) else "generic")
            res.sample({"kind": kind, "routine": routine, "degree": d, "dim": dim, "regime": "E" if exact_regime else "T"})
            specs = []
            for qi, q in enumerate(QUARTERS):
                out = outs[qi]
                if out.shape != (dim, n):
                    res.failure("shape:" + routine, "piece %s has shape %r" % (q, out.shape), rcase(c, range(min(dim, 3))))
                    continue
                if c["label"] == "identity":
                    spec = spec_op(d, QW[q])
                else:
                    spec = [X.tri_specialize_exact(row, d, *[tuple(w) for w in QW[q]]) for row in nodes]
                specs.append(spec)
                mrows = {r: model[qi][i] for i, r in enumerate(c["rows"])}
                compare(c, q, out, mrows, spec, lambda r, q=q: abs_blossom_scale(nodes[r], d, *QW[q]), QW[q], exact_regime, reported)
                # the model-derived operator matrices (what Tables/C09 compares the tables with)
                if kind == "subdivide" and c["label"] == "identity" and d in mat_req:
                    sm = replies[mat_req[d]][1][qi]
                    if sm != spec:
                        res.mismatch("model-vs-spec:tri_submat", {"degree": d, "quarter": q}, "model matrix", "integer specification")
            # neighbouring pieces share their common boundary control points (bitwise in E, else within tolerance)
            if len(specs) == 4 and all(o.shape == (dim, n) for o in outs):
                a_, b_, c_, d_ = outs
                pairs = []
                for j in range(d + 1):
                    k = d - j
                    pairs.append(("A-B", a_[:, idx(d, j, k)], b_[:, idx(d, k, j)]))      # A(0,j,k) = B(0,k,j)
                for k in range(d + 1):
                    pairs.append(("B-C", b_[:, idx(d, 0, k)], c_[:, idx(d, 0, d - k)]))  # B(i,0,k) = C(k,0,i)
                for j in range(d + 1):
                    pairs.append(("B-D", b_[:, idx(d, j, 0)], d_[:, idx(d, d - j, 0)]))  # B(i,j,0) = D(j,i,0)
                # corners of the original triangle are kept
                pairs.append(("corner-A", a_[:, 0], arr[:, 0]))
                pairs.append(("corner-C", c_[:, idx(d, d, 0)], arr[:, idx(d, d, 0)]))
                pairs.append(("corner-D", d_[:, n - 1], arr[:, n - 1]))
                for name, u, v in pairs:
                    if np.array_equal(u, v):
                        continue
                    if exact_regime or name.startswith("corner") or (kind == "subdivide" and d <= 4 and cfg == "speedup"):
                        if reported[0] < 3:
                            reported[0] += 1
                            res.failure("shared-boundary:" + routine + (":tables" if kind == "subdivide" and d <= 4 else ":generic"),
                                        "%s degree %d: common boundary %s differs: %s vs %s" % (routine, d, name, u.tolist()[:3], v.tolist()[:3]),
                                        rcase(c, range(min(dim, 3))))
                    else:
                        # binary64 nets on the generic path: the two pieces reach the common control
                        # point through rounds applied in a different order; recorded, judged within tolerance
                        res.dist.setdefault("boundary_not_bitwise_on_binary64_nets", {})
                        kk = "%s:degree%s" % (cfg, "<=4" if d <= 4 else ">=5")
                        res.dist["boundary_not_bitwise_on_binary64_nets"][kk] = res.dist["boundary_not_bitwise_on_binary64_nets"].get(kk, 0) + 1
                        sc = max(float(abs(x)) for r in nodes for x in r)
                        if float(np.max(np.abs(u - v))) > float(8 * (3 * d + 6) * C.U) * sc * 3 ** 0:
                            res.failure("shared-boundary:" + routine + ":generic",
                                        "%s degree %d: common boundary %s differs beyond rounding" % (routine, d, name), rcase(c, range(min(dim, 3))))
            continue

        if kind == "specialize":
            ws = c["ws"]
            out = np.asarray(TH.specialize_triangle(arr, d, *[np.asfortranarray([float(x) for x in w]) for w in ws]))
            exact_w = all(C.is_exact_float(x) for w in ws for x in w)
            exact_regime = ints and exact_w and all(Fr(x).denominator <= 8 for w in ws for x in w) and e_budget_ok(d, ws, vb)
            res.count(key, nontrivial=nontrivial, kind=kind, routine=routine, regime="E" if exact_regime else "T",
                      degree_band=band(d), dim=min(dim, 4), path="generic")
            if out.shape != (dim, n):
                res.failure("shape:" + routine, "shape %r" % (out.shape,), rcase(c, range(min(dim, 3))))
                continue
            wt = [tuple(Fr(x) for x in w) for w in ws]
            if c["label"] == "identity" and exact_w and all(Fr(x).denominator & (Fr(x).denominator - 1) == 0 for w in ws for x in w):
                spec = spec_op(d, wt)
            else:
                spec = [X.tri_specialize_exact(row, d, *wt) for row in nodes]
            mrows = {r: model[i] for i, r in enumerate(c["rows"])}
            compare(c, "specialized", out, mrows, spec, lambda r: abs_blossom_scale(nodes[r], d, *wt), wt, exact_regime, reported)
            continue

        if kind == "round":
            w = c["ws"][0]
            out = np.asarray(TH.de_casteljau_one_round(arr, d, float(w[0]), float(w[1]), float(w[2])))
            exact_regime = ints and all(C.is_exact_float(x) and Fr(x).denominator <= 8 for x in w)
            res.count(key, nontrivial=nontrivial, kind=kind, routine=routine, regime="E" if exact_regime else "T",
                      degree_band=band(d), dim=min(dim, 4), path="round")
            if out.shape != (dim, n - d - 1):
                res.failure("shape:" + routine, "shape %r" % (out.shape,), rcase(c, range(min(dim, 3))))
                continue
            wt = tuple(Fr(x) for x in w)
            spec = [X.tri_round(row, d, *wt) for row in nodes]
            mrows = {r: model[i] for i, r in enumerate(c["rows"])}
            aw = tuple(abs(x) for x in wt)
            compare(c, "round", out, mrows, spec, lambda r: X.tri_round([abs(x) for x in nodes[r]], d, *aw), [wt], exact_regime, reported)
            continue

    res.emit()
    if rep:
        bad = bool(res.failures)
        print("replay: " + ("property fails on this input: " + res.failures[0]["what"] if bad else "property holds on this input"))
        sys.exit(1 if bad else 0)


main()
