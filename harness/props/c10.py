"""C10 — locating a point inverts evaluation (curves and triangles): correspondence + oracle.

impl  : _curve_helpers.locate_point, Curve.locate, _triangle_intersection.locate_point, Triangle.locate
model : driver `locate_curve_py|f90` (exact bisection + Newton step), `contains_nd`
spec  : the round trip itself (locate(evaluate(s)) = s), domain membership, None off the shape,
        documented error for a wrong point shape

Families FAR (shapes whose coordinates are large compared with their extent, exact on-shape points) and BOX-OFF (points
strictly outside the control-point box at graded distances down to one ulp) are described in props/c10_far.py:
kinds curve-far, curve-far-off, curve-boxoff, tri-far, tri-boxoff.
"""
import sys
import math
import numpy as np
from fractions import Fraction as Fr
import common as C
import exact as X
import gen as G
import c10_far as FAR


def monotone_net(rnd, n, dim, dyadic_bits=None):
    """x strictly increasing => hodograph control points in the open half-space x > 0: regular, injective"""
    rows = []
    x = Fr(0)
    xs = []
    for _ in range(n + 1):
        xs.append(x)
        step = Fr(rnd.randint(1, 8), 4) if dyadic_bits is not None else Fr(rnd.uniform(0.2, 1.5))
        x += step
    rows.append(xs)
    for _ in range(dim - 1):
        if dyadic_bits is not None:
            rows.append([Fr(rnd.randint(-16, 16), 4) for _ in range(n + 1)])
        else:
            rows.append([Fr(rnd.uniform(-1.5, 1.5)) for _ in range(n + 1)])
    return rows


def valid_triangle(rnd, d, dyadic):
    out = [[], []]
    for k in range(d + 1):
        for j in range(d + 1 - k):
            if dyadic:
                out[0].append(Fr(4 * j, d) + Fr(rnd.randint(-1, 1), 16) if d in (1, 2, 4) else Fr(3 * j, d) + Fr(rnd.randint(-1, 1), 16))
                out[1].append(Fr(4 * k, d) + Fr(rnd.randint(-1, 1), 16) if d in (1, 2, 4) else Fr(3 * k, d) + Fr(rnd.randint(-1, 1), 16))
            else:
                out[0].append(Fr(j / d * 3 + rnd.uniform(-0.05, 0.05)))
                out[1].append(Fr(k / d * 3 + rnd.uniform(-0.05, 0.05)))
    return out


def main():
    bezier = C.import_bezier()
    from bezier import _curve_helpers as CH
    from bezier import _triangle_intersection as TI
    from bezier import _triangle_helpers as TH
    rnd, seed = C.rng()
    thorough = C.tier() == "thorough"
    cfg = C.config_name()
    variant = "py" if cfg == "pure" else "f90"
    res = C.Result("C10")
    rep = C.replay_case()
    thr = C.generated("py_curve_vs_threshold" if cfg == "pure" else "f90_curve_vs_threshold", 55)
    rounds = int(C.generated("py_curve_helpers_MAX_LOCATE_SUBDIVISIONS" if cfg == "pure" else "f90_curve_MAX_LOCATE_SUBDIVISIONS", 20)) + 1
    cap = C.generated("py_curve_helpers_LOCATE_STD_CAP" if cfg == "pure" else "f90_curve_LOCATE_STD_CAP", Fr(1, 2 ** 20))
    cases = []

    def add(kind, **kw):
        cases.append((kind, kw))

    if rep:
        kw = dict(rep["kw"])
        kw["nodes"] = [[Fr(x) for x in r] for r in kw["nodes"]]
        for k in ("s", "t"):
            if kw.get(k) is not None:
                kw[k] = Fr(kw[k])
        if kw.get("point") is not None:
            kw["point"] = [Fr(x) for x in kw["point"]]
        add(rep["kind"], **kw)
    else:
        reps = 3 if not thorough else 15
        for n in range(1, 9):
            for dim in (2, 3):
                for _ in range(reps):
                    dy = monotone_net(rnd, n, dim, dyadic_bits=2)
                    fl = monotone_net(rnd, n, dim)
                    params = [Fr(0), Fr(1), Fr(1, 2), Fr(1, 4), Fr(3, 4), Fr(1, 8), Fr(5, 16), G.dyadic_param(rnd, 10), G.float_param(rnd, 0.0, 1.0),
                              G.float_param(rnd, 0.0, 1.0), Fr(0.3), Fr(1) / 3 if False else Fr(float(1 / 3))]
                    for s in params:
                        add("curve-roundtrip", nodes=dy, s=s, family="dyadic")
                        add("curve-roundtrip", nodes=fl, s=s, family="float")
                    # off-shape points at graded distances
                    for dist in (2.0 ** -10, 2.0 ** -4, 1.0, 100.0):
                        add("curve-off", nodes=fl, s=G.float_param(rnd, 0.2, 0.8), dist=dist)
        add("curve-wrong-shape", nodes=monotone_net(rnd, 3, 2))
        for d in (1, 2, 3, 4):
            for _ in range(reps):
                for fam in ("dyadic", "float"):
                    nodes = valid_triangle(rnd, d, fam == "dyadic")
                    pts = [(Fr(0), Fr(0)), (Fr(1), Fr(0)), (Fr(0), Fr(1)), (Fr(1, 2), Fr(0)), (Fr(0), Fr(1, 2)), (Fr(1, 2), Fr(1, 2)),
                           (Fr(1, 4), Fr(1, 4)), (Fr(1, 8), Fr(5, 8)), (Fr(1, 3 if False else 4), Fr(1, 2))]
                    pts += [(Fr(float(a)), Fr(float(b))) for a, b in [(rnd.uniform(0, 0.5), rnd.uniform(0, 0.5)) for _ in range(3)]]
                    for s, t in pts:
                        add("tri-roundtrip", nodes=nodes, d=d, s=s, t=t, family=fam)
                    add("tri-off", nodes=nodes, d=d, point=[Fr(50), Fr(50)])
                    add("tri-off", nodes=nodes, d=d, point=[Fr(-1, 2), Fr(-1, 2)])
        # one coordinate affine in one parameter + that parameter at a dyadic break point of the 4-way subdivision
        for d in (1, 2, 3, 4):
            for _ in range(reps):
                nodes = valid_triangle(rnd, d, False)
                k = 0
                for kk in range(d + 1):
                    for j in range(d + 1 - kk):
                        nodes[0][k] = Fr(4 * j, d) if d in (1, 2, 4) else Fr(3 * j, d)
                        k += 1
                for s, t in [(Fr(1, 4), Fr(0.3)), (Fr(1, 2), Fr(float(rnd.uniform(0.05, 0.45)))), (Fr(1, 8), Fr(float(rnd.uniform(0.05, 0.8))))]:
                    add("tri-roundtrip", nodes=nodes, d=d, s=s, t=t, family="affine-x")
        add("tri-wrong-shape", nodes=valid_triangle(rnd, 2, True), d=2)
        for shape in ("row", "flat", "extra-row", "two-columns"):
            add("curve-wrong-shape", nodes=monotone_net(rnd, 3, 2), shape=shape)

        # ---- FAR and BOX-OFF families (props/c10_far.py); the exponents of the translation cycle through FAR.FAR_K
        far_reps = 1 if not thorough else 6
        far_i = rnd.randrange(len(FAR.FAR_K))
        dyl = [Fr(1, 2), Fr(1, 4), Fr(3, 4), Fr(1, 8), Fr(5, 16), Fr(3, 8), Fr(11, 16), Fr(1, 64), Fr(21, 64)]

        def face_bases(net, pts):
            """points of the shape (rounded) moved onto a face of the box in one coordinate"""
            lo, hi = FAR.box(net)
            out = []
            for p in pts:
                p = [min(max(Fr(float(v)), lo[r]), hi[r]) for r, v in enumerate(p)]
                r = rnd.randrange(len(net))
                p[r] = rnd.choice((lo[r], hi[r]))
                out.append(p)
            return out

        for n in range(1, 9):
            for dim in (2, 3):
                for _ in range(far_reps):
                    for fam in ("dyadic", "float"):
                        base = monotone_net(rnd, n, dim, dyadic_bits=2 if fam == "dyadic" else None)
                        k = FAR.FAR_K[far_i % len(FAR.FAR_K)]
                        far_i += 1
                        rows, kk = FAR.far_curve_net(rnd, base, k, fam == "dyadic")
                        if rows is None:
                            res.skip("far: no certified translate")
                            continue
                        # exact on-curve points: end points always; dyadic break points down to the level of the bit budget
                        m = FAR.exact_levels(rows, n)
                        params = [Fr(0), Fr(1)] + [s for s in dyl + [G.dyadic_param(rnd, 10), G.dyadic_param(rnd, 5)] if 0 < s < 1 and FAR.level(s) <= m]
                        for s in params:
                            add("curve-far", nodes=rows, s=s, family="far-" + fam, k=kk)
                        # off the curve along the normal, at multiples of the final search resolution
                        lip = n * max(abs(r[j + 1] - r[j]) for r in rows for j in range(n))
                        for mult in (6, 24, 2 ** 10):
                            add("curve-far-off", nodes=rows, s=G.float_param(rnd, 0.2, 0.8), k=kk,
                                dist=mult * float(lip) * 2.0 ** -(rounds - 1) * math.sqrt(dim))
                        # strictly outside the box at graded distances: the translated net and the net it comes from
                        for net, tag in ((rows, "far-" + fam), (base, fam)):
                            bases = [[r[0] for r in net], [r[-1] for r in net]]
                            bases += face_bases(net, [X.eval_curve(net, G.float_param(rnd, 0.05, 0.95)) for _ in range(2)])
                            for p, grade in FAR.box_off_points(net, bases):
                                add("curve-boxoff", nodes=net, point=p, family=tag, grade=grade)
        for d in (1, 2, 3, 4):
            for _ in range(far_reps):
                base_dy = valid_triangle(rnd, d, True)
                base_fl = valid_triangle(rnd, d, False)
                k = FAR.FAR_K[far_i % len(FAR.FAR_K)]
                far_i += 1
                far_dy = None
                for kk in range(k, -1, -1):
                    offs = FAR.offsets(rnd, 2, kk, True)
                    cand = FAR.translate(base_dy, offs)
                    if all(cand[r][i] == base_dy[r][i] + offs[r] for r in range(2) for i in range(len(cand[0]))) and \
                            (FAR.tri_noise(cand, d, Fr(1, 4), Fr(1, 4), X) or 1e300) <= 2.0 ** (FAR.RATIO_CAP_BITS - 0.5):
                        far_dy = cand
                        break
                if far_dy is None:
                    res.skip("far: no exact translate of the triangle")
                    continue
                far_fl = FAR.translate(base_fl, FAR.offsets(rnd, 2, kk, False))
                m = FAR.exact_levels(far_dy, d)
                pts = [(Fr(0), Fr(0)), (Fr(1), Fr(0)), (Fr(0), Fr(1))]
                pts += [(a, b) for a, b in [(Fr(1, 2), Fr(0)), (Fr(0), Fr(1, 2)), (Fr(1, 2), Fr(1, 2)), (Fr(1, 4), Fr(1, 4)), (Fr(1, 4), Fr(1, 2)),
                                            (Fr(1, 8), Fr(5, 8)), (Fr(5, 16), Fr(3, 16)), (Fr(3, 8), Fr(0)), (Fr(1, 16), Fr(1, 32))]
                        if max(FAR.level(a), FAR.level(b)) <= m]
                for s, t in pts:
                    add("tri-far", nodes=far_dy, d=d, s=s, t=t, family="far-dyadic", k=kk)
                flat = [(FAR.flat_edge_triangle(nn, d, e), tag + "-flat-" + e) for nn, tag in ((base_dy, "dyadic"), (far_dy, "far-dyadic"), (far_fl, "far-float"))
                        for e in ("bottom", "left")]
                for net, tag in [(base_dy, "dyadic"), (base_fl, "float"), (far_dy, "far-dyadic"), (far_fl, "far-float")] + flat:
                    bases = [[net[0][c], net[1][c]] for c in FAR.tri_corners(d)]
                    surf = []
                    for _ in range(2):
                        a = G.float_param(rnd, 0.05, 0.95)
                        e = tag.rsplit("-", 1)[-1]
                        l1, l2, l3 = (1 - a, a, Fr(0)) if e == "bottom" else ((1 - a, Fr(0), a) if e == "left" else (Fr(1, 2) * (1 - a), Fr(1, 2) * (1 - a), a))
                        surf.append([X.tri_eval(net[r], d, l1, l2, l3) for r in range(2)])
                    if "flat" in tag:
                        # the evaluated edge point lies on the face exactly (all nodes of the edge share the coordinate)
                        lo, hi = FAR.box(net)
                        bases += [[min(max(Fr(float(v)), lo[r]), hi[r]) for r, v in enumerate(p)] for p in surf]
                    else:
                        bases += face_bases(net, surf)
                    for p, grade in FAR.box_off_points(net, bases):
                        add("tri-boxoff", nodes=net, d=d, point=p, family=tag, grade=grade)

    # the FAR / BOX-OFF cases are looked at first: common.Result keeps the first 200 failure records, and the known 1-ulp box
    # misses of the older families (finding F-F, ~50 per quick run, > 200 per thorough run) must not crowd out a new class
    cases.sort(key=lambda c: 0 if c[0] in ("curve-far", "curve-far-off", "curve-boxoff", "tri-far", "tri-boxoff") else 1)

    def point_of(kw):
        return [Fr(float(v)) for v in kw["point"]]

    # common.Result keeps the first 200 failure records of a run: the BOX-OFF family has thousands of cases, so at most 20 witnesses
    # per failure class are recorded (every further one is still counted in the distribution) and every class keeps its witnesses
    per_key = {}

    def fail_capped(key, what, rc):
        per_key[key] = per_key.get(key, 0) + 1
        if per_key[key] <= 20:
            res.failure(key, what, rc)
        else:
            fk = res.dist.setdefault("failure_keys", {})
            fk[key] = fk.get(key, 0) + 1

    box_cache = {}

    def box_of(nodes):
        if id(nodes) not in box_cache:
            box_cache[id(nodes)] = (nodes, FAR.box(nodes))
        return box_cache[id(nodes)][1]

    def out_by_of(nodes, point):
        """exact distance by which the point is outside the closed box of the control points (<= 0: not outside)"""
        lo, hi = box_of(nodes)
        return max(max(lo[r] - point[r], point[r] - hi[r]) for r in range(len(nodes)))

    # ---- model queries (curve part)
    drv = C.Driver()
    midx = []
    prepared = []
    n_boxoff = 0
    for kind, kw in cases:
        if kind in ("curve-roundtrip", "curve-far"):
            nodes = kw["nodes"]
            arr = C.farr(nodes)
            pt = CH.evaluate_multi(arr, np.array([float(kw["s"])]))
            point = [Fr(float(v)) for v in pt[:, 0]]
            prepared.append(point)
            midx.append(drv.ask("locate_curve_" + variant, thr, rounds, cap * cap, nodes, point))
        elif kind == "curve-boxoff":
            prepared.append(kw["point"])
            # the model's answer (None by the theorem off-box => None) is asked for a sample only: driver time
            n_boxoff += 1
            midx.append(drv.ask("locate_curve_" + variant, thr, rounds, cap * cap, kw["nodes"], kw["point"]) if (n_boxoff % 16 == 0 or rep) else None)
        elif kind in ("curve-off", "curve-far-off"):
            nodes = kw["nodes"]
            s = kw["s"]
            base = X.eval_curve(nodes, s)
            # move off the curve along the normal of the (x-monotone) curve in the x-y plane
            tx, ty = X.hodograph_exact(nodes[0], s), X.hodograph_exact(nodes[1], s)
            nrm = math.sqrt(float(tx * tx + ty * ty))
            point = [Fr(float(base[0]) - float(ty) / nrm * kw["dist"]), Fr(float(base[1]) + float(tx) / nrm * kw["dist"])] + [Fr(float(b)) for b in base[2:]]
            prepared.append(point)
            midx.append(drv.ask("locate_curve_" + variant, thr, rounds, cap * cap, nodes, point))
        else:
            prepared.append(None)
            midx.append(None)
    import time
    t_drv = time.time()
    replies = drv.run() if drv.lines else []       # (a replay of a triangle case asks nothing)
    res.notes.append("config %s: %d model queries answered in %.1f s" % (cfg, sum(1 for i in midx if i is not None), time.time() - t_drv))

    n_api = [0]
    arr_cache = {}
    for (kind, kw), mi, point in zip(cases, midx, prepared):
        nodes = kw["nodes"]
        if id(nodes) not in arr_cache:
            arr_cache[id(nodes)] = (nodes, C.farr(nodes), C.jfr(nodes))
        arr = arr_cache[id(nodes)][1]
        jkw = {k: (arr_cache[id(nodes)][2] if k == "nodes" else C.jfr(v) if k == "point" else (str(v) if isinstance(v, Fr) else v)) for k, v in kw.items()}
        rc = {"kind": kind, "kw": jkw}
        res.count((kind, str(jkw)), kind=kind, family=kw.get("family", "-"), size=len(nodes[0]))
        res.sample({"kind": kind, "num_nodes": len(nodes[0]), "s": str(kw.get("s")), "t": str(kw.get("t"))})
        try:
            if kind in ("curve-roundtrip", "curve-far"):
                s = kw["s"]
                n = len(nodes[0]) - 1
                pt = np.asfortranarray([[float(v)] for v in point])
                if kind == "curve-far":
                    # regime E of the FAR family: the certificate holds on the binary64 net and the point is exactly B(s)
                    if not FAR.x_monotone(nodes) or FAR.curve_ratio_bits(nodes) > FAR.RATIO_CAP_BITS + 0.01:
                        res.skip("far: net outside the family")
                        continue
                    if not all(point[r] == X.bern(nodes[r], s) for r in range(len(nodes))):
                        res.skip("far: evaluated point not exact")
                        continue
                    try:
                        CH.locate_point(arr, pt)
                        bezier.Curve(arr, n).locate(pt)
                    except Exception as exc:  # noqa
                        fail_capped("locate:raised-on-curve-point", "locate raised %r for the exactly representable point B(s=%s) of a regular injective degree-%d "
                                    "curve in %d-D (coordinates up to %.4g, extent %.3g); the statement demands s" %
                                    (exc if len(repr(exc)) < 160 else repr(exc)[:160], s, n, len(nodes), float(FAR.scale_of(nodes)),
                                     float(max(max(r) - min(r) for r in nodes))), rc)
                        continue
                got = CH.locate_point(arr, pt)
                crv = bezier.Curve(arr, n)
                got_api = crv.locate(pt)
                if (got is None) != (got_api is None) or (got is not None and float(got) != float(got_api)):
                    res.failure("locate-api-differs", "Curve.locate %r vs locate_point %r" % (got_api, got), rc)
                st, model = replies[mi]
                model_s = model[0] if (st == "ok" and model) else None
                dyadic_break = s.denominator <= 2 ** 20 and (s.denominator & (s.denominator - 1)) == 0
                exact_on_curve = all(point[r] == X.bern(nodes[r], s) for r in range(len(nodes)))
                if got is None:
                    # classify: the (rounded) point is within a few ulps of the curve at a dyadic break point of the bisection
                    dev = max(abs(point[r] - X.bern(nodes[r], s)) / max(X.bern_abs(nodes[r], s), Fr(1, 10 ** 300)) for r in range(len(nodes)))
                    const_rows = [r for r in range(len(nodes)) if all(v == nodes[r][0] for v in nodes[r])]
                    if dyadic_break and not exact_on_curve and dev <= 64 * C.U:
                        key = "locate:closed-box-miss@dyadic-breakpoint"
                    elif dev <= 64 * C.U and any(point[r] != nodes[r][0] for r in const_rows):
                        # a coordinate in which the curve is constant: the control-point box is degenerate there and the
                        # rounded evaluation (1-s) c + s c differs from c by an ulp
                        key = "locate:closed-box-miss@constant-coordinate"
                    else:
                        key = "locate:miss-on-curve"
                    res.failure(key, "locate_point returned None for evaluate(s=%s) on a regular injective degree-%d curve (point within %.2e relative of the curve)" %
                                (s, n, float(dev)), rc)
                    if exact_on_curve and st == "ok" and model_s is None:
                        res.mismatch("model:locate", rc, "None", "None", "model misses an exact on-curve point (contradicts C10.curve_filter_complete)")
                    continue
                g = Fr(float(got))
                if not (0 <= g <= 1):
                    res.failure("locate:outside-domain", "located parameter %r outside [0,1]" % got, rc)
                # regularity: |B'(s)| vs size; allow 2^-40 / regularity
                speed2 = sum(X.hodograph_exact(r, s) ** 2 for r in nodes)
                size = max(abs(x) for r in nodes for x in r) or 1
                reg = math.sqrt(float(speed2)) / float(size)
                # one Newton step from the bisection mean (|s0 - s| <= 2^-21): quadratic error (M2 / 2|B'|) e0^2,
                # M2 <= n(n-1) max|second difference|; plus the rounding of the step itself
                m2 = n * (n - 1) * max([abs(r[j + 2] - 2 * r[j + 1] + r[j]) for r in nodes for j in range(n - 1)] or [0])
                tol = 4.0 * float(m2) / max(math.sqrt(float(speed2)), 1e-300) * 2.0 ** -42 + 2.0 ** -44 / max(reg, 1e-6) + 2.0 ** -46
                if abs(float(g - s)) > tol:
                    res.failure("locate:roundtrip-inaccurate", "locate(evaluate(%s)) = %r, error %.3e > %.3e (degree %d)" % (s, got, abs(float(g - s)), tol, n), rc)
                if st == "ok" and model_s is not None:
                    if abs(float(g - model_s)) > 4 * tol:
                        res.mismatch("locate_point(curve)", rc, str(g), str(model_s), "impl vs exact model beyond tolerance")
                elif st == "ok" and model_s is None and exact_on_curve:
                    res.mismatch("model:locate", rc, str(g), "None", "model misses an exact on-curve point")
            elif kind == "curve-boxoff":
                n = len(nodes[0]) - 1
                out_by = out_by_of(nodes, point)
                if not out_by > 0:
                    res.skip("boxoff: point not outside the box")
                    continue
                lo, hi = box_of(nodes)
                pt = np.asfortranarray([[float(v)] for v in point])
                got = CH.locate_point(arr, pt)
                # the public entry point delegates to locate_point: observed on every fourth case (and on every replay)
                n_api[0] += 1
                got_api = bezier.Curve(arr, n).locate(pt) if (n_api[0] % 4 == 0 or rep) else None
                for name, g in (("locate_point", got), ("Curve.locate", got_api)):
                    if g is not None:
                        fail_capped("locate:outside-box-not-none", "%s returned %r for the point %s, which is outside the box of the control points of the degree-%d "
                                    "curve by %.3e (coordinates up to %.4g, extent %.3g; grade %s): outside the convex hull, hence not on the curve - the "
                                    "statement demands None" % (name, g, [float(v) for v in point], n, float(out_by), float(FAR.scale_of(nodes)),
                                                                float(max(hi[r] - lo[r] for r in range(len(nodes)))), kw.get("grade")), rc)
                        break
                if mi is not None:
                    st, model = replies[mi]
                    if st == "ok" and model != []:
                        res.mismatch("model:locate", rc, str(got), str(model), "model locates a point outside the box (contradicts off-box => None)")
            elif kind in ("curve-off", "curve-far-off"):
                pt = np.asfortranarray([[float(v)] for v in point])
                got = CH.locate_point(arr, pt)
                st, model = replies[mi]
                n = len(nodes[0]) - 1
                # clearly off: outside the control-point box, or farther than the final search resolution
                outside_box = any(point[r] < min(nodes[r]) or point[r] > max(nodes[r]) for r in range(len(nodes)))
                lip = n * max(abs(nodes[r][j + 1] - nodes[r][j]) for r in range(len(nodes)) for j in range(n))
                resolution = float(lip) * 2.0 ** -(rounds - 1)
                # rounding of the constructed point: absolute at ordinary scale, relative to the coordinates in the FAR family
                slop = 1e-12 if kind == "curve-off" else 2.0 ** -44 * float(FAR.scale_of(nodes))
                far = kw["dist"] > 4 * resolution * math.sqrt(len(nodes)) + slop
                if (outside_box or far) and got is not None:
                    res.failure("locate:off-shape-not-none", "point at distance %.3g from the curve (resolution %.3g, outside box: %s) located at %r" %
                                (kw["dist"], resolution, outside_box, got), rc)
                if st == "ok" and (model == []) != (got is None) and (outside_box or far):
                    res.mismatch("locate_point(curve)", rc, str(got), str(model), "None-ness differs from the model on a clearly off-shape point")
            elif kind == "curve-wrong-shape":
                crv = bezier.Curve(arr, len(nodes[0]) - 1)
                bad = {"row": np.asfortranarray([[0.5, 1.0]]), "flat": np.array([0.5, 1.0]), "extra-row": np.asfortranarray([[0.5], [1.0], [0.0]]),
                       "two-columns": np.asfortranarray([[0.5, 0.5], [1.0, 1.0]])}[kw.get("shape", "row")]
                try:
                    out = crv.locate(bad)
                    res.failure("locate:wrong-shape-not-raised", "Curve.locate accepted a point of shape %r (returned %r) instead of raising ValueError" % (bad.shape, out), rc)
                except ValueError:
                    pass
            elif kind == "tri-boxoff":
                d = kw["d"]
                point = point_of(kw)
                out_by = out_by_of(nodes, point)
                if not out_by > 0:
                    res.skip("boxoff: point not outside the box")
                    continue
                lo, hi = box_of(nodes)
                px, py = float(point[0]), float(point[1])
                got = TI.locate_point(arr, d, px, py)
                n_api[0] += 1
                got_api = bezier.Triangle(arr, d).locate(np.asfortranarray([[px], [py]])) if (n_api[0] % 4 == 0 or rep) else None
                for name, g in (("locate_point", got), ("Triangle.locate", got_api)):
                    if g is not None:
                        fail_capped("locate-triangle:outside-box-not-none", "%s returned %r for the point %s, which is outside the box of the control points of the "
                                    "degree-%d triangle by %.3e (coordinates up to %.4g, extent %.3g; grade %s): outside the convex hull, hence not on the "
                                    "triangle - the statement demands None" % (name, tuple(map(float, g)), [px, py], d, float(out_by), float(FAR.scale_of(nodes)),
                                                                                float(max(hi[r] - lo[r] for r in range(2))), kw.get("grade")), rc)
                        break
            elif kind in ("tri-roundtrip", "tri-far"):
                d, s, t = kw["d"], kw["s"], kw["t"]
                l1 = 1 - s - t
                p = TH.evaluate_barycentric(arr, d, float(l1), float(s), float(t))
                px, py = float(p[0, 0]), float(p[1, 0])
                ex = [X.tri_eval(nodes[r], d, l1, s, t) for r in range(2)]
                exact_on = Fr(px) == ex[0] and Fr(py) == ex[1]
                noise = 0.0
                if kind == "tri-far":
                    # regime E of the FAR family: the point is exactly B(s, t); the pre-image of one rounding cell of the coordinates
                    # (u |J^-1| max|coordinate|) is at most 2^-5 of the final search resolution
                    noise = FAR.tri_noise(nodes, d, s, t, X)
                    if noise is None or noise > 2.0 ** FAR.RATIO_CAP_BITS:
                        res.skip("far: triangle point outside the family")
                        continue
                    if not exact_on:
                        res.skip("far: evaluated point not exact")
                        continue
                got = TI.locate_point(arr, d, px, py)
                tri = bezier.Triangle(arr, d)
                got_api = tri.locate(np.asfortranarray([[px], [py]]))
                if (got is None) != (got_api is None):
                    res.failure("locate-api-differs", "Triangle.locate %r vs locate_point %r" % (got_api, got), rc)
                if got is None:
                    dyadic_break = all(v.denominator <= 2 ** 20 and (v.denominator & (v.denominator - 1)) == 0 for v in (s, t))
                    key = "locate-triangle:closed-box-miss@dyadic-breakpoint" if (dyadic_break and not exact_on) else "locate-triangle:miss-on-surface"
                    res.failure(key, "triangle locate_point returned None for evaluate(s=%s,t=%s), degree %d" % (s, t, d), rc)
                    continue
                gs, gt = Fr(float(got[0])), Fr(float(got[1]))
                # FAR family: in addition 2^9 rounding cells of the coordinates (the same allowance 2^-44 / regularity as for curves)
                tol = max(Fr(1, 2 ** 36), Fr(2.0 ** -44 * noise))
                if abs(gs - s) > tol or abs(gt - t) > tol:
                    res.failure("locate-triangle:roundtrip-inaccurate", "triangle locate(evaluate(%s,%s)) = (%r,%r)" % (s, t, got[0], got[1]), rc)
                eps = max(Fr(1, 2 ** 40), Fr(2.0 ** -44 * noise))
                if gs < -eps or gt < -eps or gs + gt > 1 + eps:
                    res.failure("locate-triangle:outside-domain", "located (%r,%r) outside the reference triangle" % (got[0], got[1]), rc)
            elif kind == "tri-off":
                d = kw["d"]
                got = TI.locate_point(arr, d, float(kw["point"][0]), float(kw["point"][1]))
                if got is not None:
                    res.failure("locate-triangle:off-shape-not-none", "point %s outside the control-point box located at %r" % (C.jfr(kw["point"]), got), rc)
            elif kind == "tri-wrong-shape":
                tri = bezier.Triangle(arr, kw["d"])
                try:
                    tri.locate(np.asfortranarray([[0.0, 1.0, 2.0]]))
                    res.failure("locate:wrong-shape-not-raised", "Triangle.locate accepted a point of the wrong shape", rc)
                except ValueError:
                    pass
        except Exception as exc:  # noqa
            (fail_capped if kind in ("curve-boxoff", "tri-boxoff") else res.failure)("raised:%s:%s" % (kind, type(exc).__name__), "%s raised %r" % (kind, exc), rc)
    res.emit()
    if rep:
        bad = bool(res.failures)
        print("replay: " + ("property fails on this input: " + res.failures[0]["what"] if bad else "property holds on this input"))
        sys.exit(1 if bad else 0)


main()
