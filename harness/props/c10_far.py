"""C10 — shared input families of props/c10.py and props/c10t.py (no library call in here, exact rationals only).

Two families, both read off the property statement:

FAR     shapes whose coordinates are large compared with their extent (a unit-sized shape translated by +-m 2^k in every
        coordinate: projected map coordinates, a detail of a big drawing).  The statement quantifies over every regular
        injective curve / valid triangle; translation changes neither regularity nor injectivity nor validity, and on
        dyadic data it is exact in binary64.  On-shape points of this family are EXACT (regime E): the net, the parameter
        and the bit budget are chosen so that the point B(s) and every node of every subdivision down to the level at
        which s becomes a break point are binary64 numbers; from that level on the point is an end node / corner of its
        piece and is copied unchanged.  So the true pre-image of the binary64 point is exactly s, and no rounding can
        push the point out of a control-point box (the known 1-ulp box misses, finding F-F, need an inexact point).
        The family is cut where the question stops being meaningful: max|coordinate| / |B'| <= 2^26, i.e. the parameter
        range whose points round to one binary64 cell is at most 2^-5 of the final search resolution 2^-21.

BOX-OFF points strictly outside the control-point box (exact comparison of binary64 numbers) at graded distances: from
        one ulp to 2^-16 relative to the size of the COORDINATES and 2^-30 .. 2^-12 relative to the EXTENT of the box, pushed
        out of a face in one coordinate or out of a corner in all of them, starting from the end nodes / corners (on the shape
        and on the box) and from points of the shape moved onto a face.  A point outside the box of the control points is outside
        their convex hull, hence not on the shape: the statement demands None, whatever the distance.
"""
import math
from fractions import Fraction as Fr

# exponents k of the translation +-m 2^k (shape of extent about 1 .. 8): graded through the ratios coordinate / extent at which
# a relative allowance of 2^-52 .. 2^-36 reaches the final search resolution 2^-21 extent
FAR_K = (3, 8, 13, 16, 18, 19, 20, 21, 22, 23, 24, 25, 26, 27, 28)
RATIO_CAP_BITS = 26

# distances outside the box: 2^-j times the size of the coordinate (52 stands for one ulp: nextafter) ...
GRADES_MAGNITUDE = (52, 50, 47, 44, 42, 41, 40, 39, 38, 36, 33, 29, 24, 16)
# ... and 2^-j times the extent of the box in that coordinate
GRADES_EXTENT = (30, 24, 21, 19, 12)


def translate(rows, offs):
    """binary64 net fl(v + offset) (exact whenever v + offset is a binary64 number)"""
    return [[Fr(float(v + o)) for v in r] for r, o in zip(rows, offs)]


def offsets(rnd, dim, k, dyadic):
    """+-m 2^(k - j) per coordinate, m in [1, 2): every coordinate in which the shape moves is far from zero"""
    out = []
    for r in range(dim):
        kk = k if r == 0 else max(0, k - rnd.choice((0, 0, 0, 1, 2)))
        m = Fr(rnd.choice((4, 4, 5, 6, 7)), 4) if dyadic else Fr(rnd.uniform(1.0, 2.0))
        out.append(rnd.choice((-1, 1)) * m * 2 ** kk)
    return out


def scale_of(rows):
    return max([abs(v) for r in rows for v in r] + [Fr(0)])


def x_monotone(rows):
    """the certificate of the curve family: x strictly increasing along the net => hodograph in the open half-space x > 0"""
    return all(b > a for a, b in zip(rows[0][:-1], rows[0][1:]))


def curve_ratio_bits(rows):
    """log2( max|coordinate| / (lower bound of |B'|) ), |B'| >= x' >= n min dx for an x-monotone net"""
    n = len(rows[0]) - 1
    low = n * min(b - a for a, b in zip(rows[0][:-1], rows[0][1:]))
    return math.log2(float(scale_of(rows) / low))


def exact_levels(rows, degree):
    """largest m such that every value of the de Casteljau / subdivision schemes at parameters j / 2^m is a binary64
    number: (integer bits) + (fraction bits of the nodes) + degree * m + 3 guard bits <= 53; 0 for non-dyadic nets"""
    f = max(v.denominator.bit_length() - 1 for r in rows for v in r)
    b = int(scale_of(rows)).bit_length() + 1
    return max(0, (53 - 3 - b - f) // max(degree, 1))


def level(v):
    """m for v = j / 2^m, None when v is not dyadic"""
    den = Fr(v).denominator
    return den.bit_length() - 1 if den & (den - 1) == 0 else None


def far_curve_net(rnd, base, k, dyadic):
    """translate an x-monotone unit-sized net; lower k until the ratio cap holds; None when the certificate is lost"""
    dim = len(base)
    for kk in range(k, -1, -1):
        rows = translate(base, offsets(rnd, dim, kk, dyadic))
        if x_monotone(rows) and curve_ratio_bits(rows) <= RATIO_CAP_BITS:
            return rows, kk
    return None, None


def box(rows):
    return [min(r) for r in rows], [max(r) for r in rows]


def outside_box(rows, point):
    """exact: strictly outside the closed box of the control points in some coordinate"""
    lo, hi = box(rows)
    return any(point[r] < lo[r] or point[r] > hi[r] for r in range(len(rows)))


def _push(face, sign, delta):
    """binary64 number strictly beyond `face` in direction `sign`, at distance about `delta` (at least one ulp; beyond a face at
    zero the step is 2^-1000, so that no subnormal number is fed in - their treatment depends on compiler flags)"""
    f = float(face)
    inf = math.inf if sign > 0 else -math.inf
    v = f if delta is None else float(face + sign * delta)
    if not ((v > f) if sign > 0 else (v < f)):
        v = math.nextafter(f, inf)
    if abs(v) < 2.0 ** -1022:
        v = sign * 2.0 ** -1000
    return Fr(v)


def box_off_points(rows, bases, grades_m=GRADES_MAGNITUDE, grades_e=GRADES_EXTENT):
    """[(point, tag)]: every base (a point in the closed box) is pushed out of each face it lies on - one coordinate at a time
    ('one') and all those coordinates together ('all') - at every graded distance.  Every returned point is strictly outside."""
    lo, hi = box(rows)
    dim = len(rows)
    out = []
    for bi, base in enumerate(bases):
        faces = []
        for r in range(dim):
            if base[r] == lo[r]:
                faces.append((r, -1, lo[r]))
            if base[r] == hi[r]:
                faces.append((r, 1, hi[r]))
        if not faces:
            continue
        grades = [("m", j) for j in grades_m] + [("e", j) for j in grades_e]
        for what, j in grades:
            def delta(r):
                if what == "m":
                    return None if j >= 52 else max(abs(lo[r]), abs(hi[r])) * Fr(1, 2 ** j)
                return (hi[r] - lo[r]) * Fr(1, 2 ** j)
            combos = [("one", [fc]) for fc in faces]
            # all faces of distinct coordinates together (a corner of the box)
            first = {}
            for fc in faces:
                first.setdefault(fc[0], fc)
            if len(first) > 1:
                combos.append(("all", list(first.values())))
            for variant, fcs in combos:
                p = list(base)
                for r, sign, face in fcs:
                    p[r] = _push(face, sign, delta(r))
                if any(p[r] < lo[r] or p[r] > hi[r] for r in range(dim)):
                    out.append((p, "%s%d:%s:base%d" % (what, j, variant, bi)))
    return out


def tri_lattice(d):
    return [(j, k) for k in range(d + 1) for j in range(d + 1 - k)]


def tri_corners(d):
    return [0, d, (d + 1) * (d + 2) // 2 - 1]


def flat_edge_triangle(nodes, d, edge):
    """the nodes of one edge are moved onto a face of the box: bottom edge (k = 0) onto y = min, left edge (j = 0) onto x = min.
    (Only used for points OUTSIDE the box, where validity of the triangle plays no role.)"""
    rows = [list(r) for r in nodes]
    lat = tri_lattice(d)
    if edge == "bottom":
        low = min(rows[1])
        for i, (j, k) in enumerate(lat):
            if k == 0:
                rows[1][i] = low
    else:
        low = min(rows[0])
        for i, (j, k) in enumerate(lat):
            if j == 0:
                rows[0][i] = low
    return rows


def tri_jacobian(nodes, d, s, t, X):
    """exact (x_s, x_t, y_s, y_t) at (s, t)"""
    l1 = 1 - s - t
    if d == 1:
        ev = lambda row: row[0]
    else:
        ev = lambda row: X.tri_eval(row, d - 1, l1, s, t)
    return (ev(X.tri_jacobian_s(nodes[0], d)), ev(X.tri_jacobian_t(nodes[0], d)),
            ev(X.tri_jacobian_s(nodes[1], d)), ev(X.tri_jacobian_t(nodes[1], d)))


def tri_noise(nodes, d, s, t, X):
    """|J^-1| max|coordinate| (Frobenius norm / determinant): the parameter change that moves the point by one unit of its
    coordinates; times u it is the pre-image of one rounding cell.  None for a singular Jacobian."""
    xs, xt, ys, yt = tri_jacobian(nodes, d, s, t, X)
    det = xs * yt - xt * ys
    if det == 0:
        return None
    nf = math.sqrt(float(xs * xs + xt * xt + ys * ys + yt * yt))
    return float(scale_of(nodes)) * nf / abs(float(det))
