"""C10 (triangle part) — locating a point on a triangle inverts evaluation: correspondence + oracle.

impl  : _triangle_intersection.locate_point, _triangle_intersection.newton_refine, Triangle.locate;
        pure configuration additionally hazmat.triangle_intersection.update_locate_candidates / mean_centroid
        (the candidate bookkeeping, round by round)
model : driver `locate_triangle_trace_py|f90` (exact rounds of box filter + 4-way subdivision with the tripled-centroid
        bookkeeping, mean centroid, one or two Newton steps), `locate_triangle_py|f90`, `locate_triangle_cands_py|f90`,
        `newton_triangle_py|f90`  (Model/LocateTri.lean)
spec  : the round trip itself (exact.py: locate(evaluate(s,t)) = (s,t)), None outside the control-point box

Regime E: nets on which every subdivision of every round is exact in binary64 (bit budget checked per case from the
          model's trace: true degree x levels actually subdivided + magnitude <= 50 bits): degree 1 integer nets, degree 2
          integer nets, degree 3 = degree-elevated integer quadratics.  Required: None-ness equal; the located (s,t) bit for
          bit equal to the model whenever the model's answer is binary64-exact and reached without a rounding step
          (mean centroid = exact pre-image: dyadic interior lattice points), else within the Newton tolerance.
Regime T: binary64 nets (perturbed lattices, degree 1..5), points = rounded evaluations and off-surface points; None-ness is
          compared when the model's decision margin (least distance of the point to an edge of a tested box) is clear of the
          rounding of the subdivided nets; parameters within tolerance.
Families FAR / BOX-OFF (props/c10_far.py), off-surface points only: the nets of both regimes translated far from the origin
          (integer translations in regime E) and points strictly outside the control-point box at graded distances down to one
          ulp; None-ness against the exact model (regime E: always, regime T: clear margin) and None outside the box.
"""
import os
import sys
import math
import numpy as np
from fractions import Fraction as Fr
import common as C
import exact as X
import gen as G
import c10_far as FAR


def tri_nodes_lattice(d):
    return [(j, k) for k in range(d + 1) for j in range(d + 1 - k)]


def e_net(rnd, d, scale_bits):
    """regime E nets: (true degree, degree, rows); integer entries"""
    if d == 1:
        while True:
            rows = [[Fr(rnd.randint(-2 ** scale_bits, 2 ** scale_bits)) for _ in range(3)] for _ in range(2)]
            det = (rows[0][1] - rows[0][0]) * (rows[1][2] - rows[1][0]) - (rows[0][2] - rows[0][0]) * (rows[1][1] - rows[1][0])
            if abs(det) * 8 >= (2 ** scale_bits) ** 2:
                return 1, rows
    if d == 2:
        rows = [[], []]
        for j, k in tri_nodes_lattice(2):
            rows[0].append(Fr(8 * j + rnd.randint(-2, 2)))
            rows[1].append(Fr(8 * k + rnd.randint(-2, 2)))
        return 2, rows
    # degree 3: degree-elevated quadratic with entries multiple of 3 -> integer cubic net, true degree 2
    q = [[], []]
    for j, k in tri_nodes_lattice(2):
        q[0].append(Fr(3 * (8 * j + rnd.randint(-2, 2))))
        q[1].append(Fr(3 * (8 * k + rnd.randint(-2, 2))))
    rows = [X.tri_elevate_exact(r, 2) for r in q]
    assert all(x.denominator == 1 for r in rows for x in r)
    return 2, rows


def t_net(rnd, d):
    out = [[], []]
    for j, k in tri_nodes_lattice(d):
        out[0].append(Fr(j / d * 3 + rnd.uniform(-0.05, 0.05)))
        out[1].append(Fr(k / d * 3 + rnd.uniform(-0.05, 0.05)))
    return out


def jac_det(nodes, d, s, t):
    l1 = 1 - s - t
    if d == 1:
        ev = lambda row: row[0]
    else:
        ev = lambda row: X.tri_eval(row, d - 1, l1, s, t)
    xs, xt = ev(X.tri_jacobian_s(nodes[0], d)), ev(X.tri_jacobian_t(nodes[0], d))
    ys, yt = ev(X.tri_jacobian_s(nodes[1], d)), ev(X.tri_jacobian_t(nodes[1], d))
    return xs * yt - xt * ys


def is_dyadic(v, bits=30):
    return v.denominator <= 2 ** bits and (v.denominator & (v.denominator - 1)) == 0


def main():
    bezier = C.import_bezier()
    from bezier import _triangle_intersection as TI
    from bezier import _triangle_helpers as TH
    from bezier.hazmat import triangle_helpers as HZ
    from bezier.hazmat import triangle_intersection as HTI
    rnd, seed = C.rng()
    thorough = C.tier() == "thorough"
    cfg = C.config_name()
    pure = cfg == "pure"
    variant = "py" if pure else "f90"
    res = C.Result("C10")
    rep = C.replay_case()
    thr = C.generated("py_curve_vs_threshold" if pure else "f90_curve_vs_threshold", 55)
    pre = "py_triangle_intersection_" if pure else "f90_triangle_intersection_"
    rounds = int(C.generated(pre + "MAX_LOCATE_SUBDIVISIONS", 20)) + 1
    eps = C.generated(pre + "LOCATE_EPS", Fr(1, 2 ** 47))
    btype = C.generated("f90_triangle_evaluate_barycentric_multi_binom_type", "int32")
    kind = 0 if btype == "int32" else 1
    W6 = [[Fr(float(x)) for x in getattr(HZ, "_WEIGHTS_SUBDIVIDE%d" % i)] for i in range(6)]
    res.notes.append("config %s: model variant %s, rounds %d, eps %s" % (cfg, variant, rounds, eps))

    cases = []

    def add(kind_, **kw):
        cases.append((kind_, kw))

    if rep:
        kw = dict(rep["kw"])
        kw["nodes"] = [[Fr(x) for x in r] for r in kw["nodes"]]
        for k in ("s", "t", "s0", "t0"):
            if kw.get(k) is not None:
                kw[k] = Fr(kw[k])
        if kw.get("point") is not None:
            kw["point"] = [Fr(x) for x in kw["point"]]
        add(rep["kind"], **kw)
    else:
        reps = 3 if not thorough else 12
        if os.environ.get("VERIF_SEARCH"):
            reps = max(reps, 6)
        dy = [Fr(0), Fr(1, 2), Fr(1, 4), Fr(3, 4), Fr(1, 8), Fr(3, 8), Fr(5, 16), Fr(1, 64), Fr(21, 64)]
        # ---- regime E
        for d in (1, 2, 3):
            for _ in range(reps):
                td, nodes = e_net(rnd, d, 10 if d == 1 else 0)
                pts = [(Fr(0), Fr(0)), (Fr(1), Fr(0)), (Fr(0), Fr(1)), (Fr(1, 2), Fr(0)), (Fr(0), Fr(1, 2)), (Fr(1, 2), Fr(1, 2)),
                       (Fr(1, 4), Fr(1, 4)), (Fr(1, 8), Fr(5, 8)), (Fr(1, 4), Fr(1, 2)), (Fr(3, 8), Fr(3, 8)), (Fr(5, 16), Fr(1, 64))]
                for _ in range(3):
                    a, b = rnd.choice(dy), rnd.choice(dy)
                    if a + b <= 1:
                        pts.append((a, b))
                for _ in range(2):
                    a = G.dyadic_param(rnd, 6)
                    b = G.dyadic_param(rnd, 6) * (1 - a)
                    b = Fr(int(b * 64), 64)
                    pts.append((a, b))
                for s, t in pts:
                    add("E-on", nodes=nodes, d=d, td=td, s=s, t=t)
                # off-surface: outside the box, and inside the box at dyadic offsets from a surface point
                xs, ys = nodes
                add("E-off", nodes=nodes, d=d, td=td, point=[max(xs) + 1, ys[0]])
                add("E-off", nodes=nodes, d=d, td=td, point=[xs[0], min(ys) - Fr(1, 4)])
                add("E-off", nodes=nodes, d=d, td=td, point=[max(xs), max(ys)])
                for e in (2, 6, 10):
                    s, t = rnd.choice(dy), rnd.choice(dy)
                    if s + t > 1:
                        s, t = Fr(1, 4), Fr(1, 4)
                    base = [X.tri_eval(r, d, 1 - s - t, s, t) for r in nodes]
                    add("E-off", nodes=nodes, d=d, td=td, point=[base[0] + Fr(1, 2 ** e), base[1] - Fr(1, 2 ** e)])
                    # below the bottom edge near a boundary point
                    sb = rnd.choice(dy)
                    bb = [X.tri_eval(r, d, 1 - sb, sb, 0) for r in nodes]
                    add("E-off", nodes=nodes, d=d, td=td, point=[bb[0], bb[1] - Fr(1, 2 ** (e + 4))])
                # just outside the hypotenuse, at distances around the final resolution 2^-rounds of the search: which round
                # drops the last candidate is decided exactly (pins the number of rounds and the closedness of the box test)
                nn = len(xs)
                outward = [nodes[r][d] + nodes[r][nn - 1] - 2 * nodes[r][0] for r in range(2)]
                for k in range(15, 27):
                    sh = rnd.choice([Fr(1, 2), Fr(1, 4), Fr(3, 4), Fr(3, 8), Fr(5, 16)])
                    base = [X.tri_eval(r, d, 0, sh, 1 - sh) for r in nodes]
                    add("E-off", nodes=nodes, d=d, td=td, point=[base[0] + outward[0] * Fr(1, 2 ** k), base[1] + outward[1] * Fr(1, 2 ** k)], edge=k)
                # Newton step alone, exact data
                for _ in range(2):
                    s, t = rnd.choice(dy), rnd.choice(dy)
                    if s + t > 1:
                        s, t = t / 2, s / 2
                    s0, t0 = rnd.choice(dy) / 2, rnd.choice(dy) / 2
                    add("E-newton", nodes=nodes, d=d, td=td, s=s, t=t, s0=s0, t0=t0)
                # pure configuration: the candidate bookkeeping round by round
                if pure:
                    for s, t in [(Fr(1, 4), Fr(1, 4)), (Fr(0), Fr(0)), (Fr(3, 8), Fr(1, 2)), (rnd.choice(dy) / 2, rnd.choice(dy) / 2)]:
                        add("E-cands", nodes=nodes, d=d, td=td, s=s, t=t)
        # ---- regime T
        for d, curved in ((1, False), (2, False), (3, False), (4, False), (5, False), (2, True)):
            for _ in range(reps if d < 5 else 1):
                nodes = t_net(rnd, d)
                if curved:
                    # strongly curved valid quadratic: x = 3s (+noise), y = 3t - 3K s(1-s-t): the first Newton step leaves an error
                    # ~ K * 2^-43, well above LOCATE_EPS, so the second step is visible
                    nodes[1][1] -= Fr(6)
                pts = [(Fr(0), Fr(0)), (Fr(1), Fr(0)), (Fr(0), Fr(1)), (Fr(1, 2), Fr(1, 2)), (Fr(1, 4), Fr(1, 4)), (Fr(1, 8), Fr(5, 8))]
                pts += [(Fr(float(a)), Fr(float(b))) for a, b in [(rnd.uniform(0, 0.5), rnd.uniform(0, 0.5)) for _ in range(4)]]
                pts += [(Fr(float(a)), Fr(float(1 - a) * 0.999)) for a in [rnd.uniform(0.05, 0.95)]]
                if d == 5:
                    pts = pts[3:8]
                for s, t in pts:
                    add("T-on", nodes=nodes, d=d, s=s, t=t)
                xs, ys = nodes
                add("T-off", nodes=nodes, d=d, point=[Fr(50), Fr(50)])
                add("T-off", nodes=nodes, d=d, point=[Fr(-1, 2), Fr(-1, 2)])
                for dist in (2.0 ** -30, 2.0 ** -12, 2.0 ** -3):
                    s, t = rnd.uniform(0.1, 0.4), rnd.uniform(0.1, 0.4)
                    base = [X.tri_eval(r, d, 1 - Fr(s) - Fr(t), Fr(s), Fr(t)) for r in nodes]
                    ang = rnd.uniform(0, 2 * math.pi)
                    add("T-off", nodes=nodes, d=d, point=[Fr(float(base[0]) + dist * math.cos(ang)), Fr(float(base[1]) + dist * math.sin(ang))])
                    # outside the surface close to the bottom edge
                    sb = rnd.uniform(0.1, 0.9)
                    bb = [X.tri_eval(r, d, 1 - Fr(sb), Fr(sb), 0) for r in nodes]
                    add("T-off", nodes=nodes, d=d, point=[Fr(float(bb[0])), Fr(float(bb[1]) - dist)])
                for _ in range(2):
                    s, t = rnd.uniform(0.1, 0.4), rnd.uniform(0.1, 0.4)
                    add("T-newton", nodes=nodes, d=d, s=Fr(s), t=Fr(t), s0=Fr(s + rnd.uniform(-0.05, 0.05)), t0=Fr(t + rnd.uniform(-0.05, 0.05)))

    if not rep:
        # ---- FAR / BOX-OFF families, off-surface points (kinds E-off / T-off, tagged fam=...)
        far_i = rnd.randrange(len(FAR.FAR_K))

        def boxoff(kind_, nodes, d, every, **extra):
            bases = [[nodes[0][c], nodes[1][c]] for c in FAR.tri_corners(d)]
            pts = FAR.box_off_points(nodes, bases)
            start = rnd.randrange(every)
            for p, grade in pts[start::every]:
                add(kind_, nodes=nodes, d=d, point=p, grade=grade, **extra)

        for d in (1, 2, 3):
            for _ in range(1 if not thorough else 6):
                td, base = e_net(rnd, d, 4 if d == 1 else 0)
                k = min(max(FAR.FAR_K[far_i % len(FAR.FAR_K)], 3), 26)
                far_i += 1
                offs = [rnd.choice((-1, 1)) * rnd.choice((4, 5, 6, 7)) * 2 ** (k - 2) for _ in range(2)]
                far = [[v + o for v in r] for r, o in zip(base, offs)]
                assert all(C.is_exact_float(v) for r in far for v in r)
                xs, ys = far
                add("E-off", nodes=far, d=d, td=td, point=[max(xs) + 1, ys[0]], fam="far")
                add("E-off", nodes=far, d=d, td=td, point=[xs[0], min(ys) - Fr(1, 4)], fam="far")
                add("E-off", nodes=far, d=d, td=td, point=[max(xs), max(ys)], fam="far")
                nn = len(xs)
                outward = [far[r][d] + far[r][nn - 1] - 2 * far[r][0] for r in range(2)]
                for kk in range(15, 27):
                    sh = rnd.choice([Fr(1, 2), Fr(1, 4), Fr(3, 4), Fr(3, 8), Fr(5, 16)])
                    bp = [X.tri_eval(r, d, 0, sh, 1 - sh) for r in far]
                    add("E-off", nodes=far, d=d, td=td, point=[bp[0] + outward[0] * Fr(1, 2 ** kk), bp[1] + outward[1] * Fr(1, 2 ** kk)], edge=kk, fam="far")
                boxoff("E-off", far, d, 3, td=td, fam="far-boxoff")
                boxoff("E-off", base, d, 3, td=td, fam="boxoff")
        for d in (1, 2, 3, 4):
            for _ in range(1 if not thorough else 4):
                base = t_net(rnd, d)
                k = FAR.FAR_K[far_i % len(FAR.FAR_K)]
                far_i += 1
                far = FAR.translate(base, FAR.offsets(rnd, 2, k, False))
                boxoff("T-off", far, d, 4, fam="far-boxoff")
                boxoff("T-off", base, d, 4, fam="boxoff")

    # ---------------------------------------------------------------- model queries
    drv = C.Driver()
    prepared = []
    for kind_, kw in cases:
        nodes, d = kw["nodes"], kw["d"]
        arr = C.farr(nodes)
        q = {}
        if kind_ in ("E-on", "T-on", "E-cands"):
            s, t = kw["s"], kw["t"]
            p = TH.evaluate_barycentric(arr, d, float(1 - s - t), float(s), float(t))
            q["point"] = [Fr(float(p[0, 0])), Fr(float(p[1, 0]))]
        elif kind_ in ("E-off", "T-off"):
            q["point"] = [Fr(float(v)) for v in kw["point"]]
        elif kind_ in ("E-newton", "T-newton"):
            s, t = kw["s"], kw["t"]
            p = TH.evaluate_barycentric(arr, d, float(1 - s - t), float(s), float(t))
            q["point"] = [Fr(float(p[0, 0])), Fr(float(p[1, 0]))]
        pt = q["point"]
        if kind_ in ("E-on", "T-on", "E-off", "T-off"):
            q["trace"] = drv.ask("locate_triangle_trace_" + variant, kind, thr, d, nodes, pt[0], pt[1], rounds, eps * eps, W6)
            if kind_ == "E-on" and kw["s"] in (Fr(1, 4), Fr(0)):
                q["plain"] = drv.ask("locate_triangle_" + variant, kind, thr, d, nodes, pt[0], pt[1], rounds, eps * eps, W6)
        elif kind_ == "E-cands":
            q["cands"] = {r: drv.ask("locate_triangle_cands_py", d, nodes, pt[0], pt[1], r, W6) for r in (1, 2, 3, 6, rounds)}
        else:
            q["newton"] = drv.ask("newton_triangle_" + variant, kind, thr, d, nodes, pt[0], pt[1], kw["s0"], kw["t0"])
        prepared.append(q)
    replies = drv.run()

    scale_of = lambda nodes: max([abs(x) for r in nodes for x in r] + [Fr(1)])
    agree = {"E-none": 0, "E-exact-st": 0, "E-tol-st": 0, "T-none": 0, "T-st": 0, "T-margin-unclear": 0, "cands": 0, "newton-exact": 0,
             "newton-tol": 0, "plain": 0, "second-newton": 0}

    for (kind_, kw), q in zip(cases, prepared):
        nodes, d = kw["nodes"], kw["d"]
        arr = C.farr(nodes)
        jkw = {k: (C.jfr(v) if k in ("nodes", "point") else (str(v) if isinstance(v, Fr) else v)) for k, v in kw.items()}
        rc = {"kind": kind_, "kw": jkw}
        res.count((kind_, str(jkw)), kind=kind_, degree=d)
        res.sample({"kind": kind_, "degree": d, "s": str(kw.get("s")), "t": str(kw.get("t")), "point": C.jfr(kw["point"]) if kw.get("point") else None})
        pt = q["point"]
        px, py = float(pt[0]), float(pt[1])
        scale = scale_of(nodes)
        try:
            if kind_ in ("E-on", "T-on", "E-off", "T-off"):
                got = TI.locate_point(arr, d, px, py)
                tri = bezier.Triangle(arr, d)
                got_api = tri.locate(np.asfortranarray([[px], [py]]))
                if (got is None) != (got_api is None) or (got is not None and tuple(map(float, got)) != tuple(map(float, got_api))):
                    res.failure("locate-api-differs", "Triangle.locate %r vs locate_point %r" % (got_api, got), rc)
                st, rep_m = replies[q["trace"]]
                impl_finite = got is None or all(math.isfinite(float(v)) for v in got)
                if st == "err":
                    # singular Newton system in the model: the code divides by zero -> non-finite parameters
                    if impl_finite:
                        res.mismatch("locate_point(triangle)", rc, str(got), "err " + rep_m, "model reports a singular Newton system, impl returned finite parameters")
                    continue
                m_res, counts, margin, est, first = rep_m
                margin = None if margin == [] else margin
                m_none = (m_res == [])
                if "plain" in q:
                    stp, plain = replies[q["plain"]]
                    if stp != "ok" or plain != m_res:
                        res.mismatch("model:locate_triangle-vs-trace", rc, str(plain), str(m_res), "plain op and trace op differ")
                    else:
                        agree["plain"] += 1
                on = kind_.endswith("-on")
                if on:
                    s, t = kw["s"], kw["t"]
                    ex = [X.tri_eval(nodes[r], d, 1 - s - t, s, t) for r in range(2)]
                    exact_on = pt[0] == ex[0] and pt[1] == ex[1]
                    # model vs spec: an exactly-on-surface point is never missed (C10.tri_on_surface_not_miss)
                    if exact_on and m_none:
                        res.mismatch("model:locate-triangle", rc, str(got), "None", "model misses an exact on-surface point (contradicts the theorem)")
                    if not m_none:
                        ms, mt = m_res
                        if abs(ms - s) > Fr(1, 2 ** 36) or abs(mt - t) > Fr(1, 2 ** 36):
                            res.mismatch("model:locate-triangle", rc, "-", str([float(ms), float(mt)]), "model round trip inaccurate (model vs spec)")
                # ------------- impl vs spec (the property itself)
                if on and got is None:
                    dyb = is_dyadic(s, 20) and is_dyadic(t, 20)
                    key = "locate-triangle:closed-box-miss@dyadic-breakpoint" if (dyb and not exact_on) else "locate-triangle:miss-on-surface"
                    res.failure(key, "triangle locate_point returned None for evaluate(s=%s,t=%s), degree %d" % (s, t, d), rc)
                if on and got is not None and impl_finite:
                    gs, gt = Fr(float(got[0])), Fr(float(got[1]))
                    if abs(gs - s) > Fr(1, 2 ** 36) or abs(gt - t) > Fr(1, 2 ** 36):
                        res.failure("locate-triangle:roundtrip-inaccurate", "triangle locate(evaluate(%s,%s)) = (%r,%r)" % (s, t, got[0], got[1]), rc)
                if not on:
                    outside_box = any(pt[r] < min(nodes[r]) or pt[r] > max(nodes[r]) for r in range(2))
                    if outside_box and got is not None:
                        res.failure("locate-triangle:off-shape-not-none", "point outside the control-point box located at %r" % (got,), rc)
                    if outside_box and not m_none:
                        res.mismatch("model:locate-triangle", rc, str(got), str(m_res), "model locates a point outside the box (contradicts tri_off_box_none)")
                # ------------- the second Newton call (pins LOCATE_EPS / vector_close): where the model takes it and it moves the
                # parameters by clearly more than rounding, the code must have taken it, too
                if got is not None and impl_finite and not m_none and first and first != m_res:
                    gap = max(abs(first[0] - m_res[0]), abs(first[1] - m_res[1]))
                    if gap > Fr(1, 2 ** 44):
                        dist = max(abs(Fr(float(got[0])) - m_res[0]), abs(Fr(float(got[1])) - m_res[1]))
                        if dist > gap / 4:
                            res.mismatch("locate_point(triangle):second-newton", rc, str(tuple(map(float, got))), str((float(m_res[0]), float(m_res[1]))),
                                         "model takes the second Newton step (moves the parameters by %.3e), impl stays %.3e away" % (float(gap), float(dist)))
                        else:
                            agree["second-newton"] += 1
                # ------------- impl vs model
                if kind_.startswith("E-"):
                    td = kw["td"]
                    levels = sum(1 for c in counts if c > 0)             # subdivisions whose results are looked at
                    bits = td * min(levels + 1, rounds) + int(scale).bit_length() + 3
                    if bits > 53:
                        res.skip("E budget exceeded (%d bits)" % bits)
                        continue
                    if (got is None) != m_none:
                        res.mismatch("locate_point(triangle)", rc, str(got), str(m_res), "regime E: None-ness differs from the exact model")
                        continue
                    agree["E-none"] += 1
                    if got is None:
                        continue
                    gs, gt = Fr(float(got[0])), Fr(float(got[1]))
                    ms, mt = m_res
                    exact_st = (est == m_res) and C.is_exact_float(ms) and C.is_exact_float(mt) and \
                        td * max(ms.denominator.bit_length(), mt.denominator.bit_length()) + int(scale).bit_length() + 4 <= 53
                    if exact_st:
                        if (gs, gt) != (ms, mt):
                            res.mismatch("locate_point(triangle)", rc, str((gs, gt)), str((ms, mt)), "regime E: located parameters differ from the exact model")
                        else:
                            agree["E-exact-st"] += 1
                    else:
                        tol = Fr(1, 2 ** 40)
                        if abs(gs - ms) > tol or abs(gt - mt) > tol:
                            res.mismatch("locate_point(triangle)", rc, str((float(gs), float(gt))), str((float(ms), float(mt))), "regime E (rounded estimate): beyond tolerance")
                        else:
                            agree["E-tol-st"] += 1
                else:
                    # decision margin against the rounding of the subdivided nets: (rounds * degree) roundings of relative size u
                    clear = margin is None or margin > 64 * rounds * d * C.U * scale
                    if not clear:
                        agree["T-margin-unclear"] += 1
                    if (got is None) != m_none:
                        if clear:
                            res.mismatch("locate_point(triangle)", rc, str(got), str(m_res), "regime T: None-ness differs although the decision margin is clear (margin %.3e)" % float(margin or 0))
                        continue
                    if clear:
                        agree["T-none"] += 1
                    if got is None or not impl_finite:
                        continue
                    gs, gt = Fr(float(got[0])), Fr(float(got[1]))
                    ms, mt = m_res
                    det = abs(jac_det(nodes, d, ms, mt))
                    reg = max(float(det) / float(scale * scale), 1e-9)
                    tol = 2.0 ** -40 / reg
                    if abs(float(gs - ms)) > tol or abs(float(gt - mt)) > tol:
                        res.mismatch("locate_point(triangle)", rc, str((float(gs), float(gt))), str((float(ms), float(mt))), "regime T: beyond tolerance %.3e" % tol)
                    else:
                        agree["T-st"] += 1
            elif kind_ == "E-cands":
                # replicate locate_point's loop with the library's own update_locate_candidates
                cands = [(1.0, 1.0, 1.0, arr)]
                for r in range(1, rounds + 1):
                    nxt = []
                    for cand in cands:
                        HTI.update_locate_candidates(cand, nxt, px, py, d)
                    cands = nxt
                    if r in q["cands"]:
                        st, model = replies[q["cands"][r]]
                        impl = [[Fr(float(c[0])), Fr(float(c[1])), Fr(float(c[2]))] for c in cands]
                        if st != "ok" or impl != model:
                            res.mismatch("update_locate_candidates", dict(rc, round=r), str(impl[:8]), str(model[:8] if st == "ok" else model),
                                         "candidate bookkeeping (3*centroid, width) after %d rounds differs" % r)
                        else:
                            agree["cands"] += 1
                if cands:
                    mc = HTI.mean_centroid(cands)
                    st, model = replies[q["cands"][rounds]]
                    if st == "ok" and model:
                        n = len(model)
                        want = (sum(c[0] for c in model) / (3 * n), sum(c[1] for c in model) / (3 * n))
                        if abs(Fr(float(mc[0])) - want[0]) > 4 * C.U or abs(Fr(float(mc[1])) - want[1]) > 4 * C.U:
                            res.mismatch("mean_centroid", rc, str(mc), str(want), "mean of the tripled centroids / 3n")
            else:
                s0, t0 = kw["s0"], kw["t0"]
                got = TI.newton_refine(arr, d, px, py, float(s0), float(t0))
                st, model = replies[q["newton"]]
                if st != "ok":
                    if all(math.isfinite(float(v)) for v in got):
                        res.mismatch("newton_refine(triangle)", rc, str(got), "err " + str(model), "model: singular system")
                    continue
                gs, gt = Fr(float(got[0])), Fr(float(got[1]))
                ms, mt = model
                if kind_ == "E-newton" and C.is_exact_float(ms) and C.is_exact_float(mt) and ms.denominator <= 2 ** 12 and mt.denominator <= 2 ** 12 \
                        and (d == 1 or (ms, mt) == (s0, t0)):
                    if (gs, gt) != (ms, mt):
                        res.mismatch("newton_refine(triangle)", rc, str((gs, gt)), str((ms, mt)), "regime E: exact step differs")
                    else:
                        agree["newton-exact"] += 1
                else:
                    det = abs(jac_det(nodes, d, s0, t0))
                    reg = max(float(det) / float(scale * scale), 1e-9)
                    tol = 2.0 ** -44 / reg * max(1.0, float(abs(ms) + abs(mt)))
                    if abs(float(gs - ms)) > tol or abs(float(gt - mt)) > tol:
                        res.mismatch("newton_refine(triangle)", rc, str((float(gs), float(gt))), str((float(ms), float(mt))), "beyond tolerance %.3e" % tol)
                    else:
                        agree["newton-tol"] += 1
        except Exception as exc:  # noqa
            res.failure("raised:%s:%s" % (kind_, type(exc).__name__), "%s raised %r" % (kind_, exc), rc)
    res.notes.append("agreement counts (%s): %s" % (cfg, ", ".join("%s=%d" % kv for kv in sorted(agree.items()))))
    res.dist["agree"] = {k: v for k, v in agree.items()}
    res.emit()
    if rep:
        bad = bool(res.failures) or bool(res.mismatches)
        print("replay: " + ("property fails on this input: " + (res.failures[0]["what"] if res.failures else str(res.mismatches[0]["note"])) if bad else "property holds on this input"))
        sys.exit(1 if bad else 0)


main()
