"""C11 — tangents, curvature and Jacobians are the true derivatives: correspondence + oracle.

impl  : evaluate_hodograph, get_curvature, newton_refine (curve), newton_refine (curve-curve),
        jacobian_both, jacobian_det, newton_refine (triangle)  -- through the shims
model : driver `hodograph`, `curvature_parts`, `newton_refine_curve` (curve part)
spec  : exact derivatives of the polynomial map in the power basis (independent of forward differences)
"""
import sys
import math
import numpy as np
from fractions import Fraction as Fr
import common as C
import exact as X
import gen as G


def d1(row, s):
    return X.poly_eval(X.poly_deriv(X.bern_to_power(row)), s)


def d2(row, s):
    return X.poly_eval(X.poly_deriv(X.poly_deriv(X.bern_to_power(row))), s)


def d1_abs(row, s):
    n = len(row) - 1
    if n == 0:
        return Fr(0)
    return n * X.bern_abs([row[j + 1] - row[j] for j in range(n)], s) + 0


def tri_partial(row, d, s, t, which):
    net = X.tri_jacobian_s(row, d) if which == "s" else X.tri_jacobian_t(row, d)
    return X.tri_eval(net, d - 1, 1 - s - t, s, t)


def tri_partial_abs(row, d, s, t, which):
    net = X.tri_jacobian_s(row, d) if which == "s" else X.tri_jacobian_t(row, d)
    return X.tri_eval_abs(net, d - 1, 1 - s - t, s, t)


def main():
    bezier = C.import_bezier()
    from bezier import _curve_helpers as CH
    from bezier import _intersection_helpers as IH
    from bezier.hazmat import intersection_helpers as IHZ
    from bezier import _triangle_helpers as TH
    from bezier import _triangle_intersection as TI
    rnd, seed = C.rng()
    thorough = C.tier() == "thorough"
    cfg = C.config_name()
    res = C.Result("C11")
    rep = C.replay_case()
    thr = C.generated("py_curve_vs_threshold" if cfg == "pure" else "f90_curve_vs_threshold", 55)
    U = C.U

    cases = []

    def add(kind, **kw):
        cases.append((kind, kw))

    GRID = [Fr(0), Fr(1), Fr(1, 2), Fr(1, 4), Fr(3, 4), Fr(1, 8), Fr(-1, 2), Fr(3, 2)]
    if rep:
        kw = dict(rep["kw"])
        for k in ("nodes", "nodes2"):
            if k in kw:
                kw[k] = [[Fr(x) for x in r] for r in kw[k]]
        for k in ("s", "t", "x", "y"):
            if k in kw:
                kw[k] = Fr(kw[k])
        if "point" in kw:
            kw["point"] = [Fr(x) for x in kw["point"]]
        add(rep["kind"], **kw)
    else:
        degs = list(range(1, 31))
        for n in degs:
            # linear quantity: operator extraction on the identity net (all unit nets), regime E at dyadic s
            for s in (GRID if n <= 8 else GRID[:5]):
                if n * (s.denominator.bit_length() - 1) <= 40:
                    add("hodograph", nodes=G.unit_nets(n + 1), s=s, regime="E")
            add("hodograph", nodes=G.unit_nets(n + 1), s=G.float_param(rnd), regime="T")
            for dim in (1, 2, 3, 4):
                add("hodograph", nodes=G.float_net(rnd, dim, n + 1, 0), s=G.float_param(rnd, 0.0, 1.0), regime="T")
            # curvature (2-D), newton (2-D / 3-D)
            for _ in range(2 if not thorough else 6):
                add("curvature", nodes=G.smooth_float_net(rnd, 2, n + 1), s=G.float_param(rnd, 0.0, 1.0))
                add("curvature", nodes=G.int_net(rnd, 2, n + 1, 16), s=rnd.choice(GRID[:6]))
                dim = rnd.choice([2, 3])
                nodes = G.smooth_float_net(rnd, dim, n + 1)
                s0 = G.float_param(rnd, 0.1, 0.9)
                pt = [Fr(float(x)) + Fr(rnd.uniform(-1e-3, 1e-3)) for x in X.eval_curve(nodes, s0)]
                add("newton-curve", nodes=nodes, point=pt, s=Fr(float(s0)) + Fr(rnd.uniform(-1e-3, 1e-3)))
        # curve-curve Newton step
        for n1 in range(1, 7):
            for n2 in range(1, 7):
                for _ in range(1 if not thorough else 4):
                    a = G.smooth_float_net(rnd, 2, n1 + 1)
                    b = [r for r in reversed(G.smooth_float_net(rnd, 2, n2 + 1))]
                    add("newton-intersect", nodes=a, nodes2=b, s=G.float_param(rnd, 0.0, 1.0), t=G.float_param(rnd, 0.0, 1.0))
                    ai = G.int_net(rnd, 2, n1 + 1, 8)
                    bi = G.int_net(rnd, 2, n2 + 1, 8)
                    add("newton-intersect", nodes=ai, nodes2=bi, s=rnd.choice(GRID[:6]), t=rnd.choice(GRID[:6]))
        # the double-root system G = (F, B1' x B2') that full_newton_nonzero falls back to on a tangency: its Gauss-Newton
        # normal equations are observed on the first double-root evaluation of the running library code (mixed degrees,
        # the second derivative nets are built inside full_newton_nonzero)
        for n1 in range(1, 6):
            for n2 in range(1, 6):
                if n1 == 1 and n2 == 1:
                    continue
                ai = G.int_net(rnd, 2, n1 + 1, 8)
                bi = G.int_net(rnd, 2, n2 + 1, 8)
                add("newton-double-system", nodes=ai, nodes2=bi, s=rnd.choice(GRID[2:6]), t=rnd.choice(GRID[2:6]))
                add("newton-double-system", nodes=G.smooth_float_net(rnd, 2, n1 + 1), nodes2=G.smooth_float_net(rnd, 2, n2 + 1),
                    s=G.float_param(rnd, 0.1, 0.9), t=G.float_param(rnd, 0.1, 0.9))
        # singular Jacobian must raise, exact hit must be a no-op
        add("newton-intersect-singular", nodes=[[Fr(0), Fr(1)], [Fr(0), Fr(1)]], nodes2=[[Fr(0), Fr(2)], [Fr(1), Fr(3)]], s=Fr(1, 2), t=Fr(1, 2))
        add("newton-intersect-noop", nodes=[[Fr(0), Fr(2)], [Fr(0), Fr(2)]], nodes2=[[Fr(0), Fr(2)], [Fr(2), Fr(0)]], s=Fr(1, 2), t=Fr(1, 2))
        # triangles
        for d in range(1, 11):
            nn = G.tri_nodes_count(d)
            add("jacobian-both", nodes=G.unit_nets(nn), d=d)
            for dim in (1, 2, 3, 4):
                add("jacobian-both", nodes=G.float_net(rnd, dim, nn, 0), d=d)
            # bilinear: polarisation on pairs of unit nets (x-net e_i, y-net e_j) at dyadic points
            pairs = [(i, j) for i in range(nn) for j in range(nn)]
            if not thorough and len(pairs) > 60:
                pairs = rnd.sample(pairs, 60)
            pts = [(Fr(1, 4), Fr(1, 4)), (Fr(1, 2), Fr(1, 4)), (Fr(0), Fr(0)), (Fr(1, 8), Fr(5, 8)), (Fr(1), Fr(0))]
            for i, j in pairs:
                x = [Fr(int(k == i)) for k in range(nn)]
                y = [Fr(int(k == j)) for k in range(nn)]
                add("jacobian-det", nodes=[x, y], d=d, pts=pts)
            for _ in range(2):
                add("jacobian-det", nodes=G.float_net(rnd, 2, nn, 0), d=d,
                    pts=[(G.float_param(rnd, 0.0, 0.5), G.float_param(rnd, 0.0, 0.5)) for _ in range(3)])
                nodes = [[Fr(float(v)) for v in r] for r in valid_triangle(rnd, d)]
                s0, t0 = G.float_param(rnd, 0.1, 0.4), G.float_param(rnd, 0.1, 0.4)
                px = X.tri_eval(nodes[0], d, 1 - s0 - t0, s0, t0)
                py = X.tri_eval(nodes[1], d, 1 - s0 - t0, s0, t0)
                add("newton-triangle", nodes=nodes, d=d, x=Fr(float(px)), y=Fr(float(py)),
                    s=Fr(float(s0)) + Fr(rnd.uniform(-1e-3, 1e-3)), t=Fr(float(t0)) + Fr(rnd.uniform(-1e-3, 1e-3)))

    if not rep:
        # one residual coordinate exactly zero, the other not: the step must still be the full Newton step
        for d in range(1, 5):
            for _ in range(3):
                nodes = valid_triangle(rnd, d)
                k = 0
                for kk in range(d + 1):
                    for j in range(d + 1 - kk):
                        nodes[0][k] = 4.0 * j / d if d in (1, 2, 4) else 3.0 * j / d        # x affine in s, exactly representable
                        k += 1
                nodes = [[Fr(float(v)) for v in r] for r in nodes]
                s0, t0 = Fr(rnd.choice([1, 2, 3]), 8), Fr(float(rnd.uniform(0.1, 0.4)))
                px = X.tri_eval(nodes[0], d, 1 - s0 - t0, s0, t0)
                py = X.tri_eval(nodes[1], d, 1 - s0 - t0, s0, t0)
                if C.is_exact_float(px):
                    add("newton-triangle", nodes=nodes, d=d, x=px, y=Fr(float(py)) + Fr(1, 8), s=s0, t=t0)
        for n1 in (1, 2, 3):
            a = [[Fr(j) for j in range(n1 + 1)], [Fr(rnd.randint(-3, 3)) for _ in range(n1 + 1)]]      # x(s) = n1*s exactly
            b = [[Fr(1, 2) * n1, Fr(1, 2) * n1], [Fr(-4), Fr(4)]]                                          # vertical line x = n1/2
            add("newton-intersect", nodes=a, nodes2=b, s=Fr(1, 2), t=Fr(1, 4))                         # F_x = 0 exactly, F_y != 0

    # ---- model queries for the curve part
    drv = C.Driver()
    midx = []
    for kind, kw in cases:
        if kind == "hodograph":
            midx.append(drv.ask("hodograph", thr, kw["nodes"], kw["s"]))
        elif kind == "newton-curve":
            midx.append(drv.ask("newton_refine_curve", thr, kw["nodes"], kw["point"], kw["s"]))
        elif kind == "jacobian-both":
            midx.append(drv.ask("jacobian_both", kw["d"], kw["nodes"]))
        elif kind == "jacobian-det":
            midx.append([drv.ask("jacobian_det", thr, kw["d"], kw["nodes"], a, b) for a, b in kw["pts"]])
        elif kind == "newton-triangle":
            midx.append(drv.ask("newton_refine_triangle", thr, kw["d"], kw["nodes"], kw["x"], kw["y"], kw["s"], kw["t"]))
        else:
            midx.append(None)
    replies = drv.run()

    for (kind, kw), mi in zip(cases, midx):
        nodes = kw["nodes"]
        dim = len(nodes)
        arr = C.farr(nodes)
        jkw = {k: (C.jfr(v) if k != "pts" else [[str(a), str(b)] for a, b in v]) for k, v in kw.items()}
        if dim > 4 and "nodes" in jkw:
            jkw["nodes"] = jkw["nodes"][:2]
        rc = {"kind": kind, "kw": jkw}
        keyn = C.jfr(nodes) if dim <= 4 else ("identity", len(nodes[0]))
        res.count((kind, keyn, str(kw.get("s")), str(kw.get("t")), str(kw.get("d"))), kind=kind,
                  size=len(nodes[0]), dim=min(dim, 5), regime=kw.get("regime", "T"))
        res.sample({"kind": kind, "num_nodes": len(nodes[0]), "dim": dim, "s": str(kw.get("s"))})
        try:
            if kind == "hodograph":
                s = kw["s"]
                n = len(nodes[0]) - 1
                out = np.asarray(CH.evaluate_hodograph(float(s), arr))
                st, model = replies[mi]
                for r in range(dim):
                    spec = d1(nodes[r], s)
                    if model[r] != spec:
                        res.mismatch("model-vs-spec:hodograph", rc, str(model[r]), str(spec))
                    got = Fr(float(out[r, 0]))
                    scale = d1_abs(nodes[r], s)
                    tol = 2 * (3 * n + 6) * U * scale
                    if kw["regime"] == "E":
                        if got != model[r]:
                            res.mismatch("evaluate_hodograph", rc, str(got), str(model[r]), "E regime")
                            if abs(got - spec) > tol:
                                res.failure("hodograph-wrong", "evaluate_hodograph degree %d at s=%s: %s, exact derivative %s" % (n, s, got, spec), rc)
                    elif abs(got - model[r]) > tol:
                        res.mismatch("evaluate_hodograph", rc, str(got), str(model[r]), "T regime")
                        res.failure("hodograph-wrong", "evaluate_hodograph degree %d at s=%s: |got-exact|=%.3e > %.3e" %
                                    (n, float(s), float(abs(got - spec)), float(tol)), rc)
                # the public method, queried twice on one object: the first tangent is NORMALISED IN PLACE by the caller (ordinary
                # numpy usage) before the second query, and a curve built from the same array is queried at another parameter;
                # each answer must be the derivative at its own parameter (a cached array handed out without a copy, or a cache
                # that ignores the parameter, shows here)
                if dim <= 4 and n >= 1 and kw["regime"] == "T":
                    cobj = bezier.Curve(arr, n)
                    first = cobj.evaluate_hodograph(float(s))
                    try:
                        first *= 0.0
                        first += 7.25
                    except ValueError:
                        pass                                   # a read-only result cannot be scribbled on
                    for s2 in (s, Fr(1, 2) if s != Fr(1, 2) else Fr(1, 4)):
                        again = np.asarray(cobj.evaluate_hodograph(float(s2)))
                        for r in range(dim):
                            spec2 = d1(nodes[r], Fr(float(s2)))
                            if abs(Fr(float(again[r, 0])) - spec2) > 2 * (3 * n + 6) * U * d1_abs(nodes[r], Fr(float(s2))) + 4 * U * abs(spec2):
                                res.failure("hodograph-wrong:second-query", "Curve.evaluate_hodograph degree %d at s=%s after the caller modified the "
                                            "array returned by an earlier query: %r, exact derivative %s" % (n, float(s2), float(again[r, 0]), float(spec2)), rc)
                                break
            elif kind == "curvature":
                s = kw["s"]
                n = len(nodes[0]) - 1
                tx, ty = d1(nodes[0], s), d1(nodes[1], s)
                tangent = np.asfortranarray([[float(tx)], [float(ty)]])
                if float(tx) == 0.0 and float(ty) == 0.0:
                    res.skip("zero tangent")
                    continue
                got = float(CH.get_curvature(arr, tangent, float(s)))
                ftx, fty = Fr(float(tx)), Fr(float(ty))
                cx, cy = d2(nodes[0], s), d2(nodes[1], s)
                num = ftx * cy - fty * cx
                nrm2 = ftx * ftx + fty * fty
                spec = float(num) / (math.sqrt(float(nrm2)) ** 3)
                # condition scale of the numerator
                n2 = n * (n - 1)
                cabs = [n2 * X.bern_abs([nodes[r][j + 2] - 2 * nodes[r][j + 1] + nodes[r][j] for j in range(n - 1)], s) if n >= 2 else Fr(0) for r in range(2)]
                scale = float(abs(ftx) * cabs[1] + abs(fty) * cabs[0]) / (math.sqrt(float(nrm2)) ** 3)
                tol = 4 * (3 * n + 12) * float(U) * scale + 8 * float(U) * abs(spec)
                if n == 1 and got != 0.0:
                    res.failure("curvature-line-nonzero", "get_curvature of a line returned %r" % got, rc)
                elif abs(got - spec) > tol:
                    res.failure("curvature-wrong", "get_curvature degree %d at s=%s: %r vs (B' x B'')/|B'|^3 = %r (tol %.3e)" % (n, float(s), got, spec, tol), rc)
            elif kind == "newton-curve":
                s = kw["s"]
                n = len(nodes[0]) - 1
                pt = np.asfortranarray([[float(x)] for x in kw["point"]])
                got = Fr(float(CH.newton_refine(arr, pt, float(s))))
                st, model = replies[mi]
                num = sum((kw["point"][r] - X.bern(nodes[r], s)) * d1(nodes[r], s) for r in range(dim))
                den = sum(d1(nodes[r], s) ** 2 for r in range(dim))
                spec = s + num / den
                if model != spec:
                    res.mismatch("model-vs-spec:newton-curve", rc, str(model), str(spec))
                nabs = sum((abs(kw["point"][r]) + X.bern_abs(nodes[r], s)) * d1_abs(nodes[r], s) for r in range(dim))
                dabs = sum(d1_abs(nodes[r], s) ** 2 for r in range(dim))
                tol = 4 * (3 * n + 12) * U * (abs(s) + nabs / den + abs(num) * dabs / den ** 2)
                if abs(got - model) > tol:
                    res.mismatch("newton_refine(curve)", rc, str(got), str(model), "T regime")
                    res.failure("newton-curve-wrong", "newton_refine (curve) degree %d: %s vs exact Newton step %s" % (n, float(got), float(spec)), rc)
            elif kind == "newton-double-system":
                n2 = kw["nodes2"]
                arr2 = C.farr(n2)
                s, t = Fr(float(kw["s"])), Fr(float(kw["t"]))
                rec = []

                class _Stop(Exception):
                    pass
                orig_call = IHZ.NewtonDoubleRoot.__call__
                orig_simple = IHZ.NewtonSimpleRoot.__call__

                def spy(self, s_, t_):
                    out = orig_call(self, s_, t_)
                    rec.append((Fr(float(s_)), Fr(float(t_)), out))
                    raise _Stop()

                def simple_never(self, s_, t_):
                    # make the simple-root stage give up at once (a singular system), so that the double-root stage starts
                    # from the given parameters
                    return np.zeros((2, 2), order="F"), np.ones((2, 1), order="F")
                IHZ.NewtonDoubleRoot.__call__ = spy
                IHZ.NewtonSimpleRoot.__call__ = simple_never
                try:
                    IHZ.full_newton_nonzero(float(s), arr, float(t), arr2)
                except _Stop:
                    pass
                except Exception as exc:  # noqa
                    res.failure("newton-double-raised", "full_newton_nonzero raised %s before evaluating the double-root system" % type(exc).__name__, rc)
                finally:
                    IHZ.NewtonDoubleRoot.__call__ = orig_call
                    IHZ.NewtonSimpleRoot.__call__ = orig_simple
                if not rec:
                    res.skip("double-root stage not reached")
                    continue
                s_, t_, (lhs, rhs) = rec[0]
                d1x, d1y = X.hodograph_exact(nodes[0], s_), X.hodograph_exact(nodes[1], s_)
                d2x, d2y = X.hodograph_exact(n2[0], t_), X.hodograph_exact(n2[1], t_)
                dd1x, dd1y = X.second_deriv_exact(nodes[0], s_), X.second_deriv_exact(nodes[1], s_)
                dd2x, dd2y = X.second_deriv_exact(n2[0], t_), X.second_deriv_exact(n2[1], t_)
                g = [X.bern(nodes[0], s_) - X.bern(n2[0], t_), X.bern(nodes[1], s_) - X.bern(n2[1], t_), d1x * d2y - d1y * d2x]
                jac = [[d1x, -d2x], [d1y, -d2y], [dd1x * d2y - dd1y * d2x, d1x * dd2y - d1y * dd2x]]
                if lhs is None:
                    if any(v != 0 for v in g):
                        res.failure("newton-double-system-wrong", "double-root system reported G = 0 although G = %s" % [float(v) for v in g], rc)
                    continue
                want_lhs = [[sum(jac[k][i] * jac[k][j] for k in range(3)) for j in range(2)] for i in range(2)]
                want_rhs = [sum(jac[k][i] * g[k] for k in range(3)) for i in range(2)]
                abs_lhs = [[sum(abs(jac[k][i] * jac[k][j]) for k in range(3)) for j in range(2)] for i in range(2)]
                abs_rhs = [sum(abs(jac[k][i] * g[k]) for k in range(3)) for i in range(2)]
                size = max(max(abs(float(v)) for r in nodes for v in r), max(abs(float(v)) for r in n2 for v in r), 1.0)
                deg = max(len(nodes[0]), len(n2[0]))
                # generous T-regime allowance: cancellation inside the entries of J is covered by the size^4 term
                tol_rel, tol_abs = 2.0 ** -30, 2.0 ** -36 * (deg ** 4) * size ** 4
                bad = None
                for i in range(2):
                    for j in range(2):
                        if abs(Fr(float(lhs[i, j])) - want_lhs[i][j]) > tol_rel * abs_lhs[i][j] + tol_abs:
                            bad = "DG^T DG[%d,%d] = %r, exact %r" % (i, j, float(lhs[i, j]), float(want_lhs[i][j]))
                    if abs(Fr(float(rhs[i, 0])) - want_rhs[i]) > tol_rel * abs_rhs[i] + tol_abs:
                        bad = "DG^T G[%d] = %r, exact %r" % (i, float(rhs[i, 0]), float(want_rhs[i]))
                if bad:
                    res.failure("newton-double-system-wrong", "double-root Gauss-Newton system of full_newton_nonzero (degrees %d, %d): %s" %
                                (len(nodes[0]) - 1, len(n2[0]) - 1, bad), rc)
            elif kind.startswith("newton-intersect"):
                n2 = kw["nodes2"]
                arr2 = C.farr(n2)
                s, t = kw["s"], kw["t"]
                f = [X.bern(n2[r], t) - X.bern(nodes[r], s) for r in range(2)]
                a, b = d1(nodes[0], s), -d1(n2[0], t)
                c, d = d1(nodes[1], s), -d1(n2[1], t)
                det = a * d - b * c
                if kind == "newton-intersect-singular":
                    try:
                        IH.newton_refine(float(s), arr, float(t), arr2)
                        res.failure("newton-singular-not-raised", "newton_refine with a singular Jacobian returned normally", rc)
                    except ValueError:
                        pass
                    continue
                singular_scale = (abs(a) + abs(c)) * (abs(b) + abs(d))
                try:
                    gs, gt = IH.newton_refine(float(s), arr, float(t), arr2)
                except ValueError:
                    # documented: raised when the Jacobian is singular; legitimate iff det J = 0 (up to rounding)
                    if f[0] == 0 and f[1] == 0:
                        res.failure("newton-noop-raised", "F(s,t)=0 exactly but newton_refine raised", rc)
                    elif abs(det) > 2 ** 10 * U * singular_scale:
                        res.failure("newton-singular-raised-wrongly", "newton_refine raised ValueError although det J = %s is far from 0" % float(det), rc)
                    else:
                        res.skip("singular Jacobian (documented ValueError)")
                    continue
                if kind == "newton-intersect-noop":
                    if (gs, gt) != (float(s), float(t)):
                        res.failure("newton-noop-moved", "F(s,t)=0 exactly but newton_refine moved the point", rc)
                    continue
                if det == 0:
                    res.skip("singular")
                    continue
                ds = (f[0] * d - b * f[1]) / det
                dt = (a * f[1] - c * f[0]) / det
                # residual of the linear system at the returned step, relative to its conditioning
                rs, rt = Fr(float(gs)) - s, Fr(float(gt)) - t
                fabs = [X.bern_abs(n2[r], t) + X.bern_abs(nodes[r], s) for r in range(2)]
                jabs = [[d1_abs(nodes[0], s), d1_abs(n2[0], t)], [d1_abs(nodes[1], s), d1_abs(n2[1], t)]]
                deg = max(len(nodes[0]), len(n2[0]))
                r0 = abs(a * rs + b * rt - f[0])
                r1 = abs(c * rs + d * rt - f[1])
                allow = 8 * (3 * deg + 12) * U
                lim0 = allow * (fabs[0] + jabs[0][0] * abs(rs) + jabs[0][1] * abs(rt)) + 4 * U * (abs(a) * abs(s) + abs(b) * abs(t))
                lim1 = allow * (fabs[1] + jabs[1][0] * abs(rs) + jabs[1][1] * abs(rt)) + 4 * U * (abs(c) * abs(s) + abs(d) * abs(t))
                # backward-error test amplified by the (exact) growth factor of Gaussian elimination with the code's pivoting
                growth = 1 + max(abs(a), abs(b), abs(c), abs(d)) ** 2 / abs(det)
                if r0 > lim0 * growth or r1 > lim1 * growth:
                    res.failure("newton-intersect-wrong", "newton_refine (curve-curve): step (%.6g, %.6g) vs exact (%.6g, %.6g); linear residual %.3e/%.3e beyond allowance" %
                                (float(rs), float(rt), float(ds), float(dt), float(r0), float(r1)), rc)
            elif kind == "jacobian-both":
                d = kw["d"]
                out = np.asarray(TH.jacobian_both(arr, d, dim))
                nn1 = G.tri_nodes_count(d - 1)
                if out.shape != (2 * dim, nn1):
                    res.failure("shape", "jacobian_both shape %r" % (out.shape,), rc)
                    continue
                stm, modelm = replies[mi]
                for r in range(dim):
                    for which, off in (("s", 0), ("t", dim)):
                        spec = X.tri_jacobian_s(nodes[r], d) if which == "s" else X.tri_jacobian_t(nodes[r], d)
                        if stm != "ok" or modelm[off + r] != spec:
                            res.mismatch("model-vs-spec:jacobian_both", rc, str(modelm[off + r])[:200] if stm == "ok" else stm, str(spec)[:200])
                        for cidx in range(nn1):
                            got = Fr(float(out[off + r, cidx]))
                            if got != spec[cidx] and abs(got - spec[cidx]) > 4 * U * d * 2 * max(abs(x) for x in nodes[r]):
                                res.failure("jacobian-net-wrong", "jacobian_both degree %d: d/d%s node %d is %s, exact %s" % (d, which, cidx, got, spec[cidx]), rc)
            elif kind == "jacobian-det":
                d = kw["d"]
                pts = kw["pts"]
                st_vals = np.asfortranarray([[float(a), float(b)] for a, b in pts])
                out = np.asarray(TH.jacobian_det(arr, d, st_vals))
                for k, (s, t) in enumerate(pts):
                    xs, xt = tri_partial(nodes[0], d, s, t, "s"), tri_partial(nodes[0], d, s, t, "t")
                    ys, yt = tri_partial(nodes[1], d, s, t, "s"), tri_partial(nodes[1], d, s, t, "t")
                    spec = xs * yt - xt * ys
                    stm, modelm = replies[mi[k]]
                    if stm != "ok" or modelm != spec:
                        res.mismatch("model-vs-spec:jacobian_det", rc, str(modelm), str(spec))
                    got = Fr(float(out[k]))
                    sc = (tri_partial_abs(nodes[0], d, s, t, "s") * tri_partial_abs(nodes[1], d, s, t, "t")
                          + tri_partial_abs(nodes[0], d, s, t, "t") * tri_partial_abs(nodes[1], d, s, t, "s")) if d > 1 else abs(xs * yt) + abs(xt * ys)
                    if got != spec and abs(got - spec) > 8 * (3 * d + 6) * U * sc:
                        res.failure("jacobian-det-wrong", "jacobian_det degree %d at (%s,%s): %s vs exact %s" % (d, s, t, got, spec), rc)
            elif kind == "newton-triangle":
                d = kw["d"]
                s, t, x, y = kw["s"], kw["t"], kw["x"], kw["y"]
                gs, gt = TI.newton_refine(arr, d, float(x), float(y), float(s), float(t))
                l1 = 1 - s - t
                bx, by = X.tri_eval(nodes[0], d, l1, s, t), X.tri_eval(nodes[1], d, l1, s, t)
                xs, xt = tri_partial(nodes[0], d, s, t, "s"), tri_partial(nodes[0], d, s, t, "t")
                ys, yt = tri_partial(nodes[1], d, s, t, "s"), tri_partial(nodes[1], d, s, t, "t")
                det = xs * yt - xt * ys
                if det == 0:
                    res.skip("singular")
                    continue
                e, f = x - bx, y - by
                ds, dt = (yt * e - xt * f) / det, (xs * f - ys * e) / det
                stm, modelm = replies[mi]
                if stm != "ok" or modelm != [s + ds, t + dt]:
                    res.mismatch("model-vs-spec:newton_refine_triangle", rc, str(modelm), str([s + ds, t + dt]))
                rs, rt = Fr(float(gs)) - s, Fr(float(gt)) - t
                scale = (abs(ds) + abs(dt)) + (abs(s) + abs(t)) * Fr(1, 2 ** 20)
                cond = (abs(xs) + abs(xt) + abs(ys) + abs(yt)) ** 2 / abs(det)
                tol = 64 * (3 * d + 12) * U * cond * (X.tri_eval_abs(nodes[0], d, abs(l1), abs(s), abs(t)) + X.tri_eval_abs(nodes[1], d, abs(l1), abs(s), abs(t)) + abs(x) + abs(y)) / (abs(xs) + abs(xt) + abs(ys) + abs(yt)) + 8 * U * (abs(s) + abs(t))
                if abs(rs - ds) > tol or abs(rt - dt) > tol:
                    res.failure("newton-triangle-wrong", "newton_refine (triangle) degree %d: step (%.6g,%.6g) vs exact Cramer (%.6g,%.6g), tol %.3e" %
                                (d, float(rs), float(rt), float(ds), float(dt), float(tol)), rc)
        except Exception as exc:  # noqa
            res.failure("raised:%s:%s" % (kind, type(exc).__name__), "%s raised %r" % (kind, exc), rc)
    res.emit()
    if rep:
        bad = bool(res.failures)
        print("replay: " + ("property fails on this input: " + res.failures[0]["what"] if bad else "property holds on this input"))
        sys.exit(1 if bad else 0)


def valid_triangle(rnd, d):
    """a mildly perturbed affine lattice: a valid planar triangle of degree d (floats)"""
    out = [[], []]
    for k in range(d + 1):
        for j in range(d + 1 - k):
            out[0].append(j / d + rnd.uniform(-0.04, 0.04) / d)
            out[1].append(k / d + rnd.uniform(-0.04, 0.04) / d)
    return out


main()
