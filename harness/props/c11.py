"""C11 — tangents, curvature and Jacobians are the true derivatives: correspondence + oracle.

impl  : evaluate_hodograph, get_curvature, newton_refine (curve), newton_refine (curve-curve),
        jacobian_both, jacobian_det, newton_refine (triangle)  -- through the shims
model : driver `hodograph`, `curvature_parts`, `newton_refine_curve` (curve part)
spec  : exact derivatives of the polynomial map in the power basis (independent of forward differences)

history independence (kinds `*-after`): the property holds for EVERY call, whatever was called before.  A Newton step /
curvature is a function of its arguments only, so the ordinary judged cases are run again right after calls at DEGENERATE
BUT VALID inputs - inputs at which the property does not determine the answer (B'(s) = 0: 0/0; singular Jacobian;
zero tangent) or makes it a no-op (exact hit) - issued through the low-level routine and through the public callers that
end in it (locate_point, Curve.locate).  The degenerate calls themselves are not judged; the judged call that follows
is, against the same exact Newton step / curvature as everywhere else.  The replay case carries the earlier calls.
"""
import os
import sys
import json
import math
import subprocess
import warnings
import numpy as np
from fractions import Fraction as Fr
import common as C
import exact as X
import gen as G


def d1(row, s):
    return X.poly_eval(X.poly_deriv(X.bern_to_power(row)), s)


def d2(row, s):
    return X.poly_eval(X.poly_deriv(X.poly_deriv(X.bern_to_power(row))), s)


def d1_abs(row, s):
    n = len(row) - 1
    if n == 0:
        return Fr(0)
    return n * X.bern_abs([row[j + 1] - row[j] for j in range(n)], s) + 0


def power_to_bern(p, n):
    """Bernstein coefficients (degree n) of the power-basis polynomial p (ascending, len(p) <= n + 1)"""
    return [sum(Fr(math.comb(j, k), math.comb(n, k)) * p[k] for k in range(min(j, len(p) - 1) + 1)) for j in range(n + 1)]


def critical_net(rnd, dim, n, sstar, bound=3):
    """integer control net of degree n >= 2 of a curve with B'(sstar) = 0 EXACTLY (a cusp for dim >= 2, a stationary
    point for dim = 1): every coordinate is c + (q s - a)^2 Q(s) with sstar = a/q, Q a random integer polynomial of degree
    n - 2 - that is the general form of a polynomial map whose derivative vanishes at sstar -, written in the Bernstein
    basis and cleared of the denominators C(n, k)"""
    a, q = sstar.numerator, sstar.denominator
    sq = [Fr(a * a), Fr(-2 * a * q), Fr(q * q)]
    lc = 1
    for k in range(n + 1):
        lc = lc * math.comb(n, k) // math.gcd(lc, math.comb(n, k))
    rows = []
    for _ in range(dim):
        while True:
            qq = [Fr(rnd.randint(-bound, bound)) for _ in range(n - 1)]
            if qq[-1] != 0:
                break
        pw = X.poly_mul(sq, qq)
        pw[0] += rnd.randint(-4, 4)
        row = [lc * v for v in power_to_bern(pw, n)]
        assert all(v.denominator == 1 for v in row) and d1(row, sstar) == 0
        rows.append(row)
    return rows


def unjson(v):
    if isinstance(v, list):
        return [unjson(x) for x in v]
    if isinstance(v, str):
        return Fr(v)
    return v


def call_from_json(c):
    return {k: (v if k in ("via", "why") else unjson(v)) for k, v in c.items()}


def call_to_json(c):
    return {k: (v if k in ("via", "why") else C.jfr(v)) for k, v in c.items()}


def describe_call(c):
    def sv(x):
        return str(x) if x.denominator <= 2 ** 20 else repr(float(x))

    def net(rows):
        return "[%s]" % ", ".join("[%s]" % ", ".join(sv(x) for x in r) for r in rows)
    n = len(c["nodes"][0]) - 1
    why = c.get("why", "")
    if c["via"] in ("newton-curve", "locate-point", "Curve.locate"):
        where = ("s = %s" % c["s"]) if "s" in c else ""
        return "%s on the degree-%d curve %s for the point %s %s (%s)" % (
            {"newton-curve": "newton_refine (curve)", "locate-point": "locate_point"}.get(c["via"], c["via"]), n, net(c["nodes"]), net([c["point"]])[1:-1],
            where, why)
    if c["via"] == "newton-intersect":
        return "newton_refine (curve-curve) on %s x %s at (%s, %s) (%s)" % (net(c["nodes"]), net(c["nodes2"]), c["s"], c["t"], why)
    if c["via"] == "newton-triangle":
        return "newton_refine (triangle) degree %d on %s for (%s, %s) at (%s, %s) (%s)" % (c["d"], net(c["nodes"]), c["x"], c["y"], c["s"], c["t"], why)
    return "get_curvature with the tangent %s on %s at s = %s (%s)" % (net([c["tangent"]])[1:-1], net(c["nodes"]), c["s"], why)


def tri_partial(row, d, s, t, which):
    net = X.tri_jacobian_s(row, d) if which == "s" else X.tri_jacobian_t(row, d)
    return X.tri_eval(net, d - 1, 1 - s - t, s, t)


def tri_partial_abs(row, d, s, t, which):
    net = X.tri_jacobian_s(row, d) if which == "s" else X.tri_jacobian_t(row, d)
    return X.tri_eval_abs(net, d - 1, 1 - s - t, s, t)


def main():
    bezier = C.import_bezier()
    from bezier import _curve_helpers as CH
    from bezier import _intersection_helpers as IH
    from bezier.hazmat import intersection_helpers as IHZ
    from bezier import _triangle_helpers as TH
    from bezier import _triangle_intersection as TI
    rnd, seed = C.rng()
    thorough = C.tier() == "thorough"
    cfg = C.config_name()
    res = C.Result("C11")
    rep = C.replay_case()
    thr = C.generated("py_curve_vs_threshold" if cfg == "pure" else "f90_curve_vs_threshold", 55)
    U = C.U

    cases = []

    def add(kind, **kw):
        cases.append((kind, kw))

    GRID = [Fr(0), Fr(1), Fr(1, 2), Fr(1, 4), Fr(3, 4), Fr(1, 8), Fr(-1, 2), Fr(3, 2)]
    if rep:
        kw = dict(rep["kw"])
        for k in ("nodes", "nodes2"):
            if k in kw:
                kw[k] = [[Fr(x) for x in r] for r in kw[k]]
        for k in ("s", "t", "x", "y"):
            if k in kw:
                kw[k] = Fr(kw[k])
        if "point" in kw:
            kw["point"] = [Fr(x) for x in kw["point"]]
        if "prior" in kw:
            kw["prior"] = [call_from_json(c) for c in kw["prior"]]
        add(rep["kind"], **kw)
    else:
        degs = list(range(1, 31))
        for n in degs:
            # linear quantity: operator extraction on the identity net (all unit nets), regime E at dyadic s
            for s in (GRID if n <= 8 else GRID[:5]):
                if n * (s.denominator.bit_length() - 1) <= 40:
                    add("hodograph", nodes=G.unit_nets(n + 1), s=s, regime="E")
            add("hodograph", nodes=G.unit_nets(n + 1), s=G.float_param(rnd), regime="T")
            for dim in (1, 2, 3, 4):
                add("hodograph", nodes=G.float_net(rnd, dim, n + 1, 0), s=G.float_param(rnd, 0.0, 1.0), regime="T")
            # curvature (2-D), newton (2-D / 3-D)
            for _ in range(2 if not thorough else 6):
                add("curvature", nodes=G.smooth_float_net(rnd, 2, n + 1), s=G.float_param(rnd, 0.0, 1.0))
                add("curvature", nodes=G.int_net(rnd, 2, n + 1, 16), s=rnd.choice(GRID[:6]))
                dim = rnd.choice([2, 3])
                nodes = G.smooth_float_net(rnd, dim, n + 1)
                s0 = G.float_param(rnd, 0.1, 0.9)
                pt = [Fr(float(x)) + Fr(rnd.uniform(-1e-3, 1e-3)) for x in X.eval_curve(nodes, s0)]
                add("newton-curve", nodes=nodes, point=pt, s=Fr(float(s0)) + Fr(rnd.uniform(-1e-3, 1e-3)))
        # curve-curve Newton step
        for n1 in range(1, 7):
            for n2 in range(1, 7):
                for _ in range(1 if not thorough else 4):
                    a = G.smooth_float_net(rnd, 2, n1 + 1)
                    b = [r for r in reversed(G.smooth_float_net(rnd, 2, n2 + 1))]
                    add("newton-intersect", nodes=a, nodes2=b, s=G.float_param(rnd, 0.0, 1.0), t=G.float_param(rnd, 0.0, 1.0))
                    ai = G.int_net(rnd, 2, n1 + 1, 8)
                    bi = G.int_net(rnd, 2, n2 + 1, 8)
                    add("newton-intersect", nodes=ai, nodes2=bi, s=rnd.choice(GRID[:6]), t=rnd.choice(GRID[:6]))
        # the double-root system G = (F, B1' x B2') that full_newton_nonzero falls back to on a tangency: its Gauss-Newton
        # normal equations are observed on the first double-root evaluation of the running library code (mixed degrees,
        # the second derivative nets are built inside full_newton_nonzero)
        for n1 in range(1, 6):
            for n2 in range(1, 6):
                if n1 == 1 and n2 == 1:
                    continue
                ai = G.int_net(rnd, 2, n1 + 1, 8)
                bi = G.int_net(rnd, 2, n2 + 1, 8)
                add("newton-double-system", nodes=ai, nodes2=bi, s=rnd.choice(GRID[2:6]), t=rnd.choice(GRID[2:6]))
                add("newton-double-system", nodes=G.smooth_float_net(rnd, 2, n1 + 1), nodes2=G.smooth_float_net(rnd, 2, n2 + 1),
                    s=G.float_param(rnd, 0.1, 0.9), t=G.float_param(rnd, 0.1, 0.9))
        # singular Jacobian must raise, exact hit must be a no-op
        add("newton-intersect-singular", nodes=[[Fr(0), Fr(1)], [Fr(0), Fr(1)]], nodes2=[[Fr(0), Fr(2)], [Fr(1), Fr(3)]], s=Fr(1, 2), t=Fr(1, 2))
        add("newton-intersect-noop", nodes=[[Fr(0), Fr(2)], [Fr(0), Fr(2)]], nodes2=[[Fr(0), Fr(2)], [Fr(2), Fr(0)]], s=Fr(1, 2), t=Fr(1, 2))
        # triangles
        for d in range(1, 11):
            nn = G.tri_nodes_count(d)
            add("jacobian-both", nodes=G.unit_nets(nn), d=d)
            for dim in (1, 2, 3, 4):
                add("jacobian-both", nodes=G.float_net(rnd, dim, nn, 0), d=d)
            # bilinear: polarisation on pairs of unit nets (x-net e_i, y-net e_j) at dyadic points
            pairs = [(i, j) for i in range(nn) for j in range(nn)]
            if not thorough and len(pairs) > 60:
                pairs = rnd.sample(pairs, 60)
            pts = [(Fr(1, 4), Fr(1, 4)), (Fr(1, 2), Fr(1, 4)), (Fr(0), Fr(0)), (Fr(1, 8), Fr(5, 8)), (Fr(1), Fr(0))]
            for i, j in pairs:
                x = [Fr(int(k == i)) for k in range(nn)]
                y = [Fr(int(k == j)) for k in range(nn)]
                add("jacobian-det", nodes=[x, y], d=d, pts=pts)
            for _ in range(2):
                add("jacobian-det", nodes=G.float_net(rnd, 2, nn, 0), d=d,
                    pts=[(G.float_param(rnd, 0.0, 0.5), G.float_param(rnd, 0.0, 0.5)) for _ in range(3)])
                nodes = [[Fr(float(v)) for v in r] for r in valid_triangle(rnd, d)]
                s0, t0 = G.float_param(rnd, 0.1, 0.4), G.float_param(rnd, 0.1, 0.4)
                px = X.tri_eval(nodes[0], d, 1 - s0 - t0, s0, t0)
                py = X.tri_eval(nodes[1], d, 1 - s0 - t0, s0, t0)
                add("newton-triangle", nodes=nodes, d=d, x=Fr(float(px)), y=Fr(float(py)),
                    s=Fr(float(s0)) + Fr(rnd.uniform(-1e-3, 1e-3)), t=Fr(float(t0)) + Fr(rnd.uniform(-1e-3, 1e-3)))

    if not rep:
        # one residual coordinate exactly zero, the other not: the step must still be the full Newton step
        for d in range(1, 5):
            for _ in range(3):
                nodes = valid_triangle(rnd, d)
                k = 0
                for kk in range(d + 1):
                    for j in range(d + 1 - kk):
                        nodes[0][k] = 4.0 * j / d if d in (1, 2, 4) else 3.0 * j / d        # x affine in s, exactly representable
                        k += 1
                nodes = [[Fr(float(v)) for v in r] for r in nodes]
                s0, t0 = Fr(rnd.choice([1, 2, 3]), 8), Fr(float(rnd.uniform(0.1, 0.4)))
                px = X.tri_eval(nodes[0], d, 1 - s0 - t0, s0, t0)
                py = X.tri_eval(nodes[1], d, 1 - s0 - t0, s0, t0)
                if C.is_exact_float(px):
                    add("newton-triangle", nodes=nodes, d=d, x=px, y=Fr(float(py)) + Fr(1, 8), s=s0, t=t0)
        for n1 in (1, 2, 3):
            a = [[Fr(j) for j in range(n1 + 1)], [Fr(rnd.randint(-3, 3)) for _ in range(n1 + 1)]]      # x(s) = n1*s exactly
            b = [[Fr(1, 2) * n1, Fr(1, 2) * n1], [Fr(-4), Fr(4)]]                                          # vertical line x = n1/2
            add("newton-intersect", nodes=a, nodes2=b, s=Fr(1, 2), t=Fr(1, 4))                         # F_x = 0 exactly, F_y != 0

    if not rep:
        # near a critical point B'(s) is small but not zero: the exact Newton step is defined and is what must come back
        for n in (range(2, 7) if not thorough else range(2, 11)):
            for k in ((3, 6, 10) if not thorough else range(2, 13)):
                dim = rnd.choice([1, 2, 3])
                sstar = Fr(1, 2)
                nodes = critical_net(rnd, dim, n, sstar, bound=2)
                s = sstar + rnd.choice([-1, 1]) * Fr(1, 2 ** k)
                pt = [X.bern(r, s) + Fr(rnd.randint(-2, 2), 2 ** (2 * k)) for r in nodes]
                if all(d1(r, s) == 0 for r in nodes):
                    continue
                add("newton-curve", nodes=nodes, point=pt, s=s)

        # ---- history independence: judged ordinary calls right after unjudged calls at degenerate-but-valid inputs.
        # These cases come LAST, so that nothing they might leave behind in the process reaches the cases above, and each
        # carries the degenerate call(s) that precede it (`prior`), so that a replay issues the same sequence.
        reps = 2 if not thorough else 6
        ZERO = Fr(0)

        def regular_curve_case(prior, integer):
            """an ordinary Newton step B(s) = p: any dimension 1..4, any degree (small ones more often), integer net at a
            dyadic parameter or a smooth binary64 net at a binary64 parameter; B'(s) != 0 and a moderate step"""
            while True:
                dim = rnd.choice([1, 2, 2, 3, 4])
                n = rnd.choice([1, 2, 3, 3, 4, 5, 6, 8, rnd.randint(9, 30)])
                if integer:
                    n = min(n, 8)
                    nodes = G.int_net(rnd, dim, n + 1, 8)
                    s0, s = Fr(rnd.randint(0, 8), 8), Fr(rnd.randint(0, 16), 16)
                    pt = [X.bern(r, s0) + Fr(rnd.randint(-2, 2), 4) for r in nodes]
                else:
                    nodes = G.smooth_float_net(rnd, dim, n + 1)
                    s0 = G.float_param(rnd, 0.1, 0.9)
                    pt = [Fr(float(x)) + Fr(rnd.uniform(-1e-3, 1e-3)) for x in X.eval_curve(nodes, s0)]
                    s = Fr(float(s0)) + Fr(rnd.uniform(-1e-3, 1e-3))
                den = sum(d1(r, s) ** 2 for r in nodes)
                num = sum((pt[r] - X.bern(nodes[r], s)) * d1(nodes[r], s) for r in range(dim))
                # a judged case must be an honest Newton step that MOVES: B'(s) well away from 0 and a step of visible size
                if den * 64 >= sum(d1_abs(r, s) ** 2 for r in nodes) and den != 0 and Fr(1, 2 ** 20) <= abs(num / den) <= 4:
                    add("newton-curve-after", nodes=nodes, point=pt, s=s, prior=prior)
                    return

        def offs(dim):
            while True:
                o = [Fr(rnd.randint(-3, 3)) for _ in range(dim)]
                if any(o):
                    return o

        # (1) curve / point.  B'(s) = 0 exactly: the Newton step is 0/0 (query point = B(s)) or x/0 - not judged.
        curve_triggers = []
        for n in (range(2, 7) if not thorough else range(2, 11)):
            for dim in (1, 2, 3, 4):
                sstar = rnd.choice([Fr(1, 2), Fr(1, 2), Fr(1, 4), Fr(3, 4)] if n <= 6 else [Fr(1, 2)])
                nodes = critical_net(rnd, dim, n, sstar)
                on = [X.bern(r, sstar) for r in nodes]
                pt = on if rnd.random() < 0.5 else [a + b for a, b in zip(on, offs(dim))]
                curve_triggers.append([{"via": "newton-curve", "nodes": nodes, "point": pt, "s": sstar,
                                        "why": "B'(s) = 0 exactly: cusp / stationary point"}])
        # the cubic of the library's documentation, also reached through the public callers that finish with a Newton step
        # (the bisection of locate_point brackets the cusp parameter 1/2 symmetrically, its mean is 1/2 exactly)
        doc = [[Fr(6), Fr(-2), Fr(-2), Fr(6)], [Fr(-3), Fr(3), Fr(-3), Fr(3)]]
        curve_triggers.append([{"via": "newton-curve", "nodes": doc, "point": [ZERO, ZERO], "s": Fr(1, 2), "why": "documented cusp"}])
        for via in ("locate-point", "Curve.locate"):
            curve_triggers.append([{"via": via, "nodes": doc, "point": [ZERO, ZERO], "why": "the cusp point of the documented cubic"}])
            nodes = critical_net(rnd, rnd.choice([2, 3]), rnd.choice([3, 4, 5]), Fr(1, 2))
            curve_triggers.append([{"via": via, "nodes": nodes, "point": [X.bern(r, Fr(1, 2)) for r in nodes], "why": "the cusp point B(1/2)"}])
        # a repeated end control point, queried at that end; unit nets e_i (i >= 2) at s = 0; a curve that is a single point
        for n in ((2, 3, 5, 8) if not thorough else range(2, 13)):
            for end in (0, 1):
                dim = rnd.choice([1, 2, 3, 4])
                nodes = G.int_net(rnd, dim, n + 1, 8)
                for r in nodes:
                    if end == 0:
                        r[1] = r[0]
                    else:
                        r[-2] = r[-1]
                on = [r[0] if end == 0 else r[-1] for r in nodes]
                pt = on if rnd.random() < 0.5 else [a + b for a, b in zip(on, offs(dim))]
                curve_triggers.append([{"via": "newton-curve", "nodes": nodes, "point": pt, "s": Fr(end), "why": "repeated end control point"}])
        for n in (2, 3, 4):
            i = rnd.randint(2, n)
            curve_triggers.append([{"via": "newton-curve", "nodes": [[Fr(int(j == i)) for j in range(n + 1)]], "point": [Fr(rnd.randint(0, 1))],
                                    "s": ZERO, "why": "unit net e_%d at s = 0" % i}])
        for n in (1, 2, 4):
            dim = rnd.choice([1, 2, 3])
            c0 = [Fr(rnd.randint(-4, 4)) for _ in range(dim)]
            curve_triggers.append([{"via": "newton-curve", "nodes": [[c] * (n + 1) for c in c0], "point": [c + 1 for c in c0],
                                    "s": Fr(rnd.randint(0, 4), 4), "why": "all control points equal: B' = 0 everywhere"}])
        # |B'(s)|^2 underflows to zero although B'(s) != 0 (a tiny but valid net)
        tiny = [[Fr(v) * Fr(1, 2 ** 560) for v in r] for r in G.int_net(rnd, 2, 4, 8)]
        curve_triggers.append([{"via": "newton-curve", "nodes": tiny, "point": [ZERO, ZERO], "s": Fr(1, 4), "why": "|B'(s)|^2 underflows"}])
        for trig in curve_triggers:
            for i in range(reps):
                regular_curve_case(trig, i % 2 == 0)

        # (2) curve / curve.  Singular Jacobian (documented ValueError) and exact hits (no-op), then ordinary steps.
        def regular_intersect_case(prior):
            n1, n2 = rnd.randint(1, 5), rnd.randint(1, 5)
            if rnd.random() < 0.5:
                add("newton-intersect-after", nodes=G.int_net(rnd, 2, n1 + 1, 8), nodes2=G.int_net(rnd, 2, n2 + 1, 8),
                    s=rnd.choice(GRID[:6]), t=rnd.choice(GRID[:6]), prior=prior)
            else:
                add("newton-intersect-after", nodes=G.smooth_float_net(rnd, 2, n1 + 1), nodes2=[r for r in reversed(G.smooth_float_net(rnd, 2, n2 + 1))],
                    s=G.float_param(rnd, 0.0, 1.0), t=G.float_param(rnd, 0.0, 1.0), prior=prior)

        inter_triggers = []
        for n in (1, 2, 3, 4, 5):
            a = G.int_net(rnd, 2, n + 1, 8)
            s = rnd.choice(GRID[2:6])
            here = [X.bern(r, s) for r in a]
            tan = [d1(r, s) for r in a]
            if not any(tan):
                continue
            o = offs(2)
            w = offs(2)
            # a line parallel to the tangent at B1(s), off the curve: det J = 0, F != 0
            inter_triggers.append([{"via": "newton-intersect", "nodes": a, "nodes2": [[here[r] + o[r], here[r] + o[r] + tan[r]] for r in range(2)],
                                    "s": s, "t": Fr(1, 4), "why": "parallel tangents: singular Jacobian"}])
            # a line that starts at B1(s): F = 0 exactly
            inter_triggers.append([{"via": "newton-intersect", "nodes": a, "nodes2": [[here[r], here[r] + w[r]] for r in range(2)],
                                    "s": s, "t": ZERO, "why": "exact hit F(s,t) = 0"}])
            # both at once
            inter_triggers.append([{"via": "newton-intersect", "nodes": a, "nodes2": [[here[r], here[r] + tan[r]] for r in range(2)],
                                    "s": s, "t": ZERO, "why": "exact hit with singular Jacobian"}])
        for n in (3, 4):
            a = critical_net(rnd, 2, n, Fr(1, 2))
            inter_triggers.append([{"via": "newton-intersect", "nodes": a, "nodes2": G.int_net(rnd, 2, 2, 8), "s": Fr(1, 2), "t": Fr(1, 4),
                                    "why": "B1'(s) = 0: singular Jacobian"}])
        for trig in inter_triggers:
            for _ in range(reps):
                regular_intersect_case(trig)

        # (3) triangle / point.  det J = 0 (x/0, not judged) and exact hits (no-op), then ordinary steps.
        def regular_triangle_case(prior):
            d = rnd.randint(1, 6)
            nodes = [[Fr(float(v)) for v in r] for r in valid_triangle(rnd, d)]
            s0, t0 = G.float_param(rnd, 0.1, 0.4), G.float_param(rnd, 0.1, 0.4)
            px = X.tri_eval(nodes[0], d, 1 - s0 - t0, s0, t0)
            py = X.tri_eval(nodes[1], d, 1 - s0 - t0, s0, t0)
            add("newton-triangle-after", nodes=nodes, d=d, x=Fr(float(px)), y=Fr(float(py)),
                s=Fr(float(s0)) + Fr(rnd.uniform(-1e-3, 1e-3)), t=Fr(float(t0)) + Fr(rnd.uniform(-1e-3, 1e-3)), prior=prior)

        tri_triggers = []
        for d in (1, 2, 3, 4):
            nn = G.tri_nodes_count(d)
            lat = [[], []]
            for kk in range(d + 1):
                for j in range(d + 1 - kk):
                    lat[0].append(Fr(j))
                    lat[1].append(Fr(kk))
            xr = [Fr(rnd.randint(-4, 4)) for _ in range(nn)]
            tri_triggers.append([{"via": "newton-triangle", "nodes": [xr, [2 * v + 1 for v in xr]], "d": d, "x": Fr(1), "y": Fr(-1),
                                  "s": Fr(1, 4), "t": Fr(1, 4), "why": "image on a line: det J = 0 everywhere"}])
            if d >= 2:
                rep_corner = [list(lat[0]), list(lat[1])]
                rep_corner[0][1], rep_corner[1][1] = rep_corner[0][0], rep_corner[1][0]
                tri_triggers.append([{"via": "newton-triangle", "nodes": rep_corner, "d": d, "x": Fr(1), "y": Fr(1),
                                      "s": ZERO, "t": ZERO, "why": "repeated corner control point: B_s(0,0) = 0"}])
            s, t = Fr(rnd.randint(0, 2), 4), Fr(rnd.randint(0, 2), 4)
            tri_triggers.append([{"via": "newton-triangle", "nodes": lat, "d": d, "x": X.tri_eval(lat[0], d, 1 - s - t, s, t),
                                  "y": X.tri_eval(lat[1], d, 1 - s - t, s, t), "s": s, "t": t, "why": "exact hit"}])
        for trig in tri_triggers:
            for _ in range(reps):
                regular_triangle_case(trig)

        # (4) curvature with a zero tangent vector (0/0, not judged), then ordinary curvatures
        for n in (2, 3, 4, 5):
            nodes = critical_net(rnd, 2, n, Fr(1, 2))
            trig = [{"via": "curvature", "nodes": nodes, "tangent": [ZERO, ZERO], "s": Fr(1, 2), "why": "zero tangent at a cusp"}]
            for _ in range(reps):
                m = rnd.randint(1, 8)
                add("curvature-after", nodes=G.int_net(rnd, 2, m + 1, 16), s=rnd.choice(GRID[:6]), prior=trig)
                add("curvature-after", nodes=G.smooth_float_net(rnd, 2, m + 1), s=G.float_param(rnd, 0.0, 1.0), prior=trig)

    # ---- model queries for the curve part
    drv = C.Driver()
    midx = []
    for kind, kw in cases:
        if kind.endswith("-after"):
            kind = kind[:-len("-after")]
        if kind == "hodograph":
            midx.append(drv.ask("hodograph", thr, kw["nodes"], kw["s"]))
        elif kind == "newton-curve":
            midx.append(drv.ask("newton_refine_curve", thr, kw["nodes"], kw["point"], kw["s"]))
        elif kind == "jacobian-both":
            midx.append(drv.ask("jacobian_both", kw["d"], kw["nodes"]))
        elif kind == "jacobian-det":
            midx.append([drv.ask("jacobian_det", thr, kw["d"], kw["nodes"], a, b) for a, b in kw["pts"]])
        elif kind == "newton-triangle":
            midx.append(drv.ask("newton_refine_triangle", thr, kw["d"], kw["nodes"], kw["x"], kw["y"], kw["s"], kw["t"]))
        else:
            midx.append(None)
    replies = drv.run() if drv.lines else []      # (a replayed case of a kind without a model query asks nothing)

    def col(vals):
        return np.asfortranarray([[float(x)] for x in vals])

    def run_prior(prior):
        """calls at degenerate-but-valid inputs, made for what they may leave behind: whatever they return or raise is
        accepted (the property does not determine it)"""
        for c in prior:
            issued.append(c)
            try:
                with np.errstate(all="ignore"), warnings.catch_warnings():
                    warnings.simplefilter("ignore")
                    a = C.farr(c["nodes"])
                    via = c["via"]
                    if via == "newton-curve":
                        CH.newton_refine(a, col(c["point"]), float(c["s"]))
                    elif via == "locate-point":
                        CH.locate_point(a, col(c["point"]))
                    elif via == "Curve.locate":
                        bezier.Curve(a, a.shape[1] - 1).locate(col(c["point"]))
                    elif via == "newton-intersect":
                        IH.newton_refine(float(c["s"]), a, float(c["t"]), C.farr(c["nodes2"]))
                    elif via == "newton-triangle":
                        TI.newton_refine(a, c["d"], float(c["x"]), float(c["y"]), float(c["s"]), float(c["t"]))
                    elif via == "curvature":
                        CH.get_curvature(a, col(c["tangent"]), float(c["s"]))
                    else:
                        raise KeyError(via)
            except KeyError:
                raise
            except Exception:  # noqa
                pass

    def reproduces(rc_):
        """does this replay case fail in a FRESH process?"""
        env = dict(os.environ, VERIF_REPLAY=json.dumps(rc_))
        env.pop("VERIF_RESULT", None)
        try:
            r = subprocess.run([sys.executable, os.path.abspath(__file__)], env=env, stdout=subprocess.PIPE, stderr=subprocess.STDOUT,
                               text=True, timeout=300)
        except subprocess.TimeoutExpired:
            return False
        return r.returncode == 1 and "replay: property fails" in r.stdout

    issued = []            # every degenerate call made so far in this process, in order
    confirmed_keys = set()
    n_fail_before = [0]
    pending = []

    def settle_history(kind_, kw_, rc_):
        """a `*-after` case failed: record the SHORTEST sequence of earlier calls that reproduces it in a fresh process -
        the case's own degenerate call, else every degenerate call issued so far"""
        for f in res.failures[n_fail_before[0]:]:
            if f["key"] in confirmed_keys or rep:
                continue
            confirmed_keys.add(f["key"])
            if reproduces(rc_):
                f["what"] += "  [reproduced in a fresh process with exactly this sequence of calls]"
                continue
            full = {"kind": kind_, "kw": dict(rc_["kw"], prior=[call_to_json(c) for c in issued])}
            if reproduces(full):
                f["replay"] = full
                f["what"] += "  [needs the %d earlier degenerate calls of this run, all carried by the replay case]" % len(issued)
            else:
                f["replay"] = full
                f["what"] += "  [NOT reproduced in a fresh process: depends on more of this run's history than the degenerate calls]"

    for (kind, kw), mi in zip(cases, midx):
        nodes = kw["nodes"]
        dim = len(nodes)
        arr = C.farr(nodes)
        jkw = {k: (C.jfr(v) if k not in ("pts", "prior") else [[str(a), str(b)] for a, b in v] if k == "pts" else [call_to_json(c) for c in v])
               for k, v in kw.items()}
        if dim > 4 and "nodes" in jkw:
            jkw["nodes"] = jkw["nodes"][:2]
        rc = {"kind": kind, "kw": jkw}
        # `*-after`: first the degenerate call(s), then the ordinary case, judged as always; failures get their own key
        full_kind, sfx, hist = kind, "", ""
        if pending and len(res.failures) > n_fail_before[0]:
            settle_history(*pending[0])
        del pending[:]
        n_fail_before[0] = len(res.failures)
        if kind.endswith("-after"):
            pending.append((kind, kw, rc))
        if kind.endswith("-after"):
            kind = kind[:-len("-after")]
            sfx = ":after-degenerate-call"
            hist = "; the call was preceded by: " + "; then ".join(describe_call(c) for c in kw["prior"])
            run_prior(kw["prior"])
        keyn = C.jfr(nodes) if dim <= 4 else ("identity", len(nodes[0]))
        res.count((full_kind, keyn, str(kw.get("s")), str(kw.get("t")), str(kw.get("d")), str(jkw.get("prior"))), kind=full_kind,
                  size=len(nodes[0]), dim=min(dim, 5), regime=kw.get("regime", "T"))
        if sfx:
            res.count(("trigger", str(jkw["prior"])), nontrivial=False, degenerate_call=kw["prior"][-1]["via"] + ": " + kw["prior"][-1].get("why", ""))
        res.sample({"kind": full_kind, "num_nodes": len(nodes[0]), "dim": dim, "s": str(kw.get("s"))})
        try:
            if kind == "hodograph":
                s = kw["s"]
                n = len(nodes[0]) - 1
                out = np.asarray(CH.evaluate_hodograph(float(s), arr))
                st, model = replies[mi]
                for r in range(dim):
                    spec = d1(nodes[r], s)
                    if model[r] != spec:
                        res.mismatch("model-vs-spec:hodograph", rc, str(model[r]), str(spec))
                    got = Fr(float(out[r, 0]))
                    scale = d1_abs(nodes[r], s)
                    tol = 2 * (3 * n + 6) * U * scale
                    if kw["regime"] == "E":
                        if got != model[r]:
                            res.mismatch("evaluate_hodograph", rc, str(got), str(model[r]), "E regime")
                            if abs(got - spec) > tol:
                                res.failure("hodograph-wrong", "evaluate_hodograph degree %d at s=%s: %s, exact derivative %s" % (n, s, got, spec), rc)
                    elif abs(got - model[r]) > tol:
                        res.mismatch("evaluate_hodograph", rc, str(got), str(model[r]), "T regime")
                        res.failure("hodograph-wrong", "evaluate_hodograph degree %d at s=%s: |got-exact|=%.3e > %.3e" %
                                    (n, float(s), float(abs(got - spec)), float(tol)), rc)
                # the public method, queried twice on one object: the first tangent is NORMALISED IN PLACE by the caller (ordinary
                # numpy usage) before the second query, and a curve built from the same array is queried at another parameter;
                # each answer must be the derivative at its own parameter (a cached array handed out without a copy, or a cache
                # that ignores the parameter, shows here)
                if dim <= 4 and n >= 1 and kw["regime"] == "T":
                    cobj = bezier.Curve(arr, n)
                    first = cobj.evaluate_hodograph(float(s))
                    try:
                        first *= 0.0
                        first += 7.25
                    except ValueError:
                        pass                                   # a read-only result cannot be scribbled on
                    for s2 in (s, Fr(1, 2) if s != Fr(1, 2) else Fr(1, 4)):
                        again = np.asarray(cobj.evaluate_hodograph(float(s2)))
                        for r in range(dim):
                            spec2 = d1(nodes[r], Fr(float(s2)))
                            if abs(Fr(float(again[r, 0])) - spec2) > 2 * (3 * n + 6) * U * d1_abs(nodes[r], Fr(float(s2))) + 4 * U * abs(spec2):
                                res.failure("hodograph-wrong:second-query", "Curve.evaluate_hodograph degree %d at s=%s after the caller modified the "
                                            "array returned by an earlier query: %r, exact derivative %s" % (n, float(s2), float(again[r, 0]), float(spec2)), rc)
                                break
            elif kind == "curvature":
                s = kw["s"]
                n = len(nodes[0]) - 1
                tx, ty = d1(nodes[0], s), d1(nodes[1], s)
                tangent = np.asfortranarray([[float(tx)], [float(ty)]])
                if float(tx) == 0.0 and float(ty) == 0.0:
                    res.skip("zero tangent")
                    continue
                got = float(CH.get_curvature(arr, tangent, float(s)))
                ftx, fty = Fr(float(tx)), Fr(float(ty))
                cx, cy = d2(nodes[0], s), d2(nodes[1], s)
                num = ftx * cy - fty * cx
                nrm2 = ftx * ftx + fty * fty
                spec = float(num) / (math.sqrt(float(nrm2)) ** 3)
                # condition scale of the numerator
                n2 = n * (n - 1)
                cabs = [n2 * X.bern_abs([nodes[r][j + 2] - 2 * nodes[r][j + 1] + nodes[r][j] for j in range(n - 1)], s) if n >= 2 else Fr(0) for r in range(2)]
                scale = float(abs(ftx) * cabs[1] + abs(fty) * cabs[0]) / (math.sqrt(float(nrm2)) ** 3)
                tol = 4 * (3 * n + 12) * float(U) * scale + 8 * float(U) * abs(spec)
                if n == 1 and got != 0.0:
                    res.failure("curvature-line-nonzero" + sfx, "get_curvature of a line returned %r" % got + hist, rc)
                elif abs(got - spec) > tol:
                    res.failure("curvature-wrong" + sfx, "get_curvature degree %d at s=%s: %r vs (B' x B'')/|B'|^3 = %r (tol %.3e)" % (n, float(s), got, spec, tol) + hist, rc)
            elif kind == "newton-curve":
                s = kw["s"]
                n = len(nodes[0]) - 1
                pt = np.asfortranarray([[float(x)] for x in kw["point"]])
                got = Fr(float(CH.newton_refine(arr, pt, float(s))))
                st, model = replies[mi]
                num = sum((kw["point"][r] - X.bern(nodes[r], s)) * d1(nodes[r], s) for r in range(dim))
                den = sum(d1(nodes[r], s) ** 2 for r in range(dim))
                spec = s + num / den
                if model != spec:
                    res.mismatch("model-vs-spec:newton-curve", rc, str(model), str(spec))
                nabs = sum((abs(kw["point"][r]) + X.bern_abs(nodes[r], s)) * d1_abs(nodes[r], s) for r in range(dim))
                dabs = sum(d1_abs(nodes[r], s) ** 2 for r in range(dim))
                tol = 4 * (3 * n + 12) * U * (abs(s) + nabs / den + abs(num) * dabs / den ** 2)
                if abs(got - model) > tol:
                    res.mismatch("newton_refine(curve)", rc, str(got), str(model), "T regime")
                    short = all(x.denominator <= 64 for r in nodes for x in r) and n <= 8
                    res.failure("newton-curve-wrong" + sfx, "newton_refine (curve) degree %d, dimension %d, nodes %s, point %s, s = %s: returned %r, exact Newton step %s = %r%s" %
                                (n, dim, [[str(x) for x in r] for r in nodes] if short else "(binary64, see the replay case)", [str(x) for x in kw["point"]] if short else "(see the replay case)",
                                 s if short else float(s), float(got), spec if short else "", float(spec), hist), rc)
            elif kind == "newton-double-system":
                n2 = kw["nodes2"]
                arr2 = C.farr(n2)
                s, t = Fr(float(kw["s"])), Fr(float(kw["t"]))
                rec = []

                class _Stop(Exception):
                    pass
                orig_call = IHZ.NewtonDoubleRoot.__call__
                orig_simple = IHZ.NewtonSimpleRoot.__call__

                def spy(self, s_, t_):
                    out = orig_call(self, s_, t_)
                    rec.append((Fr(float(s_)), Fr(float(t_)), out))
                    raise _Stop()

                def simple_never(self, s_, t_):
                    # make the simple-root stage give up at once (a singular system), so that the double-root stage starts
                    # from the given parameters
                    return np.zeros((2, 2), order="F"), np.ones((2, 1), order="F")
                IHZ.NewtonDoubleRoot.__call__ = spy
                IHZ.NewtonSimpleRoot.__call__ = simple_never
                try:
                    IHZ.full_newton_nonzero(float(s), arr, float(t), arr2)
                except _Stop:
                    pass
                except Exception as exc:  # noqa
                    res.failure("newton-double-raised", "full_newton_nonzero raised %s before evaluating the double-root system" % type(exc).__name__, rc)
                finally:
                    IHZ.NewtonDoubleRoot.__call__ = orig_call
                    IHZ.NewtonSimpleRoot.__call__ = orig_simple
                if not rec:
                    res.skip("double-root stage not reached")
                    continue
                s_, t_, (lhs, rhs) = rec[0]
                d1x, d1y = X.hodograph_exact(nodes[0], s_), X.hodograph_exact(nodes[1], s_)
                d2x, d2y = X.hodograph_exact(n2[0], t_), X.hodograph_exact(n2[1], t_)
                dd1x, dd1y = X.second_deriv_exact(nodes[0], s_), X.second_deriv_exact(nodes[1], s_)
                dd2x, dd2y = X.second_deriv_exact(n2[0], t_), X.second_deriv_exact(n2[1], t_)
                g = [X.bern(nodes[0], s_) - X.bern(n2[0], t_), X.bern(nodes[1], s_) - X.bern(n2[1], t_), d1x * d2y - d1y * d2x]
                jac = [[d1x, -d2x], [d1y, -d2y], [dd1x * d2y - dd1y * d2x, d1x * dd2y - d1y * dd2x]]
                if lhs is None:
                    if any(v != 0 for v in g):
                        res.failure("newton-double-system-wrong", "double-root system reported G = 0 although G = %s" % [float(v) for v in g], rc)
                    continue
                want_lhs = [[sum(jac[k][i] * jac[k][j] for k in range(3)) for j in range(2)] for i in range(2)]
                want_rhs = [sum(jac[k][i] * g[k] for k in range(3)) for i in range(2)]
                abs_lhs = [[sum(abs(jac[k][i] * jac[k][j]) for k in range(3)) for j in range(2)] for i in range(2)]
                abs_rhs = [sum(abs(jac[k][i] * g[k]) for k in range(3)) for i in range(2)]
                size = max(max(abs(float(v)) for r in nodes for v in r), max(abs(float(v)) for r in n2 for v in r), 1.0)
                deg = max(len(nodes[0]), len(n2[0]))
                # generous T-regime allowance: cancellation inside the entries of J is covered by the size^4 term
                tol_rel, tol_abs = 2.0 ** -30, 2.0 ** -36 * (deg ** 4) * size ** 4
                bad = None
                for i in range(2):
                    for j in range(2):
                        if abs(Fr(float(lhs[i, j])) - want_lhs[i][j]) > tol_rel * abs_lhs[i][j] + tol_abs:
                            bad = "DG^T DG[%d,%d] = %r, exact %r" % (i, j, float(lhs[i, j]), float(want_lhs[i][j]))
                    if abs(Fr(float(rhs[i, 0])) - want_rhs[i]) > tol_rel * abs_rhs[i] + tol_abs:
                        bad = "DG^T G[%d] = %r, exact %r" % (i, float(rhs[i, 0]), float(want_rhs[i]))
                if bad:
                    res.failure("newton-double-system-wrong", "double-root Gauss-Newton system of full_newton_nonzero (degrees %d, %d): %s" %
                                (len(nodes[0]) - 1, len(n2[0]) - 1, bad), rc)
            elif kind.startswith("newton-intersect"):
                n2 = kw["nodes2"]
                arr2 = C.farr(n2)
                s, t = kw["s"], kw["t"]
                f = [X.bern(n2[r], t) - X.bern(nodes[r], s) for r in range(2)]
                a, b = d1(nodes[0], s), -d1(n2[0], t)
                c, d = d1(nodes[1], s), -d1(n2[1], t)
                det = a * d - b * c
                if kind == "newton-intersect-singular":
                    try:
                        IH.newton_refine(float(s), arr, float(t), arr2)
                        res.failure("newton-singular-not-raised", "newton_refine with a singular Jacobian returned normally", rc)
                    except ValueError:
                        pass
                    continue
                singular_scale = (abs(a) + abs(c)) * (abs(b) + abs(d))
                try:
                    gs, gt = IH.newton_refine(float(s), arr, float(t), arr2)
                except ValueError:
                    # documented: raised when the Jacobian is singular; legitimate iff det J = 0 (up to rounding)
                    if f[0] == 0 and f[1] == 0:
                        res.failure("newton-noop-raised" + sfx, "F(s,t)=0 exactly but newton_refine raised" + hist, rc)
                    elif abs(det) > 2 ** 10 * U * singular_scale:
                        res.failure("newton-singular-raised-wrongly" + sfx, "newton_refine raised ValueError although det J = %s is far from 0" % float(det) + hist, rc)
                    else:
                        res.skip("singular Jacobian (documented ValueError)")
                    continue
                if kind == "newton-intersect-noop":
                    if (gs, gt) != (float(s), float(t)):
                        res.failure("newton-noop-moved", "F(s,t)=0 exactly but newton_refine moved the point", rc)
                    continue
                if det == 0:
                    res.skip("singular")
                    continue
                ds = (f[0] * d - b * f[1]) / det
                dt = (a * f[1] - c * f[0]) / det
                # residual of the linear system at the returned step, relative to its conditioning
                rs, rt = Fr(float(gs)) - s, Fr(float(gt)) - t
                fabs = [X.bern_abs(n2[r], t) + X.bern_abs(nodes[r], s) for r in range(2)]
                jabs = [[d1_abs(nodes[0], s), d1_abs(n2[0], t)], [d1_abs(nodes[1], s), d1_abs(n2[1], t)]]
                deg = max(len(nodes[0]), len(n2[0]))
                r0 = abs(a * rs + b * rt - f[0])
                r1 = abs(c * rs + d * rt - f[1])
                allow = 8 * (3 * deg + 12) * U
                lim0 = allow * (fabs[0] + jabs[0][0] * abs(rs) + jabs[0][1] * abs(rt)) + 4 * U * (abs(a) * abs(s) + abs(b) * abs(t))
                lim1 = allow * (fabs[1] + jabs[1][0] * abs(rs) + jabs[1][1] * abs(rt)) + 4 * U * (abs(c) * abs(s) + abs(d) * abs(t))
                # backward-error test amplified by the (exact) growth factor of Gaussian elimination with the code's pivoting
                growth = 1 + max(abs(a), abs(b), abs(c), abs(d)) ** 2 / abs(det)
                if r0 > lim0 * growth or r1 > lim1 * growth:
                    res.failure("newton-intersect-wrong" + sfx, "newton_refine (curve-curve): step (%.6g, %.6g) vs exact (%.6g, %.6g); linear residual %.3e/%.3e beyond allowance" %
                                (float(rs), float(rt), float(ds), float(dt), float(r0), float(r1)) + hist, rc)
            elif kind == "jacobian-both":
                d = kw["d"]
                out = np.asarray(TH.jacobian_both(arr, d, dim))
                nn1 = G.tri_nodes_count(d - 1)
                if out.shape != (2 * dim, nn1):
                    res.failure("shape", "jacobian_both shape %r" % (out.shape,), rc)
                    continue
                stm, modelm = replies[mi]
                for r in range(dim):
                    for which, off in (("s", 0), ("t", dim)):
                        spec = X.tri_jacobian_s(nodes[r], d) if which == "s" else X.tri_jacobian_t(nodes[r], d)
                        if stm != "ok" or modelm[off + r] != spec:
                            res.mismatch("model-vs-spec:jacobian_both", rc, str(modelm[off + r])[:200] if stm == "ok" else stm, str(spec)[:200])
                        for cidx in range(nn1):
                            got = Fr(float(out[off + r, cidx]))
                            if got != spec[cidx] and abs(got - spec[cidx]) > 4 * U * d * 2 * max(abs(x) for x in nodes[r]):
                                res.failure("jacobian-net-wrong", "jacobian_both degree %d: d/d%s node %d is %s, exact %s" % (d, which, cidx, got, spec[cidx]), rc)
            elif kind == "jacobian-det":
                d = kw["d"]
                pts = kw["pts"]
                st_vals = np.asfortranarray([[float(a), float(b)] for a, b in pts])
                out = np.asarray(TH.jacobian_det(arr, d, st_vals))
                for k, (s, t) in enumerate(pts):
                    xs, xt = tri_partial(nodes[0], d, s, t, "s"), tri_partial(nodes[0], d, s, t, "t")
                    ys, yt = tri_partial(nodes[1], d, s, t, "s"), tri_partial(nodes[1], d, s, t, "t")
                    spec = xs * yt - xt * ys
                    stm, modelm = replies[mi[k]]
                    if stm != "ok" or modelm != spec:
                        res.mismatch("model-vs-spec:jacobian_det", rc, str(modelm), str(spec))
                    got = Fr(float(out[k]))
                    sc = (tri_partial_abs(nodes[0], d, s, t, "s") * tri_partial_abs(nodes[1], d, s, t, "t")
                          + tri_partial_abs(nodes[0], d, s, t, "t") * tri_partial_abs(nodes[1], d, s, t, "s")) if d > 1 else abs(xs * yt) + abs(xt * ys)
                    if got != spec and abs(got - spec) > 8 * (3 * d + 6) * U * sc:
                        res.failure("jacobian-det-wrong", "jacobian_det degree %d at (%s,%s): %s vs exact %s" % (d, s, t, got, spec), rc)
            elif kind == "newton-triangle":
                d = kw["d"]
                s, t, x, y = kw["s"], kw["t"], kw["x"], kw["y"]
                gs, gt = TI.newton_refine(arr, d, float(x), float(y), float(s), float(t))
                l1 = 1 - s - t
                bx, by = X.tri_eval(nodes[0], d, l1, s, t), X.tri_eval(nodes[1], d, l1, s, t)
                xs, xt = tri_partial(nodes[0], d, s, t, "s"), tri_partial(nodes[0], d, s, t, "t")
                ys, yt = tri_partial(nodes[1], d, s, t, "s"), tri_partial(nodes[1], d, s, t, "t")
                det = xs * yt - xt * ys
                if det == 0:
                    res.skip("singular")
                    continue
                e, f = x - bx, y - by
                ds, dt = (yt * e - xt * f) / det, (xs * f - ys * e) / det
                stm, modelm = replies[mi]
                if stm != "ok" or modelm != [s + ds, t + dt]:
                    res.mismatch("model-vs-spec:newton_refine_triangle", rc, str(modelm), str([s + ds, t + dt]))
                rs, rt = Fr(float(gs)) - s, Fr(float(gt)) - t
                scale = (abs(ds) + abs(dt)) + (abs(s) + abs(t)) * Fr(1, 2 ** 20)
                cond = (abs(xs) + abs(xt) + abs(ys) + abs(yt)) ** 2 / abs(det)
                tol = 64 * (3 * d + 12) * U * cond * (X.tri_eval_abs(nodes[0], d, abs(l1), abs(s), abs(t)) + X.tri_eval_abs(nodes[1], d, abs(l1), abs(s), abs(t)) + abs(x) + abs(y)) / (abs(xs) + abs(xt) + abs(ys) + abs(yt)) + 8 * U * (abs(s) + abs(t))
                if abs(rs - ds) > tol or abs(rt - dt) > tol:
                    res.failure("newton-triangle-wrong" + sfx, "newton_refine (triangle) degree %d: step (%.6g,%.6g) vs exact Cramer (%.6g,%.6g), tol %.3e" %
                                (d, float(rs), float(rt), float(ds), float(dt), float(tol)) + hist, rc)
        except Exception as exc:  # noqa
            res.failure("raised:%s:%s" % (full_kind, type(exc).__name__), "%s raised %r" % (full_kind, exc) + hist, rc)
    if pending and len(res.failures) > n_fail_before[0]:
        settle_history(*pending[0])
    res.emit()
    if rep:
        bad = bool(res.failures)
        print("replay: " + ("property fails on this input: " + res.failures[0]["what"] if bad else "property holds on this input"))
        sys.exit(1 if bad else 0)


def valid_triangle(rnd, d):
    """a mildly perturbed affine lattice: a valid planar triangle of degree d (floats)"""
    out = [[], []]
    for k in range(d + 1):
        for j in range(d + 1 - k):
            out[0].append(j / d + rnd.uniform(-0.04, 0.04) / d)
            out[1].append(k / d + rnd.uniform(-0.04, 0.04) / d)
    return out


main()
