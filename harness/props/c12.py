"""C12 — length and area equal the defining integrals: correspondence + oracle.

impl  : compute_area (shim), Triangle.area, CurvedPolygon.area, compute_length (shim), Curve.length
model : driver `shoelace`, `compute_area`, `length_integrand_sq`, `length_closed_sq`
spec  : exact Green boundary integral of the polynomial edges (power basis, exact rationals), exact
        double integral of det J over the reference triangle; for the length a composite
        Gauss-Legendre rule with self-estimated error (the adaptive quadrature itself is external).
"""
import sys
import math
import numpy as np
from fractions import Fraction as Fr
from math import factorial
import common as C
import exact as X
import gen as G


def green_exact(xs, ys):
    px, py = X.bern_to_power(xs), X.bern_to_power(ys)
    a = X.poly_int01(X.poly_mul(px, X.poly_deriv(py)))
    b = X.poly_int01(X.poly_mul(py, X.poly_deriv(px)))
    return (a - b) / 2


def green_abs(xs, ys):
    n = len(xs) - 1
    return sum(abs(x) for x in xs) * sum(abs(y) for y in ys) * 2


def tri_to_power2(row, d):
    """bivariate power basis {(a,b): c} of sum d!/(i!j!k!) (1-s-t)^i s^j t^k v"""
    out = {}
    for k in range(d + 1):
        for j in range(d + 1 - k):
            i = d - j - k
            v = row[X.tri_index(d, j, k)]
            if v == 0:
                continue
            c = factorial(d) // (factorial(i) * factorial(j) * factorial(k))
            for p in range(i + 1):
                for q in range(i + 1 - p):
                    m = factorial(i) // (factorial(p) * factorial(q) * factorial(i - p - q))
                    key = (j + p, k + q)
                    out[key] = out.get(key, 0) + c * m * (-1) ** (p + q) * v
    return out


def p2_mul(a, b):
    out = {}
    for (i, j), x in a.items():
        for (k, l), y in b.items():
            out[(i + k, j + l)] = out.get((i + k, j + l), 0) + x * y
    return out


def p2_sub(a, b):
    out = dict(a)
    for k, v in b.items():
        out[k] = out.get(k, 0) - v
    return out


def p2_ds(a):
    return {(i - 1, j): i * v for (i, j), v in a.items() if i > 0}


def p2_dt(a):
    return {(i, j - 1): j * v for (i, j), v in a.items() if j > 0}


def p2_int_triangle(a):
    return sum(Fr(v) * factorial(i) * factorial(j) / factorial(i + j + 2) for (i, j), v in a.items())


def tri_edges(nodes, d):
    """edge control nets (exact) of a triangle net given as rows"""
    e1 = [[r[X.tri_index(d, j, 0)] for j in range(d + 1)] for r in nodes]
    e2 = [[r[X.tri_index(d, d - k, k)] for k in range(d + 1)] for r in nodes]
    e3 = [[r[X.tri_index(d, 0, d - k)] for k in range(d + 1)] for r in nodes]
    return e1, e2, e3


_GL = {}


def gl_length(nodes_f, panels, hodo=None):
    """composite Gauss-Legendre (32 points) of |B'(s)| in binary64 with a stable de Casteljau"""
    if 32 not in _GL:
        _GL[32] = np.polynomial.legendre.leggauss(32)
    xg, wg = _GL[32]
    if hodo is None:
        n = nodes_f.shape[1] - 1
        d = n * (nodes_f[:, 1:] - nodes_f[:, :-1])
    else:       # the caller supplies the (exactly computed) hodograph net
        n = hodo.shape[1]
        d = hodo
    total = 0.0
    edges = np.linspace(0.0, 1.0, panels + 1)
    s = np.concatenate([0.5 * (b - a) * xg + 0.5 * (a + b) for a, b in zip(edges[:-1], edges[1:])])
    w = np.concatenate([0.5 * (b - a) * wg for a, b in zip(edges[:-1], edges[1:])])
    cur = np.repeat(d[:, :, None], len(s), axis=2)
    for _ in range(n - 1):
        cur = (1 - s) * cur[:, :-1, :] + s * cur[:, 1:, :]
    val = np.sqrt(np.sum(cur[:, 0, :] ** 2, axis=0))
    return float(np.sum(math.fsum(val * w) if False else val * w))


def ref_length(nodes_f):
    a = gl_length(nodes_f, 64)
    b = gl_length(nodes_f, 256)
    return b, abs(a - b)


# ------------------------------------------------------------------------------------------------------------------
# curves FAR FROM THE ORIGIN (compared with their size).  The defining integral of |B'(s)| only sees the DIFFERENCES of
# the control points, so the length cannot depend on where the curve sits.  The oracle below therefore starts from the
# EXACT hodograph net n (P[j+1] - P[j]) (rationals of the binary64 input), never from absolute coordinates.
def exact_hodograph(nodes):
    """exact hodograph control net (Fractions) of a net given as rows of Fractions"""
    n = len(nodes[0]) - 1
    return [[n * (r[j + 1] - r[j]) for j in range(n)] for r in nodes]


def ref_length_hodo(hod, panels=64):
    """(reference integral of |B'|, self-estimated error) from an exact hodograph net"""
    d = np.array([[float(x) for x in r] for r in hod], dtype=np.float64)
    a = gl_length(None, panels, hodo=d)
    b = gl_length(None, 4 * panels, hodo=d)
    return b, abs(a - b)


def norm_fr(vec):
    return math.sqrt(float(sum(Fr(x) * Fr(x) for x in vec)))


def chord_polygon_exact(nodes):
    """chord and control-polygon length from exact differences"""
    nn = len(nodes[0])
    chord = norm_fr([r[-1] - r[0] for r in nodes])
    poly = sum(norm_fr([r[j + 1] - r[j] for r in nodes]) for j in range(nn - 1))
    return chord, poly


def far_base(rnd, fam, n, dim):
    """control net (rows of Fractions) of a degree-n curve of moderate size near the origin"""
    if fam == "generic":        # advancing, really curved, grid 2^-4
        rows = []
        for d in range(dim):
            x, row = Fr(rnd.randint(-8, 8), 16), []
            for _ in range(n + 1):
                row.append(x)
                x += Fr(rnd.randint(-4, 16) if d == 0 else rnd.randint(-12, 12), 16)
            rows.append(row)
        return rows
    if fam == "shallow":        # nearly straight: bend 2^-e of the step (road / rail geometry)
        e = rnd.randint(2, 12)
        rows = [[Fr(j) + Fr(rnd.randint(-2, 2), 16) for j in range(n + 1)]]
        for d in range(1, dim):
            rows.append([Fr(0)] + [Fr(rnd.choice([-4, -3, -2, -1, 1, 2, 3, 4]), 2 ** e) for _ in range(n - 1)] + [Fr(0)])
        return rows
    if fam == "near-elevated":  # a degree-(n-1) curve, degree elevated, plus a small genuine degree-n part
        low = far_base(rnd, "generic", n - 1, dim)
        rows = [X.elevate_exact(r) for r in low]
        e = rnd.randint(3, 14)
        j = rnd.randint(1, n - 1) if n >= 2 else 0
        for d in range(dim):
            rows[d][j] += Fr(rnd.randint(-8, 8), 2 ** e)
        rows[rnd.randrange(dim)][j] += Fr(1, 2 ** e)
        return rows
    if fam == "straight":       # collinear nodes, monotone: a line in disguise, length = chord
        t = sorted(Fr(rnd.randint(0, 64), 16) for _ in range(n + 1))
        if t[0] == t[-1]:
            t[-1] += 1
        direction = [rnd.choice([-3, -2, -1, 1, 2, 3]) for _ in range(dim)]
        return [[c * x for x in t] for c in direction]
    raise ValueError(fam)


def far_offset(rnd, dim, k, pattern):
    big = 2 ** k
    if pattern == "all":
        return [Fr(big)] * dim
    if pattern == "one":
        off = [Fr(rnd.randint(-3, 3)) for _ in range(dim)]
        off[rnd.randrange(dim)] = Fr(big)
        return off
    if pattern == "mixed":
        return [Fr(rnd.choice([-1, 1]) * rnd.choice([big, 3 * big // 2, 5 * big // 4, big + 12345])) for _ in range(dim)]
    raise ValueError(pattern)


def far_case(rnd, fam, n, dim, offset, scale_exp=0):
    """keyword arguments of one 'length-far' case: the library sees base + offset rounded to binary64"""
    for _ in range(20):
        base = far_base(rnd, fam, n, dim)
        ref = ref_length_hodo(exact_hodograph(base))[0] if n >= 1 else 0.0
        if ref > 0:
            break
    else:
        return None
    m = scale_exp
    while ref * 2.0 ** m < 1.0:     # keep away from the absolute-tolerance regime of QUADPACK (finding F-V)
        m += 1
    base = [[x * 2 ** m for x in r] for r in base]
    offset = [o * 2 ** scale_exp for o in offset]
    nodes = [[Fr(float(x + o)) for x in r] for r, o in zip(base, offset)]
    kw = {"nodes": nodes, "family": "far-" + fam, "offset": offset}
    if all(x - o == b for r, o, br in zip(nodes, offset, base) for x, b in zip(r, br)):
        kw["base"] = base           # the translation is exact: the lengths of base and nodes are the same number
    return kw


def far_cases(rnd, thorough):
    out = []
    degrees = (1, 2, 3, 4, 5, 6, 9) if not thorough else tuple(range(1, 13))
    ks = (14, 20, 23, 25, 26, 27, 28, 30, 33, 38, 44) if not thorough else tuple(range(10, 47))
    for n in degrees:
        for fam in ("generic", "shallow", "near-elevated", "straight"):
            if fam in ("shallow", "near-elevated") and n < 2:
                continue
            for k in ks:
                for _ in range(1 if not thorough else 3):
                    dim = rnd.choice([2, 2, 3, 4])
                    kw = far_case(rnd, fam, n, dim, far_offset(rnd, dim, k, rnd.choice(["all", "one", "mixed"])),
                                  rnd.choice([0, 0, 0, 3, 7]))
                    if kw:
                        out.append(kw)
    # map / survey coordinates (decimal offsets): UTM-like eastings and northings, 1e7, ECEF-like metres in 3-D
    for n in (2, 3, 4) if not thorough else (2, 3, 4, 5, 6):
        for off in ([500000, 5000000], [10 ** 7, 10 ** 7], [4027894, 307046, 4919499], [-(10 ** 8), 10 ** 6]):
            for fam in ("generic", "shallow", "near-elevated"):
                kw = far_case(rnd, fam, n, len(off), [Fr(o) for o in off])
                if kw:
                    out.append(kw)
    return out


def check_length_far(bezier, CH, res, rc, kw, cfg, have_scipy):
    """Curve.length / compute_length of a curve whose coordinates are large compared with its extent.

    spec: the integral of |B'(s)| with B' from the EXACT differences of the binary64 control points (composite
    Gauss-Legendre with self-estimated error), the exact chord and control polygon, additivity over the exact halves,
    and - when the translation is exact - the length of the same curve moved to the origin."""
    nodes = kw["nodes"]
    nn, dim = len(nodes[0]), len(nodes)
    if nn >= 3 and cfg == "pure" and not have_scipy:
        res.skip("pure compute_length needs SciPy (absent in this interpreter)")
        return
    arr = C.farr(nodes)
    if [[Fr(float(x)) for x in r] for r in arr.tolist()] != nodes:
        raise AssertionError("length-far: the case's nodes are not binary64 numbers")
    hod = exact_hodograph(nodes)
    chord, polygon = chord_polygon_exact(nodes)
    size = max(float(max(r) - min(r)) for r in nodes)
    far = max(abs(float(x)) for r in nodes for x in r)
    where = "degree %d, %d-D, %s, coordinates up to %.6g = %.3g x the extent %.6g" % (nn - 1, dim, kw["family"], far, far / size, size)
    got = float(CH.compute_length(arr))
    crv = bezier.Curve(arr, nn - 1)
    got_api = float(crv.length)
    if got_api != got and not (math.isnan(got) and math.isnan(got_api)):
        res.failure("length-api-differs", "Curve.length %r != compute_length %r" % (got_api, got), rc)
    if nn == 2:
        if not abs(got - chord) <= 8 * float(C.U) * chord:
            res.failure("length-wrong:far-from-origin", "length of a segment (%s): %r, exact %r" % (where, got, chord), rc)
        return
    ref, err = ref_length_hodo(hod)
    if err > 2.0 ** -30 * ref:
        res.skip("reference quadrature not converged (family %s)" % kw["family"])
        return
    tol = 2.0 ** -24 * ref + err

    def wrong(val, target, slack=0.0):
        return not abs(val - target) <= tol + slack     # also true for NaN

    if wrong(got, ref):
        res.failure("length-wrong:far-from-origin", "compute_length (%s): %r, but the integral of |B'| over [0,1] is %r (rel %.3e; chord %r, "
                    "control polygon %r)" % (where, got, ref, abs(got - ref) / ref, chord, polygon), rc)
    if not (chord * (1 - 2.0 ** -24) <= got <= polygon * (1 + 2.0 ** -24)):
        res.failure("length-outside-bounds:far-from-origin", "length %r not in [chord %r, control polygon %r] (%s)" % (got, chord, polygon, where), rc)
    if "base" in kw:
        got0 = float(CH.compute_length(C.farr(kw["base"])))
        if not abs(got - got0) <= 2.0 ** -23 * ref + 2 * err:
            res.failure("length-not-translation-invariant", "compute_length %r after the EXACT translation by %s, %r before (%s; integral of |B'| = %r)" %
                        (got, [str(o) for o in kw["offset"]], got0, where, ref), rc)
    # additivity over subdivision.  The halves computed by the library carry the rounding of coordinates of this magnitude;
    # |length(P + E) - length(P)| <= control polygon of the perturbation net E, computed exactly - zero when the halves are exact
    exact_l, exact_r = [], []
    for r in nodes:     # one exact de Casteljau split per coordinate
        lo, hi = X._split(r, Fr(1, 2))
        exact_l.append(lo)
        exact_r.append(hi)
    left, right = CH.subdivide_nodes(arr)
    slack = 0.0
    for h, ex in ((left, exact_l), (right, exact_r)):
        e_net = [[Fr(float(v)) - w for v, w in zip(hr, er)] for hr, er in zip(h.tolist(), ex)]
        slack += chord_polygon_exact(e_net)[1]
    parts = float(CH.compute_length(left)) + float(CH.compute_length(right))
    if not abs(parts - got) <= 2.0 ** -23 * ref + 2 * slack * (1 + 2.0 ** -20):
        res.failure("length-not-additive:far-from-origin", "length %r vs sum over the two halves %r (%s; integral of |B'| = %r)" %
                    (got, parts, where, ref), rc)
    # the public route: Curve.subdivide() and the length of each half against the integral for the half's own control net
    for lab, piece in zip(("left", "right"), crv.subdivide()):
        pn = [[Fr(float(v)) for v in r] for r in np.asarray(piece.nodes).tolist()]
        pref, perr = ref_length_hodo(exact_hodograph(pn), 32)     # half the interval: the same panel width
        if perr > 2.0 ** -30 * max(pref, 2.0 ** -20) or pref < 0.25:
            continue
        gp = float(piece.length)
        if not abs(gp - pref) <= 2.0 ** -24 * pref + perr + 2.0 ** -26:
            res.failure("length-wrong:far-from-origin", "Curve.length of the %s half returned by subdivide() (%s): %r, but the integral of |B'| for "
                        "the half's control net is %r" % (lab, where, gp, pref), rc)
            break


def main():
    bezier = C.import_bezier()
    from bezier import _curve_helpers as CH
    from bezier import _triangle_helpers as TH
    from bezier.hazmat import helpers as HH
    rnd, seed = C.rng()
    thorough = C.tier() == "thorough"
    cfg = C.config_name()
    res = C.Result("C12")
    rep = C.replay_case()
    U = C.U
    thr = C.generated("py_curve_vs_threshold" if cfg == "pure" else "f90_curve_vs_threshold", 55)
    SCALE = {2: 2, 3: 6, 4: 20, 5: 70}
    have_scipy = True
    try:
        import scipy.integrate  # noqa
    except Exception:  # noqa
        have_scipy = False
    cases = []

    def add(kind, **kw):
        cases.append((kind, kw))

    if rep:
        kw = dict(rep["kw"])
        if "edges" in kw:
            kw["edges"] = [[[Fr(x) for x in r] for r in e] for e in kw["edges"]]
        if "nodes" in kw:
            kw["nodes"] = [[Fr(x) for x in r] for r in kw["nodes"]]
        if "base" in kw:
            kw["base"] = [[Fr(x) for x in r] for r in kw["base"]]
        if "offset" in kw:
            kw["offset"] = [Fr(x) for x in kw["offset"]]
        add(rep["kind"], **kw)
    else:
        # ---- area: complete quadratic-form table on pairs of unit nets (x = scale*e_i, y = e_j): exact
        for nn in (2, 3, 4, 5):
            for i in range(nn):
                for j in range(nn):
                    xs = [Fr(SCALE[nn] * int(k == i)) for k in range(nn)]
                    ys = [Fr(int(k == j)) for k in range(nn)]
                    add("area-unit", edges=[[xs, ys]], regime="E")
            for _ in range(6 if not thorough else 30):
                add("area-unit", edges=[[G.float_net(rnd, 1, nn, 0)[0], G.float_net(rnd, 1, nn, 0)[0]]], regime="T")
                add("area-unit", edges=[[[x * SCALE[nn] for x in G.int_net(rnd, 1, nn, 64)[0]], G.int_net(rnd, 1, nn, 64)[0]]], regime="E")
        for nn in range(6, 10):
            add("area-raises", edges=[G.int_net(rnd, 2, nn, 8)])
        add("area-raises", edges=[G.int_net(rnd, 2, 3, 8), G.int_net(rnd, 2, 7, 8)])
        # ---- closed polygons: additivity under subdivision, invariance under elevation, mixed degrees
        for _ in range(30 if not thorough else 200):
            k = rnd.choice([2, 3, 4])
            pts = [(Fr(rnd.randint(-64, 64), 8), Fr(rnd.randint(-64, 64), 8)) for _ in range(k)]
            edges = []
            for a in range(k):
                p, q = pts[a], pts[(a + 1) % k]
                m = rnd.choice([1, 2, 3, 4])
                inner = [(Fr(rnd.randint(-64, 64), 8), Fr(rnd.randint(-64, 64), 8)) for _ in range(m - 1)]
                chain = [p] + inner + [q]
                edges.append([[c[0] for c in chain], [c[1] for c in chain]])
            add("polygon", edges=edges)
        # ---- Triangle.area = double integral of det J, degrees 1..4
        for d in (1, 2, 3, 4):
            for _ in range(4 if not thorough else 20):
                nn = G.tri_nodes_count(d)
                add("triangle-area", nodes=G.dyadic_net(rnd, 2, nn, 8, 3), d=d)
        add("triangle-area-raises", nodes=G.int_net(rnd, 2, G.tri_nodes_count(5), 8), d=5)
        # ---- length
        for n in range(1, 13):
            for fam in ("smooth", "straight", "cusp", "random3d"):
                for _ in range(1 if not thorough else 5):
                    if fam == "smooth":
                        nodes = G.smooth_float_net(rnd, 2, n + 1)
                    elif fam == "straight":
                        t = sorted(rnd.uniform(0, 1) for _ in range(n + 1))
                        a, b = rnd.uniform(-2, 2), rnd.uniform(-2, 2)
                        nodes = [[Fr(a * x) for x in t], [Fr(b * x + 1) for x in t]]
                    elif fam == "cusp":
                        nodes = G.smooth_float_net(rnd, 2, n + 1)
                        if n >= 3:   # bring two interior control points together: nearly vanishing tangent
                            nodes[0][2] = nodes[0][1] + Fr(rnd.uniform(-1e-3, 1e-3))
                            nodes[1][2] = nodes[1][1] + Fr(rnd.uniform(-1e-3, 1e-3))
                    else:
                        nodes = G.smooth_float_net(rnd, 3, n + 1)
                    add("length", nodes=nodes, family=fam)
        # wiggly nets: the speed |B'(s)| has several sharp local features, the adaptive rule has to bisect repeatedly
        for n in range(3, 13):
            for _ in range(6 if not thorough else 40):
                add("length", nodes=G.int_net(rnd, 2, n + 1, 4), family="wiggly")
        add("length", nodes=[[Fr(3)], [Fr(4)]], family="degree0")
        # ---- length of curves far from the origin compared with their size (translation must not matter)
        for kw in far_cases(rnd, thorough):
            add("length-far", **kw)

    # ---- model queries
    drv = C.Driver()
    midx = []
    for kind, kw in cases:
        if kind in ("area-unit", "polygon", "area-raises"):
            midx.append(drv.ask("compute_area", kw["edges"]))
        elif kind == "length":
            nodes = kw["nodes"]
            q = [drv.ask("length_closed_sq", nodes)]
            if len(nodes[0]) >= 2:
                q.append(drv.ask("length_integrand_sq", thr, nodes, Fr(3, 8)))
            midx.append(q)
        else:
            midx.append(None)
    replies = drv.run() if drv.lines else []     # (a replayed case may have no model query)

    def area_call(edges):
        return TH.compute_area(tuple(C.farr(e) for e in edges))

    for (kind, kw), mi in zip(cases, midx):
        jkw = {k: (C.jfr(v) if k in ("edges", "nodes", "base", "offset") else v) for k, v in kw.items()}
        rc = {"kind": kind, "kw": jkw}
        res.count((kind, str(jkw)), kind=kind, regime=kw.get("regime", "T"), family=kw.get("family", "-"))
        res.sample({"kind": kind, "kw": {k: (v if k not in ("edges", "nodes") else str(v)[:120]) for k, v in jkw.items()}})
        try:
            if kind == "area-unit":
                (xs, ys), = kw["edges"]
                got = Fr(float(area_call(kw["edges"])))
                spec = green_exact(xs, ys)
                st, model = replies[mi]
                if st != "ok" or model != spec:
                    res.mismatch("model-vs-spec:area", rc, str(model), str(spec))
                if kw["regime"] == "E":
                    if got != spec:
                        res.mismatch("compute_area", rc, str(got), str(model), "E regime")
                        res.failure("area-wrong", "compute_area of one degree-%d edge: %s, exact Green integral %s" % (len(xs) - 1, got, spec), rc)
                elif abs(got - spec) > 64 * U * green_abs(xs, ys):
                    res.mismatch("compute_area", rc, str(got), str(model), "T regime")
                    res.failure("area-wrong", "compute_area of one degree-%d edge: %s vs %s" % (len(xs) - 1, float(got), float(spec)), rc)
            elif kind == "area-raises":
                st, model = replies[mi]
                if st != "err":
                    res.mismatch("model:area-raises", rc, st, "err")
                try:
                    area_call(kw["edges"])
                    res.failure("area-unsupported-not-raised", "compute_area with an edge of degree >= 5 returned normally", rc)
                except HH.UnsupportedDegree:
                    pass
            elif kind == "polygon":
                edges = kw["edges"]
                spec = sum(green_exact(e[0], e[1]) for e in edges)
                scale = sum(green_abs(e[0], e[1]) for e in edges)
                st, model = replies[mi]
                if st != "ok" or model != spec:
                    res.mismatch("model-vs-spec:polygon", rc, str(model), str(spec))
                got = Fr(float(area_call(edges)))
                if abs(got - spec) > 64 * U * scale:
                    res.mismatch("compute_area", rc, str(got), str(model))
                    res.failure("area-wrong", "compute_area of a closed chain: %s vs exact %s" % (float(got), float(spec)), rc)
                curves = [bezier.Curve(C.farr(e), len(e[0]) - 1) for e in edges]
                poly = bezier.CurvedPolygon(*curves)
                got2 = Fr(float(poly.area))
                if abs(got2 - spec) > 64 * U * scale:
                    res.failure("curved-polygon-area-wrong", "CurvedPolygon.area %s vs exact %s" % (float(got2), float(spec)), rc)
                # subdivide every edge (exactly, data are dyadic) / elevate every edge: area unchanged
                sub = []
                for e in edges:
                    l = [X.specialize_exact(r, Fr(0), Fr(1, 2)) for r in e]
                    r_ = [X.specialize_exact(r, Fr(1, 2), Fr(1)) for r in e]
                    sub += [l, r_]
                el = [[X.elevate_exact(r) for r in e] if len(e[0]) <= 4 else e for e in edges]
                for name, es in (("subdivided", sub), ("elevated", el)):
                    if all(C.is_exact_float(x) for e in es for r in e for x in r) or True:
                        g = Fr(float(area_call([[[Fr(float(x)) for x in r] for r in e] for e in es])))
                        if abs(g - spec) > 256 * U * scale:
                            res.failure("area-not-invariant:" + name, "area after the edges are %s: %s vs %s" % (name, float(g), float(spec)), rc)
            elif kind == "triangle-area":
                nodes, d = kw["nodes"], kw["d"]
                tri = bezier.Triangle(C.farr(nodes), d)
                got = Fr(float(tri.area))
                px, py = tri_to_power2(nodes[0], d), tri_to_power2(nodes[1], d)
                det = p2_sub(p2_mul(p2_ds(px), p2_dt(py)), p2_mul(p2_dt(px), p2_ds(py)))
                spec = p2_int_triangle(det)
                green = sum(green_exact(e[0], e[1]) for e in zip(*[list(x) for x in zip(*[tri_edges([r], d) for r in nodes])])) if False else None
                e1, e2, e3 = tri_edges(nodes, d)
                gsum = green_exact(e1[0], e1[1]) + green_exact(e2[0], e2[1]) + green_exact(e3[0], e3[1])
                if gsum != spec:
                    res.mismatch("spec:green-vs-detJ", rc, str(gsum), str(spec), "Green's theorem (exact)")
                scale = sum(green_abs(e[0], e[1]) for e in (e1, e2, e3))
                if abs(got - spec) > 64 * U * scale:
                    res.failure("triangle-area-wrong", "Triangle.area degree %d: %s vs exact integral of det J %s" % (d, float(got), float(spec)), rc)
            elif kind == "triangle-area-raises":
                tri = bezier.Triangle(C.farr(kw["nodes"]), kw["d"])
                try:
                    tri.area
                    res.failure("area-unsupported-not-raised", "Triangle.area of degree 5 returned normally", rc)
                except HH.UnsupportedDegree:
                    pass
            elif kind == "length":
                nodes = kw["nodes"]
                nn = len(nodes[0])
                arr = C.farr(nodes)
                st, closed = replies[mi[0]]
                if nn >= 3 and cfg == "pure" and not have_scipy:
                    res.skip("pure compute_length needs SciPy (absent in this interpreter)")
                    continue
                got = float(CH.compute_length(arr))
                if nn >= 2:
                    crv = bezier.Curve(arr, nn - 1)
                    got_api = float(crv.length)
                    if got_api != got:
                        res.failure("length-api-differs", "Curve.length %r != compute_length %r" % (got_api, got), rc)
                if st == "ok" and closed:
                    spec = math.sqrt(float(closed[0]))
                    if abs(got - spec) > 8 * float(U) * spec:
                        res.mismatch("compute_length", rc, got, spec, "closed form")
                        res.failure("length-wrong:closed-form", "compute_length with %d node(s): %r vs %r" % (nn, got, spec), rc)
                    continue
                # integrand correspondence (pure Python exposes vec_size)
                stq, isq = replies[mi[1]]
                from bezier.hazmat import curve_helpers as H
                fd = (nn - 1) * (arr[:, 1:] - arr[:, :-1])
                vs = float(H.vec_size(np.asfortranarray(fd), 0.375))
                fd_exact = [[(nn - 1) * (Fr(float(r[j + 1])) - Fr(float(r[j]))) for j in range(nn - 1)] for r in arr.tolist()]
                if abs(vs * vs - float(isq)) > 64 * (3 * nn + 6) * float(U) * float(sum(X.bern_abs(r, Fr(3, 8)) ** 2 for r in fd_exact) + 1e-300):
                    res.mismatch("vec_size", rc, vs * vs, float(isq), "squared integrand at s=3/8")
                ref, err = ref_length(arr)
                if err > 2.0 ** -30 * ref:
                    res.skip("reference quadrature not converged (family %s)" % kw["family"])
                    continue
                chord = float(np.linalg.norm(arr[:, -1] - arr[:, 0]))
                polygon = float(np.sum(np.linalg.norm(arr[:, 1:] - arr[:, :-1], axis=0)))
                if abs(got - ref) > 2.0 ** -24 * ref + err:
                    res.failure("length-wrong", "compute_length degree %d (%s): %r vs reference %r (rel %.3e)" %
                                (nn - 1, kw["family"], got, ref, abs(got - ref) / ref), rc)
                if got < chord * (1 - 2.0 ** -24) or got > polygon * (1 + 2.0 ** -24):
                    res.failure("length-outside-bounds", "length %r not in [chord %r, polygon %r]" % (got, chord, polygon), rc)
                left, right = CH.subdivide_nodes(arr)
                parts = float(CH.compute_length(left)) + float(CH.compute_length(right))
                if abs(parts - got) > 2.0 ** -23 * got:
                    res.failure("length-not-additive", "length %r vs sum of halves %r" % (got, parts), rc)
                # lengths of DERIVED objects of a curve whose length has already been read: specialisations to unit-width and
                # other intervals (inside, outside, reversed), copies and elevations; each against the length computed from
                # the derived object's own control net and against chord <= length <= control polygon
                if nn <= 6:
                    crv = bezier.Curve(arr, nn - 1)
                    _ = crv.length
                    for a_, b_ in ((-0.25, 0.75), (0.5, 1.5), (1.0, 0.0), (0.0, 1.0), (0.25, 0.75), (0.25, 1.25)):
                        piece = crv.specialize(a_, b_)
                        for lab, obj in (("specialize(%s, %s)" % (a_, b_), piece), ("specialize(%s, %s).elevate()" % (a_, b_), piece.elevate()),
                                         ("specialize(%s, %s).copy()" % (a_, b_), piece.copy())):
                            pn = np.asfortranarray(np.asarray(obj.nodes))
                            own = float(CH.compute_length(pn))
                            got_d = float(obj.length)
                            pchord = float(np.linalg.norm(pn[:, -1] - pn[:, 0]))
                            ppoly = float(np.sum(np.linalg.norm(pn[:, 1:] - pn[:, :-1], axis=0)))
                            if abs(got_d - own) > 2.0 ** -22 * max(own, 2.0 ** -20) or got_d < pchord * (1 - 2.0 ** -22) or got_d > ppoly * (1 + 2.0 ** -22):
                                res.failure("length-wrong:derived-object", "Curve.length of %s of a degree-%d curve whose length had been read: %r; "
                                            "computed from its own control net %r, chord %r, control polygon %r" %
                                            (lab, nn - 1, got_d, own, pchord, ppoly), rc)
                                break
            elif kind == "length-far":
                check_length_far(bezier, CH, res, rc, kw, cfg, have_scipy)
        except Exception as exc:  # noqa
            res.failure("raised:%s:%s" % (kind, type(exc).__name__), "%s raised %r" % (kind, exc), rc)
    res.emit()
    if rep:
        bad = bool(res.failures)
        print("replay: " + ("property fails on this input: " + res.failures[0]["what"] if bad else "property holds on this input"))
        sys.exit(1 if bad else 0)


main()
