"""C12 — length and area equal the defining integrals: correspondence + oracle.

impl  : compute_area (shim), Triangle.area, CurvedPolygon.area, compute_length (shim), Curve.length
model : driver `shoelace`, `compute_area`, `length_integrand_sq`, `length_closed_sq`
spec  : exact Green boundary integral of the polynomial edges (power basis, exact rationals), exact
        double integral of det J over the reference triangle; for the length a composite
        Gauss-Legendre rule with self-estimated error (the adaptive quadrature itself is external).
"""
import sys
import math
import numpy as np
from fractions import Fraction as Fr
from math import factorial
import common as C
import exact as X
import gen as G


def green_exact(xs, ys):
    px, py = X.bern_to_power(xs), X.bern_to_power(ys)
    a = X.poly_int01(X.poly_mul(px, X.poly_deriv(py)))
    b = X.poly_int01(X.poly_mul(py, X.poly_deriv(px)))
    return (a - b) / 2


def green_abs(xs, ys):
    n = len(xs) - 1
    return sum(abs(x) for x in xs) * sum(abs(y) for y in ys) * 2


def tri_to_power2(row, d):
    """bivariate power basis {(a,b): c} of sum d!/(i!j!k!) (1-s-t)^i s^j t^k v"""
    out = {}
    for k in range(d + 1):
        for j in range(d + 1 - k):
            i = d - j - k
            v = row[X.tri_index(d, j, k)]
            if v == 0:
                continue
            c = factorial(d) // (factorial(i) * factorial(j) * factorial(k))
            for p in range(i + 1):
                for q in range(i + 1 - p):
                    m = factorial(i) // (factorial(p) * factorial(q) * factorial(i - p - q))
                    key = (j + p, k + q)
                    out[key] = out.get(key, 0) + c * m * (-1) ** (p + q) * v
    return out


def p2_mul(a, b):
    out = {}
    for (i, j), x in a.items():
        for (k, l), y in b.items():
            out[(i + k, j + l)] = out.get((i + k, j + l), 0) + x * y
    return out


def p2_sub(a, b):
    out = dict(a)
    for k, v in b.items():
        out[k] = out.get(k, 0) - v
    return out


def p2_ds(a):
    return {(i - 1, j): i * v for (i, j), v in a.items() if i > 0}


def p2_dt(a):
    return {(i, j - 1): j * v for (i, j), v in a.items() if j > 0}


def p2_int_triangle(a):
    return sum(Fr(v) * factorial(i) * factorial(j) / factorial(i + j + 2) for (i, j), v in a.items())


def tri_edges(nodes, d):
    """edge control nets (exact) of a triangle net given as rows"""
    e1 = [[r[X.tri_index(d, j, 0)] for j in range(d + 1)] for r in nodes]
    e2 = [[r[X.tri_index(d, d - k, k)] for k in range(d + 1)] for r in nodes]
    e3 = [[r[X.tri_index(d, 0, d - k)] for k in range(d + 1)] for r in nodes]
    return e1, e2, e3


_GL = {}


def gl_length(nodes_f, panels):
    """composite Gauss-Legendre (32 points) of |B'(s)| in binary64 with a stable de Casteljau"""
    if 32 not in _GL:
        _GL[32] = np.polynomial.legendre.leggauss(32)
    xg, wg = _GL[32]
    n = nodes_f.shape[1] - 1
    d = n * (nodes_f[:, 1:] - nodes_f[:, :-1])
    total = 0.0
    edges = np.linspace(0.0, 1.0, panels + 1)
    s = np.concatenate([0.5 * (b - a) * xg + 0.5 * (a + b) for a, b in zip(edges[:-1], edges[1:])])
    w = np.concatenate([0.5 * (b - a) * wg for a, b in zip(edges[:-1], edges[1:])])
    cur = np.repeat(d[:, :, None], len(s), axis=2)
    for _ in range(n - 1):
        cur = (1 - s) * cur[:, :-1, :] + s * cur[:, 1:, :]
    val = np.sqrt(np.sum(cur[:, 0, :] ** 2, axis=0))
    return float(np.sum(math.fsum(val * w) if False else val * w))


def ref_length(nodes_f):
    a = gl_length(nodes_f, 64)
    b = gl_length(nodes_f, 256)
    return b, abs(a - b)


def main():
    bezier = C.import_bezier()
    from bezier import _curve_helpers as CH
    from bezier import _triangle_helpers as TH
    from bezier.hazmat import helpers as HH
    rnd, seed = C.rng()
    thorough = C.tier() == "thorough"
    cfg = C.config_name()
    res = C.Result("C12")
    rep = C.replay_case()
    U = C.U
    thr = C.generated("py_curve_vs_threshold" if cfg == "pure" else "f90_curve_vs_threshold", 55)
    SCALE = {2: 2, 3: 6, 4: 20, 5: 70}
    have_scipy = True
    try:
        import scipy.integrate  # noqa
    except Exception:  # noqa
        have_scipy = False
    cases = []

    def add(kind, **kw):
        cases.append((kind, kw))

    if rep:
        kw = dict(rep["kw"])
        if "edges" in kw:
            kw["edges"] = [[[Fr(x) for x in r] for r in e] for e in kw["edges"]]
        if "nodes" in kw:
            kw["nodes"] = [[Fr(x) for x in r] for r in kw["nodes"]]
        add(rep["kind"], **kw)
    else:
        # ---- area: complete quadratic-form table on pairs of unit nets (x = scale*e_i, y = e_j): exact
        for nn in (2, 3, 4, 5):
            for i in range(nn):
                for j in range(nn):
                    xs = [Fr(SCALE[nn] * int(k == i)) for k in range(nn)]
                    ys = [Fr(int(k == j)) for k in range(nn)]
                    add("area-unit", edges=[[xs, ys]], regime="E")
            for _ in range(6 if not thorough else 30):
                add("area-unit", edges=[[G.float_net(rnd, 1, nn, 0)[0], G.float_net(rnd, 1, nn, 0)[0]]], regime="T")
                add("area-unit", edges=[[[x * SCALE[nn] for x in G.int_net(rnd, 1, nn, 64)[0]], G.int_net(rnd, 1, nn, 64)[0]]], regime="E")
        for nn in range(6, 10):
            add("area-raises", edges=[G.int_net(rnd, 2, nn, 8)])
        add("area-raises", edges=[G.int_net(rnd, 2, 3, 8), G.int_net(rnd, 2, 7, 8)])
        # ---- closed polygons: additivity under subdivision, invariance under elevation, mixed degrees
        for _ in range(30 if not thorough else 200):
            k = rnd.choice([2, 3, 4])
            pts = [(Fr(rnd.randint(-64, 64), 8), Fr(rnd.randint(-64, 64), 8)) for _ in range(k)]
            edges = []
            for a in range(k):
                p, q = pts[a], pts[(a + 1) % k]
                m = rnd.choice([1, 2, 3, 4])
                inner = [(Fr(rnd.randint(-64, 64), 8), Fr(rnd.randint(-64, 64), 8)) for _ in range(m - 1)]
                chain = [p] + inner + [q]
                edges.append([[c[0] for c in chain], [c[1] for c in chain]])
            add("polygon", edges=edges)
        # ---- Triangle.area = double integral of det J, degrees 1..4
        for d in (1, 2, 3, 4):
            for _ in range(4 if not thorough else 20):
                nn = G.tri_nodes_count(d)
                add("triangle-area", nodes=G.dyadic_net(rnd, 2, nn, 8, 3), d=d)
        add("triangle-area-raises", nodes=G.int_net(rnd, 2, G.tri_nodes_count(5), 8), d=5)
        # ---- length
        for n in range(1, 13):
            for fam in ("smooth", "straight", "cusp", "random3d"):
                for _ in range(1 if not thorough else 5):
                    if fam == "smooth":
                        nodes = G.smooth_float_net(rnd, 2, n + 1)
                    elif fam == "straight":
                        t = sorted(rnd.uniform(0, 1) for _ in range(n + 1))
                        a, b = rnd.uniform(-2, 2), rnd.uniform(-2, 2)
                        nodes = [[Fr(a * x) for x in t], [Fr(b * x + 1) for x in t]]
                    elif fam == "cusp":
                        nodes = G.smooth_float_net(rnd, 2, n + 1)
                        if n >= 3:   # bring two interior control points together: nearly vanishing tangent
                            nodes[0][2] = nodes[0][1] + Fr(rnd.uniform(-1e-3, 1e-3))
                            nodes[1][2] = nodes[1][1] + Fr(rnd.uniform(-1e-3, 1e-3))
                    else:
                        nodes = G.smooth_float_net(rnd, 3, n + 1)
                    add("length", nodes=nodes, family=fam)
        # wiggly nets: the speed |B'(s)| has several sharp local features, the adaptive rule has to bisect repeatedly
        for n in range(3, 13):
            for _ in range(6 if not thorough else 40):
                add("length", nodes=G.int_net(rnd, 2, n + 1, 4), family="wiggly")
        add("length", nodes=[[Fr(3)], [Fr(4)]], family="degree0")

    # ---- model queries
    drv = C.Driver()
    midx = []
    for kind, kw in cases:
        if kind in ("area-unit", "polygon", "area-raises"):
            midx.append(drv.ask("compute_area", kw["edges"]))
        elif kind == "length":
            nodes = kw["nodes"]
            q = [drv.ask("length_closed_sq", nodes)]
            if len(nodes[0]) >= 2:
                q.append(drv.ask("length_integrand_sq", thr, nodes, Fr(3, 8)))
            midx.append(q)
        else:
            midx.append(None)
    replies = drv.run()

    def area_call(edges):
        return TH.compute_area(tuple(C.farr(e) for e in edges))

    for (kind, kw), mi in zip(cases, midx):
        jkw = {k: (C.jfr(v) if k in ("edges", "nodes") else v) for k, v in kw.items()}
        rc = {"kind": kind, "kw": jkw}
        res.count((kind, str(jkw)), kind=kind, regime=kw.get("regime", "T"), family=kw.get("family", "-"))
        res.sample({"kind": kind, "kw": {k: (v if k not in ("edges", "nodes") else str(v)[:120]) for k, v in jkw.items()}})
        try:
            if kind == "area-unit":
                (xs, ys), = kw["edges"]
                got = Fr(float(area_call(kw["edges"])))
                spec = green_exact(xs, ys)
                st, model = replies[mi]
                if st != "ok" or model != spec:
                    res.mismatch("model-vs-spec:area", rc, str(model), str(spec))
                if kw["regime"] == "E":
                    if got != spec:
                        res.mismatch("compute_area", rc, str(got), str(model), "E regime")
                        res.failure("area-wrong", "compute_area of one degree-%d edge: %s, exact Green integral %s" % (len(xs) - 1, got, spec), rc)
                elif abs(got - spec) > 64 * U * green_abs(xs, ys):
                    res.mismatch("compute_area", rc, str(got), str(model), "T regime")
                    res.failure("area-wrong", "compute_area of one degree-%d edge: %s vs %s" % (len(xs) - 1, float(got), float(spec)), rc)
            elif kind == "area-raises":
                st, model = replies[mi]
                if st != "err":
                    res.mismatch("model:area-raises", rc, st, "err")
                try:
                    area_call(kw["edges"])
                    res.failure("area-unsupported-not-raised", "compute_area with an edge of degree >= 5 returned normally", rc)
                except HH.UnsupportedDegree:
                    pass
            elif kind == "polygon":
                edges = kw["edges"]
                spec = sum(green_exact(e[0], e[1]) for e in edges)
                scale = sum(green_abs(e[0], e[1]) for e in edges)
                st, model = replies[mi]
                if st != "ok" or model != spec:
                    res.mismatch("model-vs-spec:polygon", rc, str(model), str(spec))
                got = Fr(float(area_call(edges)))
                if abs(got - spec) > 64 * U * scale:
                    res.mismatch("compute_area", rc, str(got), str(model))
                    res.failure("area-wrong", "compute_area of a closed chain: %s vs exact %s" % (float(got), float(spec)), rc)
                curves = [bezier.Curve(C.farr(e), len(e[0]) - 1) for e in edges]
                poly = bezier.CurvedPolygon(*curves)
                got2 = Fr(float(poly.area))
                if abs(got2 - spec) > 64 * U * scale:
                    res.failure("curved-polygon-area-wrong", "CurvedPolygon.area %s vs exact %s" % (float(got2), float(spec)), rc)
                # subdivide every edge (exactly, data are dyadic) / elevate every edge: area unchanged
                sub = []
                for e in edges:
                    l = [X.specialize_exact(r, Fr(0), Fr(1, 2)) for r in e]
                    r_ = [X.specialize_exact(r, Fr(1, 2), Fr(1)) for r in e]
                    sub += [l, r_]
                el = [[X.elevate_exact(r) for r in e] if len(e[0]) <= 4 else e for e in edges]
                for name, es in (("subdivided", sub), ("elevated", el)):
                    if all(C.is_exact_float(x) for e in es for r in e for x in r) or True:
                        g = Fr(float(area_call([[[Fr(float(x)) for x in r] for r in e] for e in es])))
                        if abs(g - spec) > 256 * U * scale:
                            res.failure("area-not-invariant:" + name, "area after the edges are %s: %s vs %s" % (name, float(g), float(spec)), rc)
            elif kind == "triangle-area":
                nodes, d = kw["nodes"], kw["d"]
                tri = bezier.Triangle(C.farr(nodes), d)
                got = Fr(float(tri.area))
                px, py = tri_to_power2(nodes[0], d), tri_to_power2(nodes[1], d)
                det = p2_sub(p2_mul(p2_ds(px), p2_dt(py)), p2_mul(p2_dt(px), p2_ds(py)))
                spec = p2_int_triangle(det)
                green = sum(green_exact(e[0], e[1]) for e in zip(*[list(x) for x in zip(*[tri_edges([r], d) for r in nodes])])) if False else None
                e1, e2, e3 = tri_edges(nodes, d)
                gsum = green_exact(e1[0], e1[1]) + green_exact(e2[0], e2[1]) + green_exact(e3[0], e3[1])
                if gsum != spec:
                    res.mismatch("spec:green-vs-detJ", rc, str(gsum), str(spec), "Green's theorem (exact)")
                scale = sum(green_abs(e[0], e[1]) for e in (e1, e2, e3))
                if abs(got - spec) > 64 * U * scale:
                    res.failure("triangle-area-wrong", "Triangle.area degree %d: %s vs exact integral of det J %s" % (d, float(got), float(spec)), rc)
            elif kind == "triangle-area-raises":
                tri = bezier.Triangle(C.farr(kw["nodes"]), kw["d"])
                try:
                    tri.area
                    res.failure("area-unsupported-not-raised", "Triangle.area of degree 5 returned normally", rc)
                except HH.UnsupportedDegree:
                    pass
            elif kind == "length":
                nodes = kw["nodes"]
                nn = len(nodes[0])
                arr = C.farr(nodes)
                st, closed = replies[mi[0]]
                if nn >= 3 and cfg == "pure" and not have_scipy:
                    res.skip("pure compute_length needs SciPy (absent in this interpreter)")
                    continue
                got = float(CH.compute_length(arr))
                if nn >= 2:
                    crv = bezier.Curve(arr, nn - 1)
                    got_api = float(crv.length)
                    if got_api != got:
                        res.failure("length-api-differs", "Curve.length %r != compute_length %r" % (got_api, got), rc)
                if st == "ok" and closed:
                    spec = math.sqrt(float(closed[0]))
                    if abs(got - spec) > 8 * float(U) * spec:
                        res.mismatch("compute_length", rc, got, spec, "closed form")
                        res.failure("length-wrong:closed-form", "compute_length with %d node(s): %r vs %r" % (nn, got, spec), rc)
                    continue
                # integrand correspondence (pure Python exposes vec_size)
                stq, isq = replies[mi[1]]
                from bezier.hazmat import curve_helpers as H
                fd = (nn - 1) * (arr[:, 1:] - arr[:, :-1])
                vs = float(H.vec_size(np.asfortranarray(fd), 0.375))
                fd_exact = [[(nn - 1) * (Fr(float(r[j + 1])) - Fr(float(r[j]))) for j in range(nn - 1)] for r in arr.tolist()]
                if abs(vs * vs - float(isq)) > 64 * (3 * nn + 6) * float(U) * float(sum(X.bern_abs(r, Fr(3, 8)) ** 2 for r in fd_exact) + 1e-300):
                    res.mismatch("vec_size", rc, vs * vs, float(isq), "squared integrand at s=3/8")
                ref, err = ref_length(arr)
                if err > 2.0 ** -30 * ref:
                    res.skip("reference quadrature not converged (family %s)" % kw["family"])
                    continue
                chord = float(np.linalg.norm(arr[:, -1] - arr[:, 0]))
                polygon = float(np.sum(np.linalg.norm(arr[:, 1:] - arr[:, :-1], axis=0)))
                if abs(got - ref) > 2.0 ** -24 * ref + err:
                    res.failure("length-wrong", "compute_length degree %d (%s): %r vs reference %r (rel %.3e)" %
                                (nn - 1, kw["family"], got, ref, abs(got - ref) / ref), rc)
                if got < chord * (1 - 2.0 ** -24) or got > polygon * (1 + 2.0 ** -24):
                    res.failure("length-outside-bounds", "length %r not in [chord %r, polygon %r]" % (got, chord, polygon), rc)
                left, right = CH.subdivide_nodes(arr)
                parts = float(CH.compute_length(left)) + float(CH.compute_length(right))
                if abs(parts - got) > 2.0 ** -23 * got:
                    res.failure("length-not-additive", "length %r vs sum of halves %r" % (got, parts), rc)
                # lengths of DERIVED objects of a curve whose length has already been read: specialisations to unit-width and
                # other intervals (inside, outside, reversed), copies and elevations; each against the length computed from
                # the derived object's own control net and against chord <= length <= control polygon
                if nn <= 6:
                    crv = bezier.Curve(arr, nn - 1)
                    _ = crv.length
                    for a_, b_ in ((-0.25, 0.75), (0.5, 1.5), (1.0, 0.0), (0.0, 1.0), (0.25, 0.75), (0.25, 1.25)):
                        piece = crv.specialize(a_, b_)
                        for lab, obj in (("specialize(%s, %s)" % (a_, b_), piece), ("specialize(%s, %s).elevate()" % (a_, b_), piece.elevate()),
                                         ("specialize(%s, %s).copy()" % (a_, b_), piece.copy())):
                            pn = np.asfortranarray(np.asarray(obj.nodes))
                            own = float(CH.compute_length(pn))
                            got_d = float(obj.length)
                            pchord = float(np.linalg.norm(pn[:, -1] - pn[:, 0]))
                            ppoly = float(np.sum(np.linalg.norm(pn[:, 1:] - pn[:, :-1], axis=0)))
                            if abs(got_d - own) > 2.0 ** -22 * max(own, 2.0 ** -20) or got_d < pchord * (1 - 2.0 ** -22) or got_d > ppoly * (1 + 2.0 ** -22):
                                res.failure("length-wrong:derived-object", "Curve.length of %s of a degree-%d curve whose length had been read: %r; "
                                            "computed from its own control net %r, chord %r, control polygon %r" %
                                            (lab, nn - 1, got_d, own, pchord, ppoly), rc)
                                break
        except Exception as exc:  # noqa
            res.failure("raised:%s:%s" % (kind, type(exc).__name__), "%s raised %r" % (kind, exc), rc)
    res.emit()
    if rep:
        bad = bool(res.failures)
        print("replay: " + ("property fails on this input: " + res.failures[0]["what"] if bad else "property holds on this input"))
        sys.exit(1 if bad else 0)


main()
