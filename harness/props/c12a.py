"""C12 (length, ADAPTIVE quadrature) — `Curve.length` against the Lean model of QUADPACK's `dqagse`
(bisection loop, `dqpsrt`, `dqelg`; lean/BezierVerif/Model/QuadratureAdaptive.lean).

impl   : `Curve.length` / `_curve_helpers.compute_length` (speedup: curve.f90 -> quadpack.f90 `dqagse`; pure:
         `scipy.integrate.quad` = QUADPACK `dqagse`, needs SciPy -> tooling interpreter) with the warning it issues
         (`error_val` of `compute_length`), and the SAME routine called directly to see its discrete outcome:
         speedup: `__quadpack_MOD_dqagse` of the compiled `_speedup` module through ctypes, integrand = the library's
         compiled `evaluate_multi` + Euclidean norm (what the closure `vec_size` of `compute_length` does);
         pure: `scipy.integrate.quad(partial(vec_size, first_deriv), 0, 1, full_output=1)` with the library's `vec_size`.
         Both give `last`, `alist`, `blist`, `rlist`, `elist`, `iord`, `neval`, `ier`, `abserr`.
model  : driver `agse_length` (Model.Quad.lengthAdaptive = dqagse on `lengthSpeed`), binary64-rounded Gauss-Kronrod
         tables, the literals extracted from quadpack.f90 (Generated/QuadpackAdaptive.lean), tolerances / limit of the
         configuration (curve.f90: SQRT_PREC, 50; SciPy defaults read at run time); `sqrt` and `x**1.5` answered by
         harness/quad_oracle.py (integer square roots, relative accuracy 2^-96).  `agse_poly` / `agse_poly_speed`
         for polynomial speeds (Pythagorean-hodograph curves: no sqrt oracle).
spec   : composite 20-point Gauss-Legendre rule on a mesh graded geometrically towards the minimum of the speed
         (resolves cusps and near-cusps), error self-estimated against the 10-point rule; polynomial speeds: exact integral.

Families
  smooth     generic smooth nets, degree 2..8, 2-D / 3-D
  cusp       hodograph (s - s0) * p(s) + eps * v with non-dyadic s0 and eps in {0, 2^-20 .. 2^-4}: |B'(s0)| = eps|v| -> many
             bisections around s0, extrapolation
  wiggly     degree 6..8 nets with alternating control points
  scale      smooth nets scaled by 2^+-k (absolute tolerance 2^-26 vs relative)
  ph         planar Pythagorean-hodograph curves (polynomial speed): model `agse_poly` (only x**1.5 external) must
             agree with `agse_length` on the net (exact sqrt by the oracle is within 2^-96) and with the exact integral

  extern:*   the quadrature routine ALONE on integrands supplied by this script (op `agse_extern`: the integrand itself
             is the oracle, answered in exact rationals; the implementation gets the correctly rounded value through a
             callback): Lorentz peaks, step functions (discontinuity at a non-dyadic point: many bisections, round-off
             detection, `limit` reached), kinks, oscillating polynomials with 10..24 roots in [0,1] (ksgn = -1),
             other intervals incl. b < a, `limit` = 1 / 3 / 14 / 50, invalid tolerances (ier = 6), tolerance at round-off
             level; compared: last, ier, neval, alist, blist (robust paths), result

Checks
  robustness     the model is run three times: exact oracle and two oracles perturbed by relative 2^-47 resp. 2^-52
                 (deterministic hash of the key) — ~64 ulp and ~2 ulp of integrand noise, the second one at the level of
                 the implementation's own rounding (dqelg's "equal to machine accuracy" tests react to that level and
                 to nothing coarser or finer).  Only when the three runs have the same
                 discrete path (last, ier, interval lists, number of dqelg calls, sum-or-extrapolation) the discrete
                 outcome of the implementation is compared (`path:robust`); otherwise the case counts as `path:fragile`
                 and only the values are compared, with the quadrature's own error estimate as allowance.
                 A second source of noise cannot be produced through the oracles: the binary64 accumulation of `area`
                 (absolute u*|area| in every entry of the epsilon table, amplified by `dqelg`).  `quad_oracle.elg_fragile`
                 repeats the last `dqelg` call of the model run with the table perturbed by +-2^-52*|area| (driver op
                 `dqelg`); if the acceptance test flips or the extrapolated value moves by more than its own error
                 estimate the case is `dqelg-ill-conditioned` = fragile (seen on step functions, whose exact areas the
                 epsilon algorithm extrapolates exactly, which no rounded computation can follow).
  impl vs model  robust: last, neval, ier, alist, blist identical; |result_impl - result_model| <= C*u*S*last,
                 u = 2^-53, S = max_j ||first_deriv_j|| (bounds the speed), last = number of panels,
                 (extern: C*S replaced by 4*(30*int|f| + int|x f'|): the rule and the rounded abscissae)
                 C = 4*(5N + d + 25) per panel as in props/c12q.py (abscissa rounding * Lipschitz constant of the
                 speed, evaluate_multi, norm2, the 21-term rule; each panel of length h_i contributes C*u*S*h_i, the
                 h_i sum to 1) + last roundings of size u*length in the running sums `area`, `result` — together
                 <= C*u*S*(1 + last/C) <= C*u*S*last; an extrapolated result (dqelg) differs from `area` by a
                 correction built from differences of areas: allowance * 8.  Measured ratios are reported
                 (`ratio_max`).  fragile: |impl - model| <= 2*(abserr_impl + abserr_model) + that tolerance.
                 `Curve.length` == `compute_length`; instrumented call == `compute_length` within 4u*length.
  model vs spec  |model - reference| <= 2^-24 * length + reference error (the accuracy c12.py demands of the code)
  impl vs spec   the same for the implementation: failure `length-inaccurate:<family>`
"""
import sys
import math
import warnings
import functools
from math import comb
import numpy as np
from fractions import Fraction as Fr
import common as C
import exact as X
import gen as G
import quad_oracle as QO

U = 2.0 ** -53
GL20 = np.polynomial.legendre.leggauss(20)
GL10 = np.polynomial.legendre.leggauss(10)


def power_to_bern(a, n):
    return [sum(Fr(comb(j, k), comb(n, k)) * a[k] for k in range(min(j, len(a) - 1) + 1)) for j in range(n + 1)]


def poly_integrate(p, c0=0):
    return [Fr(c0)] + [Fr(a) / (i + 1) for i, a in enumerate(p)]


def net_from_derivs(derivs, starts):
    n = max(len(d) for d in derivs)
    return [power_to_bern(poly_integrate(d, c0), n) for d, c0 in zip(derivs, starts)]


def to_float_net(rows):
    return [[Fr(float(x)) for x in r] for r in rows]


def first_deriv(rows):
    n = len(rows[0])
    return [[(n - 1) * (r[j + 1] - r[j]) for j in range(n - 1)] for r in rows]


def speed_scale(rows):
    fd = first_deriv(rows)
    return max(math.sqrt(sum(float(r[j]) ** 2 for r in fd)) for j in range(len(fd[0])))


def reference_length(rows):
    """(value, error estimate): graded composite Gauss-Legendre in binary64 on the power-basis hodograph"""
    fd = first_deriv(rows)
    pw = [np.array([float(c) for c in X.bern_to_power(r)][::-1]) for r in fd]

    def speed(s):
        return np.sqrt(sum(np.polyval(p, s) ** 2 for p in pw))
    grid = np.linspace(0.0, 1.0, 4097)
    v = speed(grid)
    i = int(np.argmin(v))
    lo, hi = grid[max(i - 1, 0)], grid[min(i + 1, 4096)]
    for _ in range(60):
        m1, m2 = lo + (hi - lo) / 3, hi - (hi - lo) / 3
        if speed(np.array([m1]))[0] < speed(np.array([m2]))[0]:
            hi = m2
        else:
            lo = m1
    s0 = 0.5 * (lo + hi)
    edges = {0.0, 1.0, s0}
    for k in range(1, 46):
        for e in (s0 - 2.0 ** -k, s0 + 2.0 ** -k):
            if 0.0 < e < 1.0:
                edges.add(e)
    for k in range(1, 8):
        edges.add(k / 8.0)
    edges = sorted(edges)
    tot20 = tot10 = 0.0
    for a, b in zip(edges[:-1], edges[1:]):
        c, h = 0.5 * (a + b), 0.5 * (b - a)
        tot20 += h * float(np.dot(GL20[1], speed(c + h * GL20[0])))
        tot10 += h * float(np.dot(GL10[1], speed(c + h * GL10[0])))
    return tot20, abs(tot20 - tot10) + 64 * U * tot20


SCIPY_MSG = (("maximum number of subdivisions", 1), ("roundoff error is detected", 2), ("bad integrand", 3),
             ("does not converge", 4), ("divergent", 5), ("input is invalid", 6))
SPEEDUP_MSG = (("Maximum number of subdivisions", 1), ("Roundoff error detected", 2), ('"extremely"', 3),
               ("tolerance cannot be achieved", 4), ("divergent", 5), ("Invalid input", 6))


def ier_of_warnings(ws, table):
    out = 0
    for w in ws:
        msg = str(w.message)
        for key, code in table:
            if key in msg:
                out = code
    return out


def main():
    bezier = C.import_bezier()
    from bezier import _curve_helpers as CH
    rnd, seed = C.rng()
    thorough = C.tier() == "thorough"
    search = bool(int(__import__("os").environ.get("VERIF_SEARCH", "0") or 0))
    cfg = C.config_name()
    res = C.Result("C12")
    rep = C.replay_case()
    g = QO.generated()
    need = ["qp_wg_b64", "qp_wgk_b64", "qp_xgk_b64", "qpa_oflow"] + ["qpa_" + k for k in QO.REALS + QO.NATS]
    if any(k not in g for k in need):
        res.mismatch("extract_quadpack_adaptive", {}, None, None, "items missing in Generated/Quadpack*.lean: %s" %
                     [k for k in need if k not in g])
        res.emit()
        return
    TB = QO.tables_b64(g)
    # ------------------------------------------------------------ configuration: tolerances, direct access to dqagse
    scipy_quad = None
    if cfg == "pure":
        try:
            import inspect
            import scipy.integrate
            scipy_quad = scipy.integrate.quad
            sig = inspect.signature(scipy_quad).parameters
            epsabs, epsrel, limit = Fr(float(sig["epsabs"].default)), Fr(float(sig["epsrel"].default)), int(sig["limit"].default)
        except Exception:  # noqa
            res.skip("pure compute_length needs SciPy (absent in this interpreter)")
            res.emit()
            return
        from bezier.hazmat import curve_helpers as HZ
    else:
        epsabs, epsrel, limit = g.get("qp_length_epsabs", Fr(1, 2 ** 26)), g.get("qp_length_epsrel", Fr(1, 2 ** 26)), \
            g.get("qp_length_limit", 50)
    setup = QO.setup(epsabs, epsrel, limit, g)
    thr = C.generated("py_curve_vs_threshold" if cfg == "pure" else "f90_curve_vs_threshold", 55)

    fortran_dqagse = None
    if cfg == "speedup":
        try:
            import ctypes
            from bezier import _speedup
            lib = ctypes.CDLL(_speedup.__file__)
            fortran_dqagse = lib.__quadpack_MOD_dqagse
            fortran_dqagse.restype = None
            CB = ctypes.CFUNCTYPE(ctypes.c_double, ctypes.POINTER(ctypes.c_double))
        except Exception:  # noqa  (symbol not exported by this build: the discrete outcome is then not observable)
            fortran_dqagse = None

    def direct_quad(f, a_, b_, ea_, er_, lim_):
        """the library's dqagse on a Python integrand: dict(result, abserr, neval, ier, last, alist, blist, rlist, elist, iord)"""
        if cfg == "pure":
            with warnings.catch_warnings(record=True):
                warnings.simplefilter("always")
                try:
                    out = scipy_quad(f, a_, b_, full_output=1, epsabs=ea_, epsrel=er_, limit=lim_)
                except ValueError:
                    return "rejected"                # SciPy's wrapper rejects the arguments itself
            info = out[2]
            last = int(info["last"])
            ier = 0
            if len(out) > 3:
                ier = ier_of_warnings([type("W", (), {"message": out[3]})()], SCIPY_MSG)
            return {"result": float(out[0]), "abserr": float(out[1]), "neval": int(info["neval"]), "ier": ier, "last": last,
                    "alist": [float(x) for x in info["alist"][:last]], "blist": [float(x) for x in info["blist"][:last]],
                    "rlist": [float(x) for x in info["rlist"][:last]], "elist": [float(x) for x in info["elist"][:last]],
                    "iord": [int(x) + 1 for x in info["iord"][:last]]}
        if fortran_dqagse is None:
            return None
        import ctypes
        d, i = ctypes.c_double, ctypes.c_int
        cb = CB(lambda p: f(p[0]))
        a, b, ea, er = d(a_), d(b_), d(ea_), d(er_)
        lim, r, ae, ne, ie, la = i(lim_), d(), d(), i(), i(), i()
        al, bl, rl, el, io = (d * lim_)(), (d * lim_)(), (d * lim_)(), (d * lim_)(), (i * lim_)()
        fortran_dqagse(cb, ctypes.byref(a), ctypes.byref(b), ctypes.byref(ea), ctypes.byref(er), ctypes.byref(lim),
                       ctypes.byref(r), ctypes.byref(ae), ctypes.byref(ne), ctypes.byref(ie), al, bl, rl, el, io,
                       ctypes.byref(la))
        last = la.value
        return {"result": r.value, "abserr": ae.value, "neval": ne.value, "ier": ie.value, "last": last,
                "alist": list(al)[:last], "blist": list(bl)[:last], "rlist": list(rl)[:last], "elist": list(el)[:last],
                "iord": list(io)[:last]}

    def direct(arr):
        """the library's dqagse on the library's integrand"""
        n = arr.shape[1]
        fd = np.asfortranarray((n - 1) * (arr[:, 1:] - arr[:, :-1]))
        if cfg == "pure":
            return direct_quad(functools.partial(HZ.vec_size, fd), 0.0, 1.0, float(epsabs), float(epsrel), limit)

        def f(x):
            ev = CH.evaluate_multi(fd, np.asfortranarray([x]))
            return float(np.linalg.norm(ev[:, 0], ord=2))
        return direct_quad(f, 0.0, 1.0, float(epsabs), float(epsrel), limit)

    # ------------------------------------------------------------ cases
    cases = []

    def add(family, nodes, **kw):
        cases.append(dict(family=family, nodes=to_float_net(nodes), **kw))

    mult = (5 if thorough else 1) * (2 if search else 1)
    if rep:
        add(rep["family"], [[Fr(x) for x in r] for r in rep["nodes"]],
            speed=[Fr(x) for x in rep["speed"]] if rep.get("speed") else None)
    else:
        for N in range(3, 10):
            for dim in (2, 3):
                for _ in range(mult):
                    add("smooth", C.to_fr(G.smooth_float_net(rnd, dim, N)))
        # near-cusp: B'(s) = (s - s0) p(s) + eps v
        for k, eps_e in enumerate([None, 20, 14, 10, 7, 4] * mult):
            dim = 2 + (k % 2)
            deg = rnd.randint(1, 3)
            s0 = Fr(rnd.choice([1, 2, 3, 4, 5, 7]), rnd.choice([9, 11, 13])) if k % 3 else Fr(rnd.uniform(0.2, 0.8))
            eps = Fr(0) if eps_e is None else Fr(1, 2 ** eps_e)
            derivs = []
            for _ in range(dim):
                p = [Fr(rnd.randint(-4, 4)) for _ in range(deg)] + [Fr(rnd.choice([-3, -2, 2, 3]))]
                d = X.poly_mul([-s0, Fr(1)], p)
                d[0] += eps * rnd.choice([-2, -1, 1, 2])
                derivs.append(d)
            add("cusp", net_from_derivs(derivs, [Fr(rnd.randint(-2, 2)) for _ in range(dim)]), eps=eps_e)
        # wiggly
        for N in (7, 8, 9) * mult:
            for dim in (2, 3):
                amp = rnd.uniform(1.0, 4.0)
                rows = [[Fr(j / (N - 1) + rnd.uniform(-0.05, 0.05)) for j in range(N)]]
                for _ in range(dim - 1):
                    rows.append([Fr(amp * (-1) ** j + rnd.uniform(-0.3, 0.3)) for j in range(N)])
                add("wiggly", rows)
        # long / short
        for k in [-30, -18, -8, 8, 18, 30] * mult:
            N, dim = rnd.randint(3, 9), rnd.choice([2, 3])
            base = C.to_fr(G.smooth_float_net(rnd, dim, N))
            add("scale", [[x * Fr(2) ** k for x in r] for r in base], scale=k)
        # polynomial speed (Pythagorean hodograph): x' = u^2 - v^2, y' = 2uv
        for _ in range(4 * mult):
            du, dv = rnd.randint(1, 3), rnd.randint(1, 3)
            u = [Fr(rnd.randint(-3, 3)) for _ in range(du)] + [Fr(rnd.choice([-2, -1, 1, 2]))]
            v = [Fr(rnd.randint(-3, 3)) for _ in range(dv)] + [Fr(rnd.choice([-2, -1, 1, 2]))]
            uu, vv, uv = X.poly_mul(u, u), X.poly_mul(v, v), X.poly_mul(u, v)
            dx = X.poly_add(uu, X.poly_scale(vv, Fr(-1)))
            dy = X.poly_scale(uv, Fr(2))
            rows = net_from_derivs([dx, dy], [Fr(rnd.randint(-2, 2)), Fr(rnd.randint(-2, 2))])
            L = 1
            for r in rows:
                for x in r:
                    L = L * x.denominator // math.gcd(L, x.denominator)
            rows = [[x * L for x in r] for r in rows]
            if all(Fr(float(x)) == x for r in rows for x in r):
                add("ph", rows, speed=X.poly_scale(X.poly_add(uu, vv), Fr(L)))

    # ------------------------------------------------------------ external integrands (the quadrature routine alone)
    ext = []

    def add_ext(kind, fun, a_, b_, ea_, er_, lim_, iabs, ixfp, **kw):
        """iabs >= int |f|, ixfp >= int |x f'(x)| over the interval (condition scales of the rounding analysis)"""
        ext.append(dict(kind=kind, fun=fun, a=Fr(a_), b=Fr(b_), ea=Fr(ea_), er=Fr(er_), limit=int(lim_), iabs=float(iabs),
                        ixfp=float(ixfp), **kw))

    def peak(c, dl):
        return lambda x: 1 / ((x - c) ** 2 + dl * dl)

    def step(c, lo, hi):
        return lambda x: Fr(lo) if x < c else Fr(hi)

    def kink(c, sl):
        return lambda x: abs(x - c) * sl + 1

    def rootpoly(roots, sc):
        def f(x):
            v = Fr(sc)
            for r in roots:
                v *= (x - r)
            return v
        return f

    if not rep:
        P26 = Fr(1, 2 ** 26)
        for _ in range(mult):
            c = Fr(rnd.randint(2, 8), 11)
            dl = Fr(1, 2 ** rnd.randint(4, 7))
            fm = float(1 / dl ** 2)
            add_ext("peak", peak(c, dl), 0, 1, P26, P26, 50, math.pi / float(dl), 2 * fm, c=str(c), dl=str(dl))
            add_ext("peak", peak(c, dl), -3, 5, 0, Fr(1, 2 ** 34), 50, math.pi / float(dl), 10 * fm, c=str(c), dl=str(dl))
            c = Fr(rnd.randint(1, 12), 13)
            add_ext("step", step(c, 1, 2), 0, 1, P26, P26, 14, 2, 0, c=str(c))
            add_ext("step", step(c, -1, 3), 0, 1, Fr(1, 2 ** 10), 0, 50, 3, 0, c=str(c))
            add_ext("step", step(c, 1, 2), 0, 1, 0, Fr(1, 2 ** 40), 50, 2, 0, c=str(c))          # extrapolation on exact data
            add_ext("kink", kink(c, 5), 0, 1, P26, P26, 50, 6, 5, c=str(c))
            if cfg != "pure":                       # SciPy's wrapper swaps the limits itself when b < a
                add_ext("kink", kink(c, 5), 2, -1, P26, P26, 50, 48, 30, c=str(c))                  # b < a
            deg = rnd.randint(10, 24)
            roots = [Fr(rnd.randint(1, 62), 63) for _ in range(deg)]
            fm = 2.0 ** (2 * deg) * 0.25 ** (deg // 2)
            add_ext("oscillating", rootpoly(roots, 2 ** (2 * deg)), 0, 1, P26, P26, 50, fm, 2.0 ** (2 * deg) * deg,
                    roots=[str(r) for r in roots])
            add_ext("oscillating", rootpoly(roots[:8], 2 ** 12), 0, 1, P26, P26, 3, 2.0 ** 12, 2.0 ** 15, roots=[str(r) for r in roots[:8]])
            add_ext("smooth-fn", peak(Fr(1, 3), Fr(2)), 0, 1, P26, P26, 1, 1, 1)                    # limit = 1
            add_ext("smooth-fn", peak(Fr(1, 3), Fr(2)), 0, 1, 0, 0, 50, 1, 1)                      # invalid tolerances: ier = 6
            add_ext("smooth-fn", peak(Fr(1, 3), Fr(1, 4)), 0, 1, 0, Fr(1, 2 ** 46), 50, 16, 64)   # tolerance at round-off level
            # nearly divergent: 1/(x^2 + 2^-60) -> ier = 5;  cancellation (x - 1/2) 2^20 + 1 with epsrel 2^-46 -> ier = 2 at once
            add_ext("divergent", peak(Fr(0), Fr(1, 2 ** 30)), 0, 1, P26, P26, 50, math.pi * 2.0 ** 29, math.pi * 2.0 ** 30)
            add_ext("cancelling", lambda x: (x - Fr(1, 2)) * 2 ** 20 + 1, 0, 1, 0, Fr(1, 2 ** 46), 50, 2.0 ** 18, 2.0 ** 20)
            if thorough:
                add_ext("log-like", lambda x: 1 / (x + Fr(1, 2 ** 40)), 0, 1, P26, P26, 50, 28.0, 1.0)      # 39 panels

    # ------------------------------------------------------------ model: exact oracle and two perturbed ones
    nets = [c["nodes"] for c in cases]
    runs = [QO.run_lengths(TB, setup, thr, nets, oracle=orc)
            for orc in (QO.exact_oracle, QO.perturbed("c12a-1", 47), QO.perturbed("c12a-2", 52))]
    elg_bad = QO.elg_fragile([setup] * len(cases), runs[0], seed=seed)
    ph = [(i, c) for i, c in enumerate(cases) if c.get("speed")]
    poly_runs = dict(zip([i for i, _ in ph], QO.run_polys(TB, setup, [(c["speed"], 0, 1) for _, c in ph]))) if ph else {}

    ratio_max = res.dist.setdefault("ratio_max", {})
    agree = res.dist.setdefault("agreement", {})

    def bump(key):
        agree[key] = agree.get(key, 0) + 1

    for idx, c in enumerate(cases):
        nodes, fam = c["nodes"], c["family"]
        N, dim = len(nodes[0]), len(nodes)
        rc = {"family": fam, "nodes": C.jfr(nodes), "speed": C.jfr(c["speed"]) if c.get("speed") else None}
        try:
            m, m1, m2 = runs[0][idx], runs[1][idx], runs[2][idx]
            if m.status != "ok":
                res.mismatch("agse_length", rc, None, m.err or m.status, "model did not return a quadrature run")
                continue
            arr = C.farr(nodes)
            with warnings.catch_warnings(record=True) as ws:
                warnings.simplefilter("always")
                got = float(CH.compute_length(arr))
            ier_impl = ier_of_warnings(ws, SCIPY_MSG if cfg == "pure" else SPEEDUP_MSG)
            with warnings.catch_warnings(record=True):
                warnings.simplefilter("always")
                got_api = float(bezier.Curve(arr, N - 1).length)
            if got_api != got:
                res.failure("length-api-differs", "Curve.length %r != compute_length %r" % (got_api, got), rc)
            S = speed_scale(nodes)
            robust = m.path() == m1.path() == m2.path() and not elg_bad[idx]
            extrap = bool(m.info[7])
            if elg_bad[idx]:
                bump("dqelg-ill-conditioned")
            res.count((fam, repr(nodes)), nontrivial=m.last > 1, family=fam, nodes=N, dim=dim,
                      panels=("1" if m.last == 1 else "2-4" if m.last <= 4 else "5-12" if m.last <= 12 else "13+"),
                      path="robust" if robust else "fragile", result="extrapolated" if extrap else "sum",
                      dqelg_calls=min(int(m.info[1]), 9), ier=m.ier)
            Cc = 4 * (5 * N + dim + 25)
            tol = Cc * U * S * m.last * (8 if extrap else 1)
            model = float(m.result)
            diff = abs(Fr(got) - m.result)
            # ---- the same routine, called directly
            dr = direct(arr)
            if dr is not None:
                if abs(dr["result"] - got) > 4 * U * abs(got) + (0.0 if cfg == "pure" else tol):
                    res.mismatch("dqagse-direct", rc, dr["result"], got,
                                 "dqagse called directly on the library's integrand != compute_length")
                if dr["neval"] != 42 * dr["last"] - 21 and dr["ier"] != 6:
                    res.failure("neval-formula", "neval %d, last %d" % (dr["neval"], dr["last"]), rc)
                if dr["ier"] != ier_impl:
                    res.mismatch("compute_length-warning", rc, ier_impl, dr["ier"], "warning of compute_length vs ier of dqagse")
            # ---- impl vs model
            if robust:
                bump("robust")
                if float(diff) > tol:
                    res.mismatch("compute_length", rc, got, model, "robust path, last=%d%s: |impl - model| = %.3e > %.3e"
                                 % (m.last, " (extrapolated)" if extrap else "", float(diff), tol))
                else:
                    bump("robust:value-agrees")
                ratio_max[fam] = max(ratio_max.get(fam, 0.0), float(diff) / (Cc * U * S * m.last) if S else 0.0)
                if ier_impl != m.ier:
                    res.mismatch("compute_length-ier", rc, ier_impl, m.ier, "error code (warning) of the implementation vs model")
                if dr is not None:
                    same = (dr["last"] == m.last and dr["ier"] == m.ier and dr["neval"] == m.neval
                            and [Fr(x) for x in dr["alist"]] == list(m.alist) and [Fr(x) for x in dr["blist"]] == list(m.blist))
                    if not same:
                        res.mismatch("dqagse-path", rc, [dr["last"], dr["ier"], dr["neval"], dr["alist"]],
                                     [m.last, m.ier, m.neval, [float(x) for x in m.alist]],
                                     "robust path but the implementation bisects differently")
                    else:
                        bump("robust:path-identical")
                        k_sorted = m.last if m.last <= limit // 2 + 2 else limit + 1 - m.last
                        if dr["iord"][:k_sorted] == m.iord[:k_sorted]:
                            bump("robust:iord-identical")
                        worst = max([abs(Fr(x) - y) for x, y in zip(dr["rlist"], m.rlist)] + [Fr(0)])
                        if float(worst) > Cc * U * S:
                            res.mismatch("dqagse-rlist", rc, dr["rlist"], [float(x) for x in m.rlist],
                                         "panel integrals differ by %.3e > %.3e" % (float(worst), Cc * U * S))
                        ae, am = dr["abserr"], float(m.abserr)
                        if abs(ae - am) <= 0.05 * max(ae, am) + 64 * Cc * U * S:
                            bump("robust:abserr-close")
            else:
                bump("fragile")
                allow = 2 * (float(m.abserr) + (dr["abserr"] if dr else float(m.abserr))) + tol
                if float(diff) > allow:
                    res.mismatch("compute_length", rc, got, model, "fragile path: |impl - model| = %.3e > %.3e" % (float(diff), allow))
                else:
                    bump("fragile:value-agrees")
                if dr is not None and dr["last"] == m.last and [Fr(x) for x in dr["alist"]] == list(m.alist):
                    bump("fragile:path-identical")
            # ---- polynomial speed: the model without the sqrt oracle, and the exact integral
            if c.get("speed"):
                pr = poly_runs[idx]
                spec = X.poly_int01(c["speed"])
                if pr.status != "ok" or pr.last != m.last or abs(pr.result - m.result) > Fr(1, 2 ** 80) * abs(spec):
                    res.mismatch("agse_poly", rc, str(pr.result) if pr.status == "ok" else pr.status, str(m.result),
                                 "model on the speed polynomial != model on the net")
                if abs(m.result - spec) > Fr(1, 2 ** 50) * abs(spec):
                    res.mismatch("agse_length", rc, float(m.result), float(spec), "polynomial speed: model != exact integral")
                if abs(Fr(got) - spec) > Fr(tol) + Fr(1, 2 ** 50) * abs(spec):
                    res.failure("length-wrong:poly-speed:adaptive", "%r vs exact %r" % (got, float(spec)), rc)
                bump("ph:exact")
            else:
                ref, ref_err = reference_length(nodes)
                acc = 2.0 ** -24 * max(ref, float(epsabs)) + ref_err
                if abs(model - ref) > acc and not (ref < 2.0 ** -4 and abs(model - ref) <= 4 * float(epsabs)):
                    res.mismatch("agse_length", rc, model, ref, "model vs graded Gauss-Legendre reference: %.3e > %.3e"
                                 % (abs(model - ref), acc))
                if abs(got - ref) > acc:
                    # class of the input: a curve much shorter than 1, where the ABSOLUTE tolerance epsabs = 2^-26 of the
                    # QUADPACK call is what is met (the relative accuracy degrades like 2^-26 / length)
                    small = ref < 2.0 ** -4 and abs(got - ref) <= 4 * float(epsabs)
                    res.failure("length-inaccurate:absolute-tolerance-regime" if small else "length-inaccurate:%s" % fam,
                                "%d nodes, dim %d: %r vs reference %r (+-%.1e)" % (N, dim, got, ref, ref_err), rc)
            res.sample({"family": fam, "nodes": N, "last": m.last, "ier": m.ier, "nres": int(m.info[1]), "robust": robust,
                        "extrapolated": extrap, "impl": got, "model": model, "diff_in_uS": float(diff) / (U * S) if S else 0.0,
                        "rounds": m.rounds, "oracle_keys": m.nkeys})
        except Exception as exc:  # noqa
            res.failure("raised:c12a:%s:%s" % (fam, type(exc).__name__), "%s raised %r" % (fam, exc), rc)
    # ------------------------------------------------------------ external integrands: impl (direct call) vs model
    if ext:
        items = [(QO.setup(e["ea"], e["er"], e["limit"], g), e["fun"], e["a"], e["b"]) for e in ext]
        eruns = [QO.run_extern(TB, items, salt=sl, bits=bt) for sl, bt in ((None, 0), ("c12a-e1", 47), ("c12a-e2", 52))]
        eelg_bad = QO.elg_fragile([it[0] for it in items], eruns[0], seed=seed)
        for j, e in enumerate(ext):
            rc = {"family": "extern:" + e["kind"], "extern": {k: (str(v) if isinstance(v, Fr) else v) for k, v in e.items() if k != "fun"}}
            try:
                m, m1, m2 = eruns[0][j], eruns[1][j], eruns[2][j]
                if m.status != "ok":
                    res.mismatch("agse_extern", rc, None, m.err or m.status, "model did not return a quadrature run")
                    continue
                fam = "extern:" + e["kind"]
                robust = m.path() == m1.path() == m2.path() and not eelg_bad[j]
                extrap = bool(m.info[7])
                if eelg_bad[j]:
                    bump("extern:dqelg-ill-conditioned")
                res.count((fam, repr(rc)), nontrivial=m.last > 1, family=fam,
                          panels=("0" if m.last == 0 else "1" if m.last == 1 else "2-4" if m.last <= 4 else "5-12" if m.last <= 12 else "13+"),
                          path="robust" if robust else "fragile", result="extrapolated" if extrap else "sum",
                          dqelg_calls=min(int(m.info[1]), 9), ier=m.ier, exit=int(m.info[0]))
                fun = e["fun"]
                dr = direct_quad(lambda x: float(fun(Fr(x))), float(e["a"]), float(e["b"]), float(e["ea"]), float(e["er"]), e["limit"])
                if dr == "rejected":
                    res.skip("scipy.integrate.quad rejects the arguments (ValueError) before calling QUADPACK")
                    continue
                if dr is None:
                    res.skip("direct access to dqagse not available in this build")
                    continue
                unit = (30 * e["iabs"] + e["ixfp"]) * U
                tol = 4 * unit * max(m.last, 1) * (8 if extrap else 1)
                diff = abs(Fr(dr["result"]) - m.result)
                if dr["neval"] != 42 * dr["last"] - 21 and dr["ier"] != 6:
                    res.failure("neval-formula", "neval %d, last %d" % (dr["neval"], dr["last"]), rc)
                if robust:
                    bump("extern:robust")
                    same = (dr["last"] == m.last and dr["ier"] == m.ier and dr["neval"] == m.neval
                            and [Fr(x) for x in dr["alist"]] == list(m.alist) and [Fr(x) for x in dr["blist"]] == list(m.blist))
                    if not same:
                        res.mismatch("dqagse-path", rc, [dr["last"], dr["ier"], dr["neval"], dr["alist"]],
                                     [m.last, m.ier, m.neval, [float(x) for x in m.alist]],
                                     "robust path but the implementation bisects differently / other ier")
                    else:
                        bump("extern:robust:path-identical")
                        k_sorted = m.last if m.last <= e["limit"] // 2 + 2 else e["limit"] + 1 - m.last
                        if dr["iord"][:k_sorted] == m.iord[:k_sorted]:
                            bump("extern:robust:iord-identical")
                        else:
                            res.notes.append("iord differs (%s): impl %s model %s elist %s" % (fam, dr["iord"], m.iord[:m.last],
                                     [float(x) for x in m.elist]))
                    if float(diff) > tol:
                        res.mismatch("dqagse-result", rc, dr["result"], float(m.result), "robust path, last=%d: |impl - model| = %.3e > %.3e"
                                     % (m.last, float(diff), tol))
                    else:
                        bump("extern:robust:value-agrees")
                    ratio_max[fam] = max(ratio_max.get(fam, 0.0), float(diff) / (4 * unit * max(m.last, 1)) if unit else 0.0)
                else:
                    bump("extern:fragile")
                    allow = 2 * (float(m.abserr) + dr["abserr"]) + tol
                    if float(diff) > allow:
                        res.mismatch("dqagse-result", rc, dr["result"], float(m.result), "fragile path: |impl - model| = %.3e > %.3e"
                                     % (float(diff), allow))
                    else:
                        bump("extern:fragile:value-agrees")
                    if dr["last"] == m.last and dr["ier"] == m.ier and [Fr(x) for x in dr["alist"]] == list(m.alist):
                        bump("extern:fragile:path-identical")
                res.sample({"family": fam, "last": m.last, "ier": m.ier, "impl_last": dr["last"], "impl_ier": dr["ier"], "nres": int(m.info[1]),
                            "robust": robust, "extrapolated": extrap, "impl": dr["result"], "model": float(m.result)}, cap=40)
            except Exception as exc:  # noqa
                res.failure("raised:c12a:extern:%s:%s" % (e["kind"], type(exc).__name__), "%s raised %r" % (e["kind"], exc), rc)
    res.emit()
    if rep:
        bad = bool(res.failures)
        print("replay: " + ("property fails on this input: " + res.failures[0]["what"] if bad else "property holds on this input"))
        sys.exit(1 if bad else 0)


if __name__ == "__main__":
    main()
