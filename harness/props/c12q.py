"""C12 (length, non-adaptive core) — `Curve.length` against the model of the first `dqk21` step.

impl  : `Curve.length` / `_curve_helpers.compute_length` (speedup: curve.f90 -> quadpack.f90 dqagse;
        pure: scipy.integrate.quad = QUADPACK dqagse, needs SciPy -> tooling interpreter)
model : driver `qk21_poly` (Model.Quad.qk21 on a polynomial integrand), `length_first_step`
        (Model.Quad.lengthFirstStep on the control net, exact rational square root),
        `qk21_samples` (qk21 on an integrand given by its 21 values), `qk21_moment_defects`,
        `qk21_table_checks`; the tables are the ones extracted from quadpack.f90
        (Generated/Quadpack.lean: decimal literals `qp_*` and their binary64 roundings `qp_*_b64`)
spec  : exact rational integral of the speed polynomial (`exact.poly_int01`), exact chord lengths,
        moments `sum w x^m` recomputed here in exact rationals.

Families
  line2      two nodes, Pythagorean differences (2-D / 3-D): closed-form branch, exact chord length
  line-elev  3..12 nodes equally spaced on a Pythagorean segment: constant speed through the quadrature
  line-poly  straight segment run through with polynomial speed (w(s)^2 + k) * |D|
  ph2 / ph3  Pythagorean-hodograph curves: x' = u^2 - v^2, y' = 2uv (plane), quaternion form in
             space, u, v (, p, q) small integer polynomials of degree <= 5 -> curve degree <= 11,
             scaled so that the control net is integral (exactly representable); speed = polynomial
  smooth /   generic smooth nets and gently bent segments (speed NOT polynomial): the 21 integrand
  gentle     values are computed here to 50 digits from the exact squared speed at the exact
             abscissae; impl is compared with the model's first step only when the acceptance
             test of dqagse after that step is clear-cut (error heuristic evaluated here in floats
             with a 50*u*S allowance on the raw error, factor 2 margin against errbnd); otherwise the
             case only feeds the distribution (the bisection loop is not modelled).  This family
             sees the actual weights and abscissae to double precision.

Checks
  model vs spec   |qk21_poly(speed) - int_0^1 speed| <= eps/2 * sum|q_k|  with the PROVEN residual
                  (eps = 10^-33 decimal tables, 2^-54 binary64 tables: Tables/C12Quad, C12.qk21_exact_on_polynomials);
                  length_first_step(net) == qk21_poly(speed) exactly; moments as recomputed here
  impl vs model   |impl - model(binary64 tables)| <= C*u*S,  u = 2^-53, S = max_j ||first_deriv_j||_2
                  (bounds the speed on [0,1]), C = 4*(5N + d + 25) for N nodes in dimension d:
                    abscissa centr -+ 0.5*xgk: one rounding, |delta| <= u, Lipschitz constant of the
                      speed <= ||B''|| <= 2(N-2) S                                   -> 2(N-2)
                    evaluate_multi (VS form) of the hodograph net, N-1 nodes         -> 3(N-1)+6
                    norm2: d squares, d-1 additions, one sqrt                        -> d+2
                    21 products/additions of the rule (weights sum to 2), *hlgth     -> 24
                  safety factor 4.  Any further bisection of a polynomial speed of degree <= 10 is
                  exact too, so the bound holds whether or not dqagse stops after the first step.
  impl vs spec    the property: |impl - exact length| <= C*u*S + eps-term   (failure `length-wrong:*`)
"""
import sys
import math
from math import comb, gcd, isqrt
import numpy as np
from fractions import Fraction as Fr
import common as C
import exact as X
import gen as G
from extract_quadpack import read_generated

PYTH2 = [(3, 4, 5), (5, 12, 13), (8, 15, 17), (7, 24, 25), (20, 21, 29), (12, 35, 37), (9, 40, 41), (28, 45, 53)]
PYTH3 = [(1, 2, 2, 3), (2, 3, 6, 7), (1, 4, 8, 9), (4, 4, 7, 9), (2, 6, 9, 11), (6, 6, 7, 11), (3, 4, 12, 13),
         (2, 10, 11, 15), (1, 12, 12, 17), (8, 9, 12, 17)]


def lcm(a, b):
    return a * b // gcd(a, b)


def power_to_bern(a, n):
    """Bernstein coefficients (degree n) of sum a_k s^k"""
    return [sum(Fr(comb(j, k), comb(n, k)) * a[k] for k in range(min(j, len(a) - 1) + 1)) for j in range(n + 1)]


def poly_integrate(p, c0=0):
    return [Fr(c0)] + [Fr(a) / (i + 1) for i, a in enumerate(p)]


def trim(p):
    p = list(p)
    while len(p) > 1 and p[-1] == 0:
        p.pop()
    return p


def rand_poly(rnd, deg, bound=3):
    p = [rnd.randint(-bound, bound) for _ in range(deg + 1)]
    if p[-1] == 0:
        p[-1] = rnd.choice([-1, 1])
    return [Fr(x) for x in p]


def integral_net(derivs, starts, rnd):
    """control net (rows) of the curve with the given derivative polynomials, scaled by the least
    integer L making the net integral and by a random power of two; returns (rows, factor)"""
    n = max(len(trim(d)) for d in derivs)          # curve degree = max deg + 1
    rows = []
    for d, c0 in zip(derivs, starts):
        rows.append(power_to_bern(poly_integrate(trim(d), c0), n))
    L = 1
    for r in rows:
        for x in r:
            L = lcm(L, x.denominator)
    e = rnd.randint(-6, 6)
    f = Fr(L) * Fr(2) ** e
    return [[x * f for x in r] for r in rows], f


def exactly_representable(rows):
    return all(Fr(float(x)) == x for r in rows for x in r)


def hp_sqrt(y, digits=50):
    """sqrt of a non-negative rational to `digits` decimals (as a rational)"""
    s = 10 ** digits
    return Fr(isqrt((y.numerator * s * s) // y.denominator), s)


def first_deriv(rows):
    n = len(rows[0])
    return [[(n - 1) * (r[j + 1] - r[j]) for j in range(n - 1)] for r in rows]


def speed_scale(rows):
    fd = first_deriv(rows)
    return max(math.sqrt(sum(float(r[j]) ** 2 for r in fd)) for j in range(len(fd[0])))


def main():
    bezier = C.import_bezier()
    from bezier import _curve_helpers as CH
    rnd, seed = C.rng()
    thorough = C.tier() == "thorough"
    search = bool(int(__import__("os").environ.get("VERIF_SEARCH", "0") or 0))
    cfg = C.config_name()
    res = C.Result("C12")
    rep = C.replay_case()
    U = float(C.U)
    have_scipy = True
    try:
        import scipy.integrate  # noqa
    except Exception:  # noqa
        have_scipy = False
    g = read_generated()
    need = ["qp_wg", "qp_wgk", "qp_xgk", "qp_wg_b64", "qp_wgk_b64", "qp_xgk_b64"]
    if any(k not in g for k in need):
        res.mismatch("extract_quadpack", {}, None, None, "tables missing in Generated/Quadpack.lean: %s" %
                     [k for k in need if k not in g])
        res.emit()
        return
    TD = [g["qp_wg"], g["qp_wgk"], g["qp_xgk"]]
    TB = [g["qp_wg_b64"], g["qp_wgk_b64"], g["qp_xgk_b64"]]
    EPS_D, EPS_DG = Fr(1, 10 ** 33), Fr(2, 10 ** 33)      # Tables/C12Quad.kronrod_moments / gauss_moments
    EPS_B = Fr(1, 2 ** 54)                                 # Tables/C12Quad.*_moments_b64
    epsabs = g.get("qp_length_epsabs", Fr(1, 2 ** 26))
    epsrel = g.get("qp_length_epsrel", Fr(1, 2 ** 26))
    consts = [epsabs, epsrel, g.get("qp_length_limit", 50), g.get("qp_epmach", Fr(1, 2 ** 52)),
              g.get("qp_uflow", Fr(1, 2 ** 1022)), g.get("qp_agse_guard_epsrel_floor", Fr(1, 2 * 10 ** 28))]
    thr = C.generated("py_curve_vs_threshold" if cfg == "pure" else "f90_curve_vs_threshold", 55)

    cases = []

    def add(kind, **kw):
        cases.append((kind, kw))

    mult = (6 if thorough else 1) * (3 if search else 1)
    if rep:
        kw = dict(rep["kw"])
        kw["nodes"] = [[Fr(x) for x in r] for r in kw["nodes"]]
        for k in ("speed",):
            if k in kw and kw[k] is not None:
                kw[k] = [Fr(x) for x in kw[k]]
        if kw.get("spec") is not None:
            kw["spec"] = Fr(kw["spec"])
        add(rep["kind"], **kw)
    else:
        add("tables")
        # ---- line2: closed-form branch
        for trip in PYTH2 + PYTH3:
            for _ in range(mult):
                d = len(trip) - 1
                sc = Fr(2) ** rnd.randint(-10, 10)
                sg = [rnd.choice([-1, 1]) for _ in range(d)]
                perm = list(range(d))
                rnd.shuffle(perm)
                p = [Fr(rnd.randint(-64, 64), 8) for _ in range(d)]
                nodes = [[p[i], p[i] + sg[i] * trip[perm[i]] * sc] for i in range(d)]
                add("line2", nodes=nodes, spec=trip[-1] * sc, family="line2")
        # ---- line-elev: constant speed through the quadrature
        for N in range(3, 13):
            for _ in range(2 * mult):
                trip = rnd.choice(PYTH2 + PYTH3)
                d = len(trip) - 1
                sc = Fr(2) ** rnd.randint(-8, 8)
                p = [Fr(rnd.randint(-64, 64), 8) for _ in range(d)]
                sg = [rnd.choice([-1, 1]) for _ in range(d)]
                nodes = [[p[i] + j * sg[i] * trip[i] * sc for j in range(N)] for i in range(d)]
                speed = [(N - 1) * trip[-1] * sc]
                add("poly", nodes=nodes, speed=speed, family="line-elev")
        # ---- line-poly: straight, polynomial speed (w^2 + k) |D|
        for _ in range(12 * mult):
            trip = rnd.choice(PYTH2 + PYTH3)
            d = len(trip) - 1
            w = rand_poly(rnd, rnd.randint(1, 4))
            phi1 = X.poly_add(X.poly_mul(w, w), [Fr(rnd.randint(0, 3))])
            derivs = [X.poly_scale(phi1, Fr(trip[i] * rnd.choice([-1, 1]))) for i in range(d)]
            nodes, f = integral_net(derivs, [rnd.randint(-3, 3) for _ in range(d)], rnd)
            add("poly", nodes=nodes, speed=X.poly_scale(phi1, f * trip[-1]), family="line-poly")
        # ---- ph2: planar Pythagorean-hodograph curves, (du, dv) over all pairs <= 5
        pairs = [(a, b) for a in range(0, 6) for b in range(0, 6) if max(a, b) >= 1]
        for (du, dv) in pairs:
            for _ in range(mult if (du + dv) % 2 == 0 or thorough or search else 1):
                u, v = rand_poly(rnd, du), rand_poly(rnd, dv)
                uu, vv, uv = X.poly_mul(u, u), X.poly_mul(v, v), X.poly_mul(u, v)
                dx = X.poly_add(uu, X.poly_scale(vv, Fr(-1)))
                dy = X.poly_scale(uv, Fr(2))
                nodes, f = integral_net([dx, dy], [rnd.randint(-3, 3), rnd.randint(-3, 3)], rnd)
                add("poly", nodes=nodes, speed=X.poly_scale(X.poly_add(uu, vv), f), family="ph2")
        # the curve of the task statement: B(s) = (s - s^3/3, s^2), speed 1 + s^2
        add("poly", nodes=[[Fr(0), Fr(1, 3) * 3, Fr(2, 3) * 3, Fr(2, 3) * 3], [Fr(0), Fr(0), Fr(1, 3) * 3, Fr(1) * 3]],
            speed=[Fr(3), Fr(0), Fr(3)], family="ph2")
        # ---- ph3: spatial PH curves (quaternion form)
        for _ in range(16 * mult):
            dg = rnd.randint(1, 5)
            u, v, p, q = (rand_poly(rnd, rnd.randint(0, dg), 2) for _ in range(4))
            sq = lambda a: X.poly_mul(a, a)  # noqa
            dx = X.poly_add(X.poly_add(sq(u), sq(v)), X.poly_scale(X.poly_add(sq(p), sq(q)), Fr(-1)))
            dy = X.poly_scale(X.poly_add(X.poly_mul(u, q), X.poly_mul(v, p)), Fr(2))
            dz = X.poly_scale(X.poly_add(X.poly_mul(v, q), X.poly_scale(X.poly_mul(u, p), Fr(-1))), Fr(2))
            if max(len(trim(t)) for t in (dx, dy, dz)) < 2:
                continue
            nodes, f = integral_net([dx, dy, dz], [rnd.randint(-3, 3) for _ in range(3)], rnd)
            speed = X.poly_scale(X.poly_add(X.poly_add(sq(u), sq(v)), X.poly_add(sq(p), sq(q))), f)
            add("poly", nodes=nodes, speed=speed, family="ph3")
        # ---- smooth: generic nets, non-polynomial speed
        for N in range(3, 9):
            for dim in (2, 3):
                for _ in range(2 * mult):
                    add("smooth", nodes=G.smooth_float_net(rnd, dim, N), family="smooth")
                # gently bent segments: the Gauss-Kronrod estimate is tiny, dqagse stops after the first step
                for _ in range(3 * mult):
                    amp = 2.0 ** -rnd.randint(3, 7)
                    dirn = [rnd.uniform(-2, 2) for _ in range(dim)]
                    nodes = [[Fr(dirn[i] * j / (N - 1) + (rnd.uniform(-amp, amp) if 0 < j else 0.0)) for j in range(N)]
                             for i in range(dim)]
                    add("smooth", nodes=nodes, family="gentle")

    # ---------------------------------------------------------------- model queries
    drv = C.Driver()
    midx = []
    for kind, kw in cases:
        if kind == "tables":
            midx.append([drv.ask("qk21_moment_defects", TD, 34), drv.ask("qk21_moment_defects", TB, 34),
                         drv.ask("qk21_table_checks", TD), drv.ask("qk21_table_checks", TB)])
        elif kind == "line2":
            midx.append([drv.ask("length_first_step", TD, thr, kw["nodes"], consts)])
        elif kind == "poly":
            sp = trim(kw["speed"])
            kw["speed"] = sp
            midx.append([drv.ask("qk21_poly", TD, sp, 0, 1), drv.ask("qk21_poly", TB, sp, 0, 1),
                         drv.ask("length_first_step", TD, thr, kw["nodes"], consts)])
        elif kind == "smooth":
            nodes = kw["nodes"]
            h = Fr(1, 2)
            absc = [h] + [t for x in TB[2][:10] for t in (h - h * x, h + h * x)]
            fd = first_deriv(nodes)
            vals = [hp_sqrt(sum(X.bern(r, s) ** 2 for r in fd)) for s in absc]
            midx.append([drv.ask("qk21_samples", TB, [[s, v] for s, v in zip(absc, vals)], 0, 1)])
    replies = drv.run()

    def impl_length(nodes):
        arr = C.farr(nodes)
        got = float(CH.compute_length(arr))
        crv = bezier.Curve(arr, len(nodes[0]) - 1)
        return got, float(crv.length)

    def jrc(kind, kw):
        out = {"kind": kind, "kw": {"nodes": C.jfr(kw["nodes"]), "family": kw.get("family")}}
        if kw.get("speed") is not None:
            out["kw"]["speed"] = C.jfr(kw["speed"])
        if kw.get("spec") is not None:
            out["kw"]["spec"] = str(kw["spec"])
        return out

    for (kind, kw), mi in zip(cases, midx):
        try:
            if kind == "tables":
                for tab, name, eps, epsg, idx in ((TD, "decimal", EPS_D, EPS_DG, 0), (TB, "binary64", EPS_B, EPS_B, 1)):
                    st, defects = replies[mi[idx]]
                    wg, wgk, xgk = tab
                    ok = st == "ok" and len(defects) == 34
                    worst_k = worst_g = Fr(0)
                    for m in range(34 if ok else 0):
                        mk = (wgk[10] if m == 0 else 0) + sum(wgk[j] * ((-xgk[j]) ** m + xgk[j] ** m) for j in range(10))
                        mg = sum(wg[j] * ((-xgk[2 * j + 1]) ** m + xgk[2 * j + 1] ** m) for j in range(5))
                        exact = Fr(2, m + 1)
                        if defects[m][0] != mk - exact or defects[m][1] != mg - exact:
                            res.mismatch("qk21_moment_defects", {"table": name, "m": m}, C.jfr([mk - exact, mg - exact]),
                                         C.jfr(defects[m]), "moment recomputed in the script differs from the model")
                        if m % 2 == 1 and (mk != 0 or mg != 0):
                            res.mismatch("qk21_moment_defects", {"table": name, "m": m}, None, C.jfr([mk, mg]), "odd moment not zero")
                        if m % 2 == 0 and m <= 30:
                            worst_k = max(worst_k, abs(mk - exact))
                        if m % 2 == 0 and m <= 18:
                            worst_g = max(worst_g, abs(mg - exact))
                    if worst_k > eps or worst_g > epsg:
                        res.mismatch("moment-residual", {"table": name}, [float(worst_k), float(worst_g)], [float(eps), float(epsg)],
                                     "moment residual of the extracted table exceeds the proven bound")
                    stc, chk = replies[mi[2 + idx]]
                    if stc != "ok" or list(chk) != [1, 1, 1]:
                        res.mismatch("qk21_table_checks", {"table": name}, None, chk if stc == "ok" else stc, "shape / sign / order check")
                    res.count(("tables", name), family="tables", table=name)
                    res.sample({"table": name, "kronrod_residual": float(worst_k), "gauss_residual": float(worst_g)})
                continue
            nodes = kw["nodes"]
            N, dim = len(nodes[0]), len(nodes)
            rc = jrc(kind, kw)
            if not exactly_representable(nodes):
                res.skip("net not exactly representable (generator)")
                continue
            if N >= 3 and cfg == "pure" and not have_scipy:
                res.skip("pure compute_length needs SciPy (absent in this interpreter)")
                continue
            got, got_api = impl_length(nodes)
            if got_api != got:
                res.failure("length-api-differs", "Curve.length %r != compute_length %r" % (got_api, got), rc)
            S = speed_scale(nodes)
            Cc = 4 * (5 * N + dim + 25)
            res.count((kind, repr(nodes)), nontrivial=S > 0, family=kw.get("family"), nodes=N, dim=dim)
            if kind == "line2":
                st, fs = replies[mi[0]]
                spec = kw["spec"]
                if st != "ok" or fs[0] != spec:
                    res.mismatch("length_first_step", rc, None, C.jfr(fs) if st == "ok" else st, "closed form: model != exact chord")
                    continue
                if abs(got - float(spec)) > 8 * U * float(spec):
                    res.mismatch("compute_length", rc, got, float(spec), "closed form")
                    res.failure("length-wrong:closed-form", "two nodes: %r vs exact chord %r" % (got, float(spec)), rc)
                continue
            if kind == "poly":
                sp = kw["speed"]
                spec = X.poly_int01(sp)
                (s1, md), (s2, mb), (s3, fs) = (replies[i] for i in mi)
                if s1 != "ok" or s2 != "ok":
                    res.mismatch("qk21_poly", rc, None, [s1, s2], "model error")
                    continue
                bound = sum(abs(c) for c in sp)
                # model vs spec: the proven bound of C12.qk21_exact_on_polynomials on [0,1] (M = 1)
                if abs(md[0] - spec) > EPS_D / 2 * bound:
                    res.mismatch("qk21_poly", rc, float(md[0] - spec), float(EPS_D / 2 * bound),
                                 "decimal tables: |model - integral| exceeds eps/2*sum|c_k|")
                if abs(mb[0] - spec) > EPS_B / 2 * bound:
                    res.mismatch("qk21_poly", rc, float(mb[0] - spec), float(EPS_B / 2 * bound),
                                 "binary64 tables: |model - integral| exceeds eps/2*sum|c_k|")
                # raw Gauss-Kronrod difference on degree <= 19: C12.qk21_rawErr_small
                if len(sp) <= 20 and md[3] > (EPS_D + EPS_DG) / 2 * bound:
                    res.mismatch("qk21_poly", rc, float(md[3]), float((EPS_D + EPS_DG) / 2 * bound), "raw error estimate too large")
                # the model on the control net (exact sqrt) is the model on the speed polynomial
                if s3 != "ok":
                    res.mismatch("length_first_step", rc, None, s3, "speed of the net is not the stated polynomial (generator) or model error")
                elif fs[0] != md[0]:
                    res.mismatch("length_first_step", rc, C.jfr(fs[0]), C.jfr(md[0]), "first step on the net != qk21 on the speed polynomial")
                # impl vs model
                tol = Cc * U * S
                if abs(got - float(mb[0])) > tol:
                    res.mismatch("compute_length", rc, got, float(mb[0]),
                                 "polynomial speed: |impl - model| = %.3e > %.3e" % (abs(got - float(mb[0])), tol))
                # impl vs spec (the property)
                if abs(Fr(got) - spec) > Fr(tol) + EPS_B / 2 * bound:
                    res.failure("length-wrong:poly-speed:%s" % kw.get("family"),
                                "%d nodes, dim %d: %r vs exact integral of the speed %r" % (N, dim, got, float(spec)), rc)
                res.sample({"family": kw.get("family"), "nodes": N, "impl": got, "model": float(mb[0]), "spec": float(spec),
                            "err_in_uS": abs(got - float(spec)) / (U * S) if S else 0.0})
                d = res.dist.setdefault("err_in_uS_max", {})
                k = kw.get("family")
                d[k] = max(d.get(k, 0.0), abs(got - float(mb[0])) / (U * S) if S else 0.0)
                continue
            if kind == "smooth":
                st, m = replies[mi[0]]
                if st != "ok":
                    res.mismatch("qk21_samples", rc, None, st, "model error")
                    continue
                result, resabs, resasc, raw = (float(m[0]), float(m[1]), float(m[2]), float(m[3]))
                noise = 50 * U * S

                def heuristic(r):
                    a = r
                    if resasc != 0 and a != 0:
                        a = resasc * min(1.0, (200 * a / resasc) ** 1.5)
                    if resabs > 2.0 ** -1022 / (50 * 2.0 ** -52):
                        a = max(50 * 2.0 ** -52 * resabs, a)
                    return a
                hi, lo = heuristic(raw + noise), heuristic(max(raw - noise, 0.0))
                errbnd = max(float(epsabs), float(epsrel) * abs(result))
                if hi <= errbnd / 2 and hi != resasc:
                    verdict = "accepted"
                elif lo > 2 * errbnd:
                    verdict = "bisected"
                else:
                    verdict = "unclear"
                d = res.dist.setdefault("first_step:" + str(kw.get("family")), {})
                d[verdict] = d.get(verdict, 0) + 1
                if verdict == "accepted":
                    tol = Cc * U * S
                    if abs(got - result) > tol:
                        res.mismatch("compute_length", rc, got, result,
                                     "accepted after the first step but |impl - first step| = %.3e > %.3e" % (abs(got - result), tol))
                    dd = res.dist.setdefault("err_in_uS_max", {})
                    dd[kw.get("family")] = max(dd.get(kw.get("family"), 0.0), abs(got - result) / (U * S))
                continue
        except Exception as exc:  # noqa
            res.failure("raised:%s:%s" % (kind, type(exc).__name__), "%s raised %r" % (kind, exc),
                        jrc(kind, kw) if kind != "tables" else {"kind": "tables", "kw": {"nodes": []}})
    res.emit()
    if rep:
        bad = bool(res.failures)
        print("replay: " + ("property fails on this input: " + res.failures[0]["what"] if bad else "property holds on this input"))
        sys.exit(1 if bad else 0)

if __name__ == "__main__":
    main()
