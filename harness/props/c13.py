"""C13 — the validity verdict agrees with the sign of the Jacobian: correspondence + oracle.

impl  : Triangle.is_valid, quadratic_jacobian_polynomial, cubic_jacobian_polynomial, polynomial_sign
model : driver `jacobian_polynomial`, `polynomial_sign`, `is_valid` (when the ops exist; see reg)
spec  : exact Bernstein coefficients of det J (bivariate power basis -> Bernstein), exact-rational
        Bernstein-subdivision certificate: positive on the closed triangle / witness point with det <= 0
"""
import sys
import os
from math import factorial
import numpy as np
from fractions import Fraction as Fr
import common as C
import exact as X
import gen as G


def tri_to_power2(row, d):
    out = {}
    for k in range(d + 1):
        for j in range(d + 1 - k):
            i = d - j - k
            v = row[X.tri_index(d, j, k)]
            if v == 0:
                continue
            c = factorial(d) // (factorial(i) * factorial(j) * factorial(k))
            for p in range(i + 1):
                for q in range(i + 1 - p):
                    m = factorial(i) // (factorial(p) * factorial(q) * factorial(i - p - q))
                    key = (j + p, k + q)
                    out[key] = out.get(key, 0) + c * m * (-1) ** (p + q) * v
    return out


def p2_mul(a, b):
    out = {}
    for (i, j), x in a.items():
        for (k, l), y in b.items():
            out[(i + k, j + l)] = out.get((i + k, j + l), 0) + x * y
    return out


def p2_sub(a, b):
    out = dict(a)
    for k, v in b.items():
        out[k] = out.get(k, 0) - v
    return out


def p2_eval(a, s, t):
    return sum(v * s ** i * t ** j for (i, j), v in a.items())


def det_poly(nodes, d):
    px, py = tri_to_power2(nodes[0], d), tri_to_power2(nodes[1], d)
    ds = lambda a: {(i - 1, j): i * v for (i, j), v in a.items() if i > 0}
    dt = lambda a: {(i, j - 1): j * v for (i, j), v in a.items() if j > 0}
    return p2_sub(p2_mul(ds(px), dt(py)), p2_mul(dt(px), ds(py)))


_P2B = {}


def power_to_bernstein(poly, m):
    """Bernstein coefficients (degree m) of a bivariate polynomial given in the power basis, by exact
    interpolation at the lattice nodes (unisolvent): solve V c = values"""
    if m not in _P2B:
        pts = [(Fr(j, m), Fr(k, m)) for k in range(m + 1) for j in range(m + 1 - k)]
        V = []
        for (s, t) in pts:
            row = []
            for k in range(m + 1):
                for j in range(m + 1 - k):
                    i = m - j - k
                    c = factorial(m) // (factorial(i) * factorial(j) * factorial(k))
                    row.append(c * (1 - s - t) ** i * s ** j * t ** k)
            V.append(row)
        _P2B[m] = (pts, X.mat_inv(V))
    pts, inv = _P2B[m]
    nn = len(pts)
    vals = [p2_eval(poly, s, t) for s, t in pts]
    return [sum(inv[r][c] * vals[c] for c in range(nn)) for r in range(nn)]


def certificate(coeffs, m, depth=10):
    """('pos', margin) / ('neg', margin) if all Bernstein coefficients of some subdivision are > 0 (< 0);
    ('witness', value) if a point of the closed triangle has det of the other sign or 0; ('undecided',)"""
    pieces = [coeffs]
    signs = set()
    margin = None
    for level in range(depth + 1):
        nxt = []
        for c in pieces:
            corners = [c[0], c[m], c[-1]]
            for v in corners:
                signs.add((v > 0) - (v < 0))
            if all(v > 0 for v in c):
                signs.add(1)
                margin = min(c) if margin is None else min(margin, min(c))
            elif all(v < 0 for v in c):
                signs.add(-1)
                margin = min(-v for v in c) if margin is None else min(margin, min(-v for v in c))
            else:
                nxt.append(c)
            if len(signs) > 1 or 0 in signs:
                return ("mixed", level)
        if not nxt:
            return ("pos" if 1 in signs else "neg", margin, level)
        pieces = [X.tri_specialize_exact(c, m, *X.TRI_QUARTERS[q]) for c in nxt for q in "ABCD"]
    return ("undecided",)


def family(rnd, d, kind, lattice):
    base = [[], []]
    for k in range(d + 1):
        for j in range(d + 1 - k):
            base[0].append(Fr(4 * j, d) if lattice else Fr(j / d))
            base[1].append(Fr(4 * k, d) if lattice else Fr(k / d))
    nn = len(base[0])

    def pert(amp):
        if lattice:
            return [[x + Fr(rnd.randint(-amp, amp), 4) for x in r] for r in base]
        return [[x + Fr(rnd.uniform(-amp, amp)) for x in r] for r in base]
    if kind == "valid":
        return pert(1) if lattice else pert(0.02)
    if kind == "marginal":
        return pert(3) if lattice else pert(0.12)
    if kind == "folded":
        out = pert(1) if lattice else pert(0.02)
        i = rnd.randrange(nn)
        out[0][i] += Fr(rnd.choice([-6, 6])) if lattice else Fr(rnd.choice([-1.5, 1.5]))
        return out
    if kind == "inverted":
        out = pert(1) if lattice else pert(0.02)
        return [out[1], out[0]]
    if kind == "collinear":
        return [list(base[0]), [x * 0 + (b if lattice else b) for x, b in zip(base[1], base[0])]]
    raise ValueError(kind)


def designed(rnd, d):
    """triangles with a prescribed Jacobian determinant (dyadic control values, exact in binary64):
       d = 2:  x = s^2/2 - c s + e t,  y = (s - c) t + s    =>  det J = (s - c)^2 - e (1 + t)
       d = 3:  x = 3 s^3 - 9 c s^2 + 9 c^2 s + 3 e t,  y = 3 s + 3 t   =>  det J = 27 (s - c)^2 - 9 e
    with the line s = c off the grid of the verdict's bisection and e graded: e = 0 (det J touches zero without changing
    sign), e > 0 tiny (a thin strip det J < 0 that a few bisection rounds cannot see), e < 0 tiny (valid, thin margin)"""
    c = Fr(rnd.choice([21, 11, 37, 43, 13, 27]), 64)
    e = rnd.choice([Fr(0), Fr(0), Fr(1, 2 ** 14), Fr(1, 2 ** 12), Fr(5, 2 ** 16), Fr(1, 2 ** 9), -Fr(1, 2 ** 14), -Fr(1, 2 ** 10), -Fr(1, 2 ** 6)])
    if d == 2:
        px = {(2, 0): Fr(1, 2), (1, 0): -c, (0, 1): e}
        py = {(1, 1): Fr(1), (0, 1): -c, (1, 0): Fr(1)}
    else:
        px = {(3, 0): Fr(3), (2, 0): -9 * c, (1, 0): 9 * c * c, (0, 1): 3 * e}
        py = {(1, 0): Fr(3), (0, 1): Fr(3)}
    return [power_to_bernstein(px, d), power_to_bernstein(py, d)], "c=%s e=%s" % (c, e)


def pocket(rnd):
    """cubic triangles with x = x(s) only, so that det J = x_s * y_t with
         x_s = 48 (1/4 + 4 (s - s1)^2) > 0,    y_t = 24 ((1 - c) + 64 ((s - s0)^2 + (t - t0)^2)):
    for c > 1 the Jacobian is negative exactly in the disc of radius sqrt((c - 1)/64) around (s0, t0) - a pocket that
    contains no corner of the first subdivision levels and sits in ANY of the four sub-triangles of the first
    subdivision - while other sub-triangles stay undecided for a while because x_s is small near s = s1 (mixed Bernstein
    coefficients although the determinant is positive there); c < 1: valid with a margin"""
    s0, t0 = rnd.choice([(Fr(1, 8), Fr(1, 8)), (Fr(5, 8), Fr(1, 8)), (Fr(1, 8), Fr(5, 8)), (Fr(3, 8), Fr(3, 8)), (Fr(5, 16), Fr(3, 16)),
                         (Fr(1, 4), Fr(1, 2)), (Fr(9, 16), Fr(5, 16))])
    s1 = rnd.choice([Fr(3, 4), Fr(1, 4), Fr(1, 2), Fr(7, 8)])
    c = rnd.choice([Fr(3, 2), Fr(9, 8), Fr(5, 4), Fr(17, 16), Fr(1, 2), Fr(3, 4), Fr(2)])
    px = {(3, 0): Fr(64), (2, 0): -192 * s1, (1, 0): 12 + 192 * s1 * s1}
    py = {(2, 1): Fr(1536), (1, 1): -3072 * s0, (0, 1): 24 * ((1 - c) + 64 * s0 * s0 + 64 * t0 * t0), (0, 3): Fr(512), (0, 2): -1536 * t0}
    return [power_to_bernstein(px, 3), power_to_bernstein(py, 3)], "pocket (%s,%s) s1=%s c=%s" % (s0, t0, s1, c)


# ------------------------------------------------------------------------------------------------------------------
# PLACED lattice nets (regime E).  det J is built from DIFFERENCES of nodes: it does not change when the element is
# translated and it scales with the square of the element when the element is scaled.  The verdict may therefore depend
# neither on where the element sits nor on how large it is - as long as the arithmetic is exact, which is what the
# property's "lattice nets where the Jacobian polynomial is computed exactly" stands for.  The families below take integer
# nets N (few bits), a dyadic scale c and an offset o with few significant bits and submit  o + c * N  for graded
# ratios  element size / distance from the origin = 2^0 .. 2^-32  (and graded absolute sizes at the origin).
def int_family(rnd, d, kind):
    """integer analogue of family(): legs of 48 units, node spacing 48/d, perturbations of graded amplitude"""
    step = 48 // d
    base = [[], []]
    for k in range(d + 1):
        for j in range(d + 1 - k):
            base[0].append(step * j)
            base[1].append(step * k)
    nn = len(base[0])
    pert = lambda amp: [[x + rnd.randint(-amp, amp) for x in r] for r in base]
    if kind == "valid":
        return pert(3)
    if kind == "marginal":
        return pert(9)
    if kind == "folded":
        out = pert(3)
        out[0][rnd.randrange(nn)] += rnd.choice([-72, 72])
        return out
    if kind == "inverted":
        out = pert(3)
        return [out[1], out[0]]
    if kind == "collinear":
        return [list(base[0]), list(base[0])]
    raise ValueError(kind)


def quad_jacobian_candidates(N):
    """numpy int64, vectorised PRE-FILTER only (every candidate is re-examined with the exact pipeline): twice the
    Bernstein coefficients of det J of n quadratic integer nets N[n, 2, 6]"""
    ds = 2 * np.stack([N[:, :, 1] - N[:, :, 0], N[:, :, 2] - N[:, :, 1], N[:, :, 4] - N[:, :, 3]], axis=2)
    dt = 2 * np.stack([N[:, :, 3] - N[:, :, 0], N[:, :, 4] - N[:, :, 1], N[:, :, 5] - N[:, :, 3]], axis=2)
    cr = lambda i, j: ds[:, 0, i] * dt[:, 1, j] - ds[:, 1, i] * dt[:, 0, j]
    return np.stack([2 * cr(0, 0), cr(0, 1) + cr(1, 0), 2 * cr(1, 1), cr(0, 2) + cr(2, 0), cr(1, 2) + cr(2, 1), 2 * cr(2, 2)], axis=1)


def shallow_folds(rnd, count):
    """quadratic integer nets that are FOLDED (exact certificate: det J <= 0 somewhere) although every corner Jacobian is
    positive and every negative Bernstein coefficient of det J is smaller in magnitude than 2/3 of the smallest corner
    value: the fold is only visible in the sign of coefficients that are small compared with the others.  Found by
    rejection sampling; the acceptance test is the exact one (det_poly -> power_to_bernstein -> certificate)"""
    out = []
    rs = np.random.RandomState(rnd.getrandbits(32))
    for _ in range(12):
        bound = rnd.choice([4, 8, 8, 16])
        N = rs.randint(-bound, bound + 1, size=(150000, 2, 6)).astype(np.int64)
        B = quad_jacobian_candidates(N)
        corner = B[:, [0, 2, 5]].min(axis=1)
        neg = (-B).max(axis=1)
        for i in np.nonzero((corner > 0) & (neg > 0) & (2 * corner >= 3 * neg))[0][:300]:
            net = [[Fr(int(x)) for x in r] for r in N[i]]
            co = power_to_bernstein(det_poly(net, 2), 2)
            negs = [-v for v in co if v < 0]
            if min(co[0], co[2], co[5]) > 0 and negs and 2 * min(co[0], co[2], co[5]) >= 3 * max(negs) and certificate(co, 2)[0] == "mixed":
                out.append([[int(x) for x in r] for r in net])
                if len(out) >= count:
                    return out
    return out


def elevate_2_to_3(net):
    """exact degree elevation of 3 * (quadratic integer net): an integer cubic net of the same map (times 3)"""
    out = []
    for row in net:
        q = {}
        n = 0
        for k in range(3):
            for j in range(3 - k):
                q[(2 - j - k, j, k)] = 3 * row[n]
                n += 1
        r = []
        for k in range(4):
            for j in range(4 - k):
                i = 3 - j - k
                v = (i * q[(i - 1, j, k)] if i else 0) + (j * q[(i, j - 1, k)] if j else 0) + (k * q[(i, j, k - 1)] if k else 0)
                assert v % 3 == 0
                r.append(v // 3)
        out.append(r)
    return out


def offsets(rnd):
    """where the element sits: coordinates with at most 31 bits before and 2 bits after the binary point, of graded and
    of unequal magnitude, either sign, also on an axis (projected map coordinates look like the second one)"""
    big = lambda b: rnd.choice([-1, 1]) * rnd.randint(2 ** (b - 1), 2 ** b - 1)
    b = rnd.choice([6, 10, 14, 18, 20, 22, 24, 27, 30])
    return rnd.choice([
        (Fr(big(b)), Fr(big(b))),
        (Fr(rnd.randint(200000, 800000)), Fr(rnd.randint(1000000, 9000000))),
        (Fr(big(b)), Fr(0)),
        (Fr(0), Fr(big(b))),
        (Fr(big(max(b - 12, 3))), Fr(big(b))),
        (Fr(big(b)) + Fr(rnd.randint(1, 3), 4), Fr(big(b)) - Fr(rnd.randint(1, 3), 4)),
        (Fr(2 ** b), Fr(-2 ** b)),
    ])


def place(net, scale, off):
    """off + scale * net, or None when a coordinate is not a binary64 number"""
    out = [[o + scale * x for x in r] for r, o in zip(net, off)]
    return out if all(Fr(float(v)) == v for r in out for v in r) else None


def ilog2(x):
    """floor(log2 x) of a positive rational"""
    e = x.numerator.bit_length() - x.denominator.bit_length()
    return e if Fr(2) ** e <= x else e - 1


def place_at_ratio(rnd, net, ratio_exp, mult=Fr(1)):
    """the integer net, scaled by mult * 2^e and moved to a random offset so that  (extent of the element) / (largest
    coordinate) is about 2^-ratio_exp; at the origin ratio_exp + 8 is taken as the absolute size exponent instead"""
    ext = max(max(r) - min(r) for r in net) or 1
    for _ in range(20):
        off = offsets(rnd) if rnd.random() < 0.9 else (Fr(0), Fr(0))
        far = max(abs(o) for o in off)
        e = (ilog2(far) if far else 8) - ratio_exp - ilog2(Fr(ext))
        out = place(net, mult * Fr(2) ** e, off)
        if out is not None:
            return out, "off=(%s,%s) scale=%s*2^%d" % (off[0], off[1], mult, e)
    return None, None


def exact_budget(nodes, d):
    """regime E bit budget.  With every coordinate a multiple of 2^-g below 2^b in magnitude and every difference of two
    coordinates of a row a multiple of 2^-h below 2^w:  a weighted sum of coordinates with the weights of the derivative
    of a degree-d triangle at a point with barycentric coordinates in Z/4 (multiples of 1/16, absolute weights summing to
    <= 2^5) is exact in every order of summation when b + g + 9 <= 53;  the derivative values (d times a convex
    combination of node differences; the weights sum to zero) are multiples of 2^-(h+4) below 2^(w+2), so products of two
    of them, their difference and integer combinations of those with absolute weights summing to < 2^10 (change of basis)
    are exact when 2 (w + h + 6) + 11 <= 53.  Then det J and its Bernstein coefficients are computed without any rounding
    (degree 3: up to one final division) by every formulation that works with node differences or tabulated derivative
    weights.  (g, h may be negative.)"""
    gran = lambda vs: max(v.denominator.bit_length() - 1 - ((v.numerator & -v.numerator).bit_length() - 1) for v in vs)
    vals = [v for r in nodes for v in r if v]
    diffs = [v - r[0] for r in nodes for v in r if v != r[0]]
    if not vals or not diffs:
        return True
    g, h = gran(vals), gran(diffs)
    b = max(ilog2(abs(v)) + 1 for v in vals)
    w = max(ilog2(abs(v)) + 1 for v in diffs) + 1
    return b + g + 9 <= 53 and 2 * (w + h + 6) + 11 <= 53


def main():
    bezier = C.import_bezier()
    from bezier.hazmat import triangle_helpers as TH
    from bezier.hazmat import helpers as HH
    rnd, seed = C.rng()
    thorough = C.tier() == "thorough"
    cfg = C.config_name()
    res = C.Result("C13")
    rep = C.replay_case()
    have_model = os.path.exists(os.path.join(C.LEAN, "Driver", "Ops", "Valid.lean"))
    cases = []

    def add(kind, **kw):
        cases.append((kind, kw))

    if rep:
        kw = dict(rep["kw"])
        kw["nodes"] = [[Fr(x) for x in r] for r in kw["nodes"]]
        add(rep["kind"], **kw)
    else:
        for d in (1, 2, 3):
            for fam in ("valid", "marginal", "folded", "inverted", "collinear"):
                for lattice in (True, False):
                    for _ in range(20 if not thorough else 120):
                        add("verdict", nodes=family(rnd, d, fam, lattice), d=d, family=fam, lattice=lattice)
        for d in (2, 3):
            for _ in range(24 if not thorough else 120):
                nodes, tag = designed(rnd, d)
                assert all(Fr(float(v)) == v for r in nodes for v in r)
                add("verdict", nodes=nodes, d=d, family="designed:" + tag, lattice=True)
        for _ in range(40 if not thorough else 300):
            nodes, tag = pocket(rnd)
            if all(Fr(float(v)) == v for r in nodes for v in r):
                add("verdict", nodes=nodes, d=3, family="designed:" + tag, lattice=True)
        for d in (2, 3):
            nn = G.tri_nodes_count(d)
            for _ in range(10 if not thorough else 60):
                add("jacobian-polynomial", nodes=G.int_net(rnd, 2, nn, 8), d=d)
                add("jacobian-polynomial", nodes=G.float_net(rnd, 2, nn, 0), d=d)
        add("guard-degree", nodes=G.int_net(rnd, 2, G.tri_nodes_count(4), 4), d=4)
        add("guard-dimension", nodes=G.int_net(rnd, 3, G.tri_nodes_count(2), 4), d=2)
        # placed lattice nets: the perturbation families again, anywhere in the plane and at any size (graded ratio
        # element size / distance from the origin; at the origin graded absolute sizes)
        for d in (1, 2, 3):
            for fam in ("valid", "marginal", "folded", "inverted", "collinear"):
                for _ in range(8 if not thorough else 100):
                    nodes, tag = place_at_ratio(rnd, int_family(rnd, d, fam), rnd.randint(0, 32))
                    if nodes is not None:
                        add("verdict", nodes=nodes, d=d, family="placed-%s:%s" % (fam, tag), lattice=True, placed=True)
        # shallow folds (degree 2, and the same maps written as degree 3, there also with the middle node moved by one
        # unit): each shape at one place and at EVERY size of a grid with steps 2^(1/4), from a smallest corner Jacobian of
        # about 2^-54 (largest coordinate)^2 to about 2^-18 (largest coordinate)^2.  The negative coefficients are
        # at most 2/3 of the corner values, i.e. 0.58 octaves apart: a verdict that drops coefficients below ANY level
        # proportional to the square of the coordinates within that range is caught by some size of the grid
        shapes = shallow_folds(rnd, 5 if not thorough else 30)
        mults = (Fr(64, 64), Fr(76, 64), Fr(91, 64), Fr(108, 64))
        for si, shape in enumerate(shapes):
            for d in (((2, 3, 2, 3, 2)[si % 5],) if not thorough else (2, 3)):
                net = shape if d == 2 else elevate_2_to_3(shape)
                if d == 3 and rnd.random() < 0.5:
                    net[rnd.randrange(2)][5] += rnd.choice([-1, 1])
                c0 = power_to_bernstein(det_poly([[Fr(x) for x in r] for r in net], d), 2 * d - 2)[0]
                off = (Fr(0), Fr(0))
                while not (off[0] or off[1]):
                    off = offsets(rnd)
                e0 = ilog2(max(abs(o) for o in off)) - 27 - (ilog2(abs(c0)) // 2 if c0 else 0)
                for t in range(72):
                    sc = mults[t % 4] * Fr(2) ** (e0 + t // 4)
                    nodes = place(net, sc, off)
                    if nodes is not None:
                        add("verdict", nodes=nodes, d=d, family="placed-shallow-fold:shape=%d off=(%s,%s) scale=%s" % (si, off[0], off[1], sc),
                            lattice=True, placed=True)
        if thorough:
            for _ in range(600):
                shape = rnd.choice(shapes)
                d = rnd.choice((2, 3))
                net = shape if d == 2 else elevate_2_to_3(shape)
                nodes, tag = place_at_ratio(rnd, net, rnd.randint(4, 30), rnd.choice(mults) * rnd.choice((1, Fr(9, 8), Fr(7, 8))))
                if nodes is not None:
                    add("verdict", nodes=nodes, d=d, family="placed-shallow-fold:" + tag, lattice=True, placed=True)
        # the Jacobian polynomial itself on placed integer nets (regime E: bit for bit)
        for d in (2, 3):
            for _ in range(6 if not thorough else 60):
                nodes = place(int_family(rnd, d, rnd.choice(("valid", "marginal", "folded"))), Fr(2) ** rnd.randint(0, 3), offsets(rnd))
                if nodes is not None and all(x.denominator == 1 for r in nodes for x in r) and exact_budget(nodes, d):
                    add("jacobian-polynomial", nodes=nodes, d=d)

    drv = C.Driver()
    midx = []
    for kind, kw in cases:
        if have_model and kind == "verdict":
            midx.append(drv.ask("is_valid", int(C.generated("py_triangle_helpers_MAX_POLY_SUBDIVISIONS", 5)),
                                C.generated("py_triangle_helpers_QUARTIC_BERNSTEIN_FACTOR", Fr(36)), 2, kw["d"],
                                [[Fr(float(x)) for x in r] for r in kw["nodes"]]))
        elif have_model and kind == "jacobian-polynomial":
            midx.append(drv.ask("jacobian_polynomial", kw["d"], [[Fr(float(x)) for x in r] for r in kw["nodes"]]))
        else:
            midx.append(None)
    replies = drv.run() if drv.lines else []

    chain_budget = [30 if not thorough else 200]
    for (kind, kw), mi in zip(cases, midx):
        nodes, d = kw["nodes"], kw["d"]
        arr = C.farr(nodes)
        nodes = [[Fr(float(x)) for x in r] for r in nodes]      # what the implementation really sees
        jkw = {k: (C.jfr(v) if k == "nodes" else v) for k, v in kw.items()}
        rc = {"kind": kind, "kw": jkw}
        res.count((kind, str(jkw)), kind=kind, degree=d, family=str(kw.get("family", "-")).split(":")[0], lattice=kw.get("lattice", "-"))
        res.sample({"kind": kind, "degree": d, "family": kw.get("family")})
        try:
            if kind == "verdict":
                m = {1: 0, 2: 2, 3: 4}[d]
                poly = det_poly(nodes, d)
                if d == 1:
                    val = p2_eval(poly, Fr(0), Fr(0))
                    cert = ("pos", val, 0) if val > 0 else (("neg", -val, 0) if val < 0 else ("mixed", 0))
                else:
                    coeffs = power_to_bernstein(poly, m)
                    cert = certificate(coeffs, m)
                tri = bezier.Triangle(arr, d)
                try:
                    verdict = bool(tri.is_valid)
                    outcome = "valid" if verdict else "invalid"
                except ValueError:
                    outcome = "undecided"
                res.count(("outcome", outcome, cert[0]), nontrivial=False, outcome=outcome, certificate=cert[0])
                if mi is not None:
                    st, model = replies[mi]
                    mout = {("ok", 1): "valid", ("ok", 0): "invalid"}.get((st, int(model) if st == "ok" and not isinstance(model, list) else -1), "undecided" if st == "err" else "?")
                    if kw.get("lattice") and mout != outcome:
                        res.mismatch("is_valid", rc, outcome, mout, "lattice data: exact arithmetic, verdicts must be identical")
                size2 = max(abs(x) for r in nodes for x in r) ** 2 or 1
                placed = bool(kw.get("placed"))
                sfx = ":placed-lattice-net" if placed else ""
                clear, jscale = False, None
                if outcome == "valid" and cert[0] in ("neg", "mixed"):
                    res.failure("valid-but-jacobian-not-positive" + sfx, "Triangle.is_valid = True (degree %d, %s) but det J is %s on part of the closed triangle%s" %
                                (d, kw["family"], "negative" if cert[0] == "neg" else "non-positive / of both signs",
                                 "" if d == 1 or not placed else "; exact Bernstein coefficients of det J: %s" % [float(v) for v in coeffs]), rc)
                if outcome == "invalid" and cert[0] == "pos" and cert[1] >= Fr(1, 2 ** 20) * size2:
                    res.failure("invalid-but-jacobian-positive", "Triangle.is_valid = False (degree %d, %s) although det J >= %.3g > 0 on the whole closed triangle" %
                                (d, kw["family"], float(cert[1])), rc)
                elif placed and cert[0] in ("pos", "neg"):
                    # placed lattice nets inside the bit budget: nothing is rounded on the way to the Bernstein coefficients
                    # of det J, so the margin is judged against det J ITSELF (largest exact coefficient; degree 1: the two
                    # products of the determinant), not against the square of the coordinates
                    if d == 1:
                        (a, c_), (b_, e_) = [(r[1] - r[0], r[2] - r[0]) for r in nodes]
                        jscale = abs(a * e_) + abs(c_ * b_)
                    else:
                        jscale = max(abs(v) for v in coeffs)
                    in_budget = exact_budget(nodes, d)
                    clear = in_budget and cert[1] >= Fr(1, 2 ** 20) * jscale
                    res.count(("placed-claim", str(jkw)), nontrivial=False,
                              placed_claim="clear-margin" if clear else ("no-claim:thin-margin" if in_budget else "no-claim:outside-bit-budget"))
                    if clear and outcome == "invalid" and cert[0] == "pos":
                        res.failure("invalid-but-jacobian-positive:placed-lattice-net", "Triangle.is_valid = False (degree %d, %s) although det J is computed "
                                    "exactly from this lattice net and det J >= %.6g > 0 on the whole closed triangle (largest Bernstein coefficient %.6g; "
                                    "largest coordinate %.6g)" % (d, kw["family"], float(cert[1]), float(jscale), float(size2) ** 0.5), rc)
                if outcome == "undecided" and cert[0] in ("pos", "neg") and cert[2] <= 3 and cert[1] >= Fr(1, 2 ** 20) * size2:
                    res.failure("undecided-with-clear-margin", "polynomial_sign gave up although the certificate is reached after %d subdivisions with margin %.3g" %
                                (cert[2], float(cert[1])), rc)
                elif placed and outcome == "undecided" and cert[0] in ("pos", "neg") and cert[2] <= 3 and clear:
                    res.failure("undecided-with-clear-margin:placed-lattice-net", "polynomial_sign gave up (degree %d, %s) although det J is computed exactly "
                                "from this lattice net and the certificate is reached after %d subdivisions with margin %.6g (largest Bernstein coefficient %.6g)" %
                                (d, kw["family"], cert[2], float(cert[1]), float(jscale)), rc)
                # the verdict of DERIVED objects: the four pieces of subdivide() taken from a parent whose verdict has already
                # been read (a verdict cached on the parent must not leak into objects that are other triangles); each piece is
                # judged against the exact certificate of ITS OWN control net (as returned, binary64)
                if d >= 2 and chain_budget[0] > 0 and str(kw.get("family", "")).split(":")[0] in ("folded", "marginal", "designed"):
                    chain_budget[0] -= 1
                    for pi, piece in enumerate(tri.subdivide()):
                        pn = [[Fr(float(x)) for x in r] for r in np.asarray(piece.nodes).tolist()]
                        try:
                            pout = "valid" if bool(piece.is_valid) else "invalid"
                        except ValueError:
                            pout = "undecided"
                        pcert = certificate(power_to_bernstein(det_poly(pn, d), m), m)
                        psize2 = max(abs(x) for r in pn for x in r) ** 2 or 1
                        prc = {"kind": "verdict", "kw": dict(jkw, piece=pi)}
                        res.count(("piece", str(jkw), pi), nontrivial=False, piece_outcome=pout, piece_certificate=pcert[0])
                        if pout == "valid" and pcert[0] in ("neg", "mixed"):
                            res.failure("valid-but-jacobian-not-positive:subdivided-piece", "piece %d of subdivide() of a degree-%d triangle whose is_valid had "
                                        "been read: is_valid = True but det J is not positive on the piece" % (pi, d), prc)
                        if pout == "invalid" and pcert[0] == "pos" and pcert[1] >= Fr(1, 2 ** 20) * psize2:
                            res.failure("invalid-but-jacobian-positive:subdivided-piece", "piece %d of subdivide() of a degree-%d triangle whose is_valid had "
                                        "been read (%s): is_valid = False although det J >= %.3g > 0 on the whole piece" % (pi, d, outcome, float(pcert[1])), prc)
            elif kind == "jacobian-polynomial":
                m = {2: 2, 3: 4}[d]
                fn = TH.quadratic_jacobian_polynomial if d == 2 else TH.cubic_jacobian_polynomial
                got = np.asarray(fn(arr))
                spec = power_to_bernstein(det_poly(nodes, d), m)
                ints = all(x.denominator == 1 for r in nodes for x in r)
                scale = max(abs(x) for r in nodes for x in r) ** 2 * d * d * 4 or 1
                if mi is not None:
                    st, model = replies[mi]
                    if st != "ok" or [Fr(x) for x in model] != spec:      # the driver op returns the true coefficients (factor applied)
                        res.mismatch("model-vs-spec:jacobian_polynomial", rc, str(model)[:200], str(spec)[:200])
                for c in range(len(spec)):
                    g = Fr(float(got[0, c]))
                    if ints:
                        if g != spec[c]:
                            res.mismatch("jacobian_polynomial", rc, str(g), str(spec[c]), "E regime (integer nets)")
                            res.failure("jacobian-polynomial-wrong", "degree-%d Jacobian polynomial, Bernstein coefficient %d: %s vs exact %s" % (d, c, g, spec[c]), rc)
                    elif abs(g - spec[c]) > 2 ** 12 * C.U * scale:
                        res.failure("jacobian-polynomial-wrong", "degree-%d Jacobian polynomial, Bernstein coefficient %d: %s vs exact %s" % (d, c, float(g), float(spec[c])), rc)
            elif kind == "guard-degree":
                try:
                    bezier.Triangle(arr, d).is_valid
                    res.failure("guard-degree-not-raised", "is_valid of a degree-4 triangle returned normally", rc)
                except HH.UnsupportedDegree:
                    pass
            elif kind == "guard-dimension":
                try:
                    bezier.Triangle(arr, d).is_valid
                    res.failure("guard-dimension-not-raised", "is_valid of a triangle in R^3 returned normally", rc)
                except NotImplementedError:
                    pass
        except Exception as exc:  # noqa
            res.failure("raised:%s:%s" % (kind, type(exc).__name__), "%s raised %r" % (kind, exc), rc)
    res.emit()
    if rep:
        bad = bool(res.failures)
        print("replay: " + ("property fails on this input: " + res.failures[0]["what"] if bad else "property holds on this input"))
        sys.exit(1 if bad else 0)


main()
