"""C14 — calls are pure: no hidden state, no input mutation, layout independent.

impl  : the public shapes (Curve, Triangle, CurvedPolygon) and the shim helpers of the package tree chosen by
        BEZIER_PKG, executed as random HISTORIES of calls;
model : `proto_run` (Lean machine of the Cython module globals + Fortran buffers + retry wrappers) predicts
        `curves_workspace_size()` / `triangle_workspace_sizes()` after every call of the history;
spec  : the same call executed ALONE in a pristine process (forked from this template process, which imports
        bezier and never calls it) must give the bitwise identical result; content hashes of every
        caller-visible array must not change; the same values in another memory layout must give the same values.

Process layout: this process M is the pristine template.  A history runs in a child forked from M and streams
one record per call back (resolved call, normalised result, observable hidden state, hash events).  Every
distinct resolved call is then executed alone in its own child forked from M.
"""
import json
import os
import pickle
import re
import select
import signal
import struct
import subprocess
import sys
import tempfile
import time
import traceback

import numpy as np

import common as C
import c14_gen as GEN

PROP = "C14"
bezier = C.import_bezier()          # import only: M never calls into bezier
from bezier import _curve_helpers, _helpers, _triangle_helpers  # noqa: E402
from bezier import _geometric_intersection, _triangle_intersection, _intersection_helpers  # noqa: E402
from bezier.hazmat import intersection_helpers as _hz_ih  # noqa: E402

try:
    from bezier import _speedup
except ImportError:
    _speedup = None

MODULES = {"_curve_helpers": _curve_helpers, "_helpers": _helpers, "_triangle_helpers": _triangle_helpers,
           "_geometric_intersection": _geometric_intersection, "_triangle_intersection": _triangle_intersection,
           "_intersection_helpers": _intersection_helpers, "_speedup": _speedup}


class _SelfTest:
    """deliberately impure functions: only reachable with C14_SELFTEST=1 (shows that the oracle can fail)"""
    n = 0
    buf = None

    @staticmethod
    def counter(x):
        _SelfTest.n += 1
        return x + (1.0 if _SelfTest.n > 3 else 0.0)

    @staticmethod
    def mutate(a):
        a[0, 0] += 1.0
        return float(a.sum())

    @staticmethod
    def remember(a):
        _SelfTest.buf = np.array(a)
        return _SelfTest.buf

    @staticmethod
    def crash():
        sys.stderr.write("Fortran runtime error: Index '3' of dimension 2 of array 'x' above upper bound of 2 (simulated)\n")
        sys.stderr.flush()
        os.abort()

    @staticmethod
    def poke():
        if _SelfTest.buf is not None:
            _SelfTest.buf *= 2.0
        return None


if os.environ.get("C14_SELFTEST") == "1":
    MODULES["_selftest"] = _SelfTest
CLASSES = {"Curve": bezier.Curve, "Triangle": bezier.Triangle, "CurvedPolygon": bezier.CurvedPolygon}
SHAPES = (bezier.Curve, bezier.Triangle, bezier.CurvedPolygon)


# ------------------------------------------------------------------------------------------ values
BUFFERS = {}


def mk_array(d):
    """array descriptor {"a": nested list, "layout": L} -> the Python value handed to the library"""
    lay = d.get("layout", "F")
    if lay == "list":
        return [list(map(float, r)) for r in d["a"]] if d["a"] and isinstance(d["a"][0], list) else list(map(float, d["a"]))
    if lay == "intlist":
        return [[int(x) for x in r] for r in d["a"]]
    a = np.array(d["a"], dtype=np.float64)
    if d.get("buf"):
        # a caller-owned buffer that lives as long as the process: refilled in place and handed over again (the same array
        # OBJECT with other values); in a fresh process it is simply a new array
        key = (d["buf"], a.shape, lay)
        if key in BUFFERS:
            BUFFERS[key][...] = a
        else:
            BUFFERS[key] = np.asfortranarray(a) if lay == "F" else np.ascontiguousarray(a)
        return BUFFERS[key]
    if lay == "F":
        return np.asfortranarray(a)
    if lay == "C":
        return np.ascontiguousarray(a)
    if lay == "int":
        return np.ascontiguousarray(a.astype(np.int64))
    if lay == "intF":
        return np.asfortranarray(a.astype(np.int64))
    if lay == "i4":
        return np.asfortranarray(a.astype(np.int32))
    if lay == "f4":
        return np.asfortranarray(a.astype(np.float32))
    if lay == "view":                      # non-contiguous view, C parent
        big = np.full((a.shape[0], 2 * a.shape[1]), 7.5)
        big[:, ::2] = a
        return big[:, ::2]
    if lay == "viewF":                     # non-contiguous view, Fortran parent
        big = np.full((2 * a.shape[0], a.shape[1]), 7.5, order="F")
        big[::2, :] = a
        return big[::2, :]
    if lay == "rev":                       # negative strides
        return np.ascontiguousarray(a[:, ::-1])[:, ::-1]
    raise ValueError("layout " + lay)


def integral(a):
    return all(float(x).is_integer() and abs(x) < 2 ** 31 for r in a for x in r)


def f32_exact(a):
    return all(float(np.float32(x)) == x for r in a for x in r)


def build(rec):
    """shape recipe -> fresh object"""
    cls = rec["cls"]
    if cls == "CurvedPolygon":
        edges = [build(e) for e in rec["edges"]]
        md = rec.get("metadata")
        if md is not None:
            md = tuple(tuple(t) for t in md)
        return bezier.CurvedPolygon(*edges, metadata=md, verify=False)
    nodes = mk_array(rec["nodes"])
    k = CLASSES[cls]
    ctor = rec.get("ctor", "init")
    if ctor == "from_nodes":
        return k.from_nodes(nodes, copy=rec.get("copy", True))
    return k(nodes, rec["degree"], copy=rec.get("copy", True), verify=rec.get("verify", True))


def recipe_of(obj):
    if isinstance(obj, bezier.CurvedPolygon):
        md = obj._metadata
        return {"cls": "CurvedPolygon", "edges": [recipe_of(e) for e in obj._edges],
                "metadata": None if md is None else [[int(t[0]), float(t[1]), float(t[2])] for t in md]}
    name = "Curve" if isinstance(obj, bezier.Curve) else "Triangle"
    return {"cls": name, "nodes": {"a": obj._nodes.tolist(), "layout": "F"}, "degree": int(obj._degree),
            "verify": False}


class MissingRef(Exception):
    pass


class CallTimeout(BaseException):
    """a single call ran longer than CALL_LIMIT seconds: performance pathology, not a purity question"""


CALL_LIMIT = float(os.environ.get("C14_CALL_LIMIT", "6"))


def _on_alarm(signum, frame):
    raise CallTimeout()


def global_state():
    """process-wide state a library call must leave alone (it changes what LATER calls of anything do): NumPy's floating-point error
    handling and print options, the interpreter's recursion limit, the warnings filters, the global random generators"""
    import random as _random
    import warnings as _warnings
    st = {"np.geterr": tuple(sorted(np.geterr().items())), "np.geterrcall": repr(np.geterrcall()),
          "np.printoptions": repr(sorted((k, repr(v)) for k, v in np.get_printoptions().items())),
          "sys.recursionlimit": sys.getrecursionlimit(), "warnings.filters": len(_warnings.filters),
          "random.state": hash(_random.getstate()), "np.random.state": hash(np.random.get_state()[1].tobytes())}
    return st


def timed(fn, self_obj, args, kw):
    signal.signal(signal.SIGALRM, _on_alarm)
    signal.setitimer(signal.ITIMER_REAL, CALL_LIMIT)
    try:
        return do_call(fn, self_obj, args, kw)
    finally:
        signal.setitimer(signal.ITIMER_REAL, 0)


def resolve(x, pool, recipes, out_desc):
    """desc value -> (python value, resolved desc value); refs become recipes in the resolved desc"""
    if isinstance(x, dict):
        if "ref" in x:
            rid = x["ref"]
            if rid not in pool:
                raise MissingRef(rid)
            ent = pool[rid]
            if isinstance(ent, list):          # kept results of an earlier call
                if not ent:
                    raise MissingRef(rid + ":empty")
                j = x.get("pick", 0) % len(ent)
                return ent[j][0], ent[j][1]
            return ent[0], ent[1]
        if "cls" in x:
            return build(x), x
        if "a" in x:
            return mk_array(x), x
        if "enum" in x:
            return getattr(_hz_ih.IntersectionStrategy, x["enum"]), x
        if "tuple" in x:
            vs = [resolve(y, pool, recipes, out_desc) for y in x["tuple"]]
            return tuple(v[0] for v in vs), {"tuple": [v[1] for v in vs]}
        if "edge_nodes_of" in x:              # tuple of the raw edge node arrays of a curved polygon / triangle
            obj, rec = resolve(x["edge_nodes_of"], pool, recipes, out_desc)
            if not isinstance(obj, bezier.CurvedPolygon):
                raise MissingRef("not-a-polygon")
            return tuple(e._nodes for e in obj._edges), {"edge_nodes_of": rec}
        raise ValueError(x)
    if isinstance(x, list):
        vs = [resolve(y, pool, recipes, out_desc) for y in x]
        return [v[0] for v in vs], [v[1] for v in vs]
    return x, x


def do_call(fn, self_obj, args, kw):
    if fn == "new":
        return args[0]
    head, _, attr = fn.partition(".")
    if head in CLASSES:
        if not attr:
            return CLASSES[head](*args, **kw)
        if self_obj is None:
            return getattr(CLASSES[head], attr)(*args, **kw)
        member = getattr(type(self_obj), attr, None)
        if isinstance(member, property):
            return getattr(self_obj, attr)
        return getattr(self_obj, attr)(*args, **kw)
    return getattr(MODULES[head], attr)(*args, **kw)


# ------------------------------------------------------------------------------------------ normal forms
def norm(x):
    """bit-exact, picklable, comparable description of a result"""
    if isinstance(x, np.ndarray):
        return ("nd", x.dtype.str, x.shape, bool(x.flags.f_contiguous), bool(x.flags.c_contiguous),
                np.ascontiguousarray(x).tobytes())
    if isinstance(x, np.generic):
        return ("np", x.dtype.str, x.tobytes())
    if isinstance(x, bool) or x is None or isinstance(x, (int, str)):
        return ("py", type(x).__name__, x)
    if isinstance(x, float):
        return ("f", x.hex())
    if isinstance(x, (tuple, list)):
        return (type(x).__name__, tuple(norm(y) for y in x))
    if isinstance(x, bezier.CurvedPolygon):
        return ("CurvedPolygon", tuple(norm(e) for e in x._edges), norm(x._metadata), x._num_sides)
    if isinstance(x, (bezier.Curve, bezier.Triangle)):
        return (type(x).__name__, int(x._degree), int(x._dimension), norm(x._nodes))
    if isinstance(x, BaseException):
        return ("exc", type(x).__name__)
    return ("repr", repr(x))


def strip_flags(n):
    """normal form without memory-order flags (layout comparison is about values)"""
    if isinstance(n, tuple):
        if n and n[0] == "nd":
            return ("nd", n[1], n[2], n[5])
        return tuple(strip_flags(y) for y in n)
    return n


def describe(n, depth=0):
    """short human rendering of a normal form"""
    if not isinstance(n, tuple) or not n:
        return repr(n)
    t = n[0]
    if t == "nd":
        try:
            arr = np.frombuffer(n[5], dtype=np.dtype(n[1])).reshape(n[2])
            s = np.array2string(arr, precision=17, threshold=12).replace("\n", "")
        except Exception:
            s = "?"
        return "ndarray%s%s" % (n[2], s[:160])
    if t == "np":
        return repr(np.frombuffer(n[2], dtype=np.dtype(n[1]))[0])
    if t == "f":
        return repr(float.fromhex(n[1]))
    if t == "py":
        return repr(n[2])
    if t == "exc":
        return "raises " + n[1]
    if t in ("tuple", "list"):
        return t + "(" + ", ".join(describe(y, depth + 1) for y in n[1][:6]) + ")"
    if t in ("Curve", "Triangle"):
        return "%s(deg %d, %s)" % (t, n[1], describe(n[3]))
    if t == "CurvedPolygon":
        return "CurvedPolygon(%d sides)" % n[3]
    return repr(n)[:120]


def arrays_in(x, label, out):
    """caller-visible arrays reachable from a value"""
    if isinstance(x, np.ndarray):
        out.append((label, x))
    elif isinstance(x, (tuple, list)):
        for i, y in enumerate(x):
            arrays_in(y, "%s[%d]" % (label, i), out)
    elif isinstance(x, bezier.CurvedPolygon):
        for i, e in enumerate(x._edges):
            arrays_in(e, "%s.edge%d" % (label, i), out)
    elif isinstance(x, bezier.Triangle):
        out.append((label + "._nodes", x._nodes))
    elif isinstance(x, bezier.Curve):
        out.append((label + "._nodes", x._nodes))


def ahash(a):
    return hash((a.dtype.str, a.shape, a.strides, bool(a.flags.writeable), a.tobytes(order="A")))


def shapes_in(x, out):
    if isinstance(x, SHAPES):
        out.append(x)
    elif isinstance(x, (tuple, list)):
        for y in x:
            shapes_in(y, out)


# ------------------------------------------------------------------------------------------ model ops
CURVE_FNS = ("Curve.intersect", "_geometric_intersection.all_intersections")
TRI_FNS = ("Triangle.intersect", "_triangle_intersection.geometric_intersect")
EXC_STATUS = {"ValueError": 2, "NotImplementedError": 1, "RuntimeError": 5}


def model_op(desc, self_obj, result, raised):
    """the abstract operation this call is for the Lean machine (None: does not touch the hidden state)"""
    fn = desc["fn"]
    strat = desc.get("kw", {}).get("strategy", {"enum": "GEOMETRIC"})
    if not isinstance(strat, dict):
        return None                                        # invalid strategy: raises before any work
    algebraic = strat.get("enum") == "ALGEBRAIC"
    if fn in CURVE_FNS and not algebraic:
        if raised is not None:
            st = EXC_STATUS.get(type(raised).__name__)
            return None if st is None or st == 5 else [0, st, 0]
        cols = result[0] if isinstance(result, tuple) else result
        return [0, 0, int(cols.shape[1])]
    if fn in TRI_FNS and not algebraic:
        if raised is not None:
            st = EXC_STATUS.get(type(raised).__name__)
            return None if st is None else [1, st, 0, []]
        if isinstance(result, tuple):                      # raw (edge_infos, contained, all_edge_nodes)
            infos, contained, _ = result
            if infos is None:
                return [1, 0, 1 if contained else 2, []]
            return [1, 0, 0, [len(t) for t in infos]]
        if len(result) == 1 and isinstance(result[0], bezier.Triangle):
            return [1, 0, 1 if result[0] is self_obj else 2, []]
        return [1, 0, 0, [int(p.num_sides) for p in result]]
    if fn == "_speedup.free_curve_intersections_workspace":
        return [2]
    if fn == "_speedup.free_triangle_intersections_workspace":
        return [3]
    if fn == "_speedup.reset_curves_workspace" and raised is None:
        return [6, int(desc["args"][0])]
    if fn == "_speedup.reset_triangle_workspaces" and raised is None:
        kw = desc.get("kw", {})
        ops = []
        if kw.get("segment_ends_size", -1) != -1:
            ops.append([7, int(kw["segment_ends_size"])])
        if kw.get("segments_size", -1) != -1:
            ops.append([8, int(kw["segments_size"])])
        return ("multi", ops)
    return None


def hidden_sizes():
    if _speedup is None:
        return None
    e, s = _speedup.triangle_workspace_sizes()
    return (int(_speedup.curves_workspace_size()), int(e), int(s))


# ------------------------------------------------------------------------------------------ the history runner
WINDOW = 48
FULL_SWEEP = 64


def run_history(descs, emit):
    """executed in a child of the template: run the calls in order, `emit(record)` after each one"""
    pool = {}            # id -> (object, recipe)  |  id -> [(object, recipe), ...]
    registry = []        # [label, array, hash, kind]
    seen = set()
    emit({"start": True, "sizes": hidden_sizes()})

    by_id = {}

    def register(label, arr, kind):
        if id(arr) in seen:
            if any(arr is b for b in BUFFERS.values()):
                # a caller-owned buffer that THIS HARNESS has just refilled for the coming call: its recorded hash is brought
                # up to date (every call is followed by a sweep, so a write by the library was seen before the refill)
                by_id[id(arr)][2] = ahash(arr)
            return
        seen.add(id(arr))
        registry.append([label, arr, ahash(arr), kind])
        by_id[id(arr)] = registry[-1]

    def refresh_caches():
        # cached edges appear lazily: register them when first seen
        for rid, ent in list(pool.items()):
            ents = ent if isinstance(ent, list) else [ent]
            for obj, _ in ents:
                if isinstance(obj, bezier.Triangle) and obj._edges is not None:
                    for k, e in enumerate(obj._edges):
                        register("%s._edges[%d]._nodes" % (rid, k), e._nodes, "cache")

    def sweep(full):
        events = []
        n = len(registry)
        for i, ent in enumerate(registry):
            if not full and ent[3] == "value" and i < n - WINDOW:
                continue
            h = ahash(ent[1])
            if h != ent[2]:
                events.append((ent[3], ent[0]))
                ent[2] = h
        return events

    gstate = [global_state()]
    for pos, desc in enumerate(descs):
        rec = {"i": desc.get("i", pos), "fn": desc["fn"]}
        try:
            res_desc = {"fn": desc["fn"]}
            self_obj = None
            if desc.get("self") is not None:
                self_obj, res_desc["self"] = resolve(desc["self"], pool, None, None)
            args, res_desc["args"] = resolve(desc.get("args", []), pool, None, None)
            kw = {}
            res_desc["kw"] = {}
            for k, v in desc.get("kw", {}).items():
                kw[k], res_desc["kw"][k] = resolve(v, pool, None, None)
        except MissingRef as e:
            rec["skipped"] = "missing-ref:" + str(e)
            emit(rec)
            continue
        ins = []
        arrays_in(args, "arg", ins)
        arrays_in(list(kw.values()), "kw", ins)
        for lab, a in ins:
            register("call%d.%s" % (rec["i"], lab), a, "input" if lab.find("_nodes") < 0 else "shape")
        if self_obj is not None:
            tmp = []
            arrays_in(self_obj, "self", tmp)
            for lab, a in tmp:
                register("call%d.%s" % (rec["i"], lab), a, "shape")
        emit({"begin": desc["fn"]})
        t0 = time.perf_counter()
        raised = None
        result = None
        try:
            result = timed(desc["fn"], self_obj, args, kw)
        except CallTimeout:
            rec["skipped"] = "timeout:" + desc["fn"]
            emit(rec)
            continue
        except Exception as e:           # noqa: BLE001 - the exception type is the result
            raised = e
        rec["t"] = time.perf_counter() - t0
        rec["norm"] = norm(raised if raised is not None else result)
        rec["resolved"] = res_desc
        rec["sizes"] = hidden_sizes()
        rec["op"] = model_op(desc, self_obj, result, raised)
        # aliasing of the result with inputs / internal arrays (informational)
        outs = []
        arrays_in(result, "ret", outs)
        alias = []
        own = [(lab, a) for lab, a in ins]
        if self_obj is not None:
            arrays_in(self_obj, "self", own)
        for lab, a in outs:
            for lab2, b in own:
                if a is b or (np.may_share_memory(a, b) and np.shares_memory(a, b)):
                    alias.append(lab2.split("[")[0].split(".")[0])
        rec["alias"] = sorted(set(alias)) if desc["fn"] != "new" else []
        for lab, a in outs:
            register("call%d.%s" % (rec["i"], lab), a, "value" if lab.find("_nodes") < 0 else "shape")
        # the CALLER's ordinary use of a returned array: modify it in place (normalise a tangent, scale parameters ...).  Done
        # for results that nothing later in the history refers to and that do not share memory with an argument or a known
        # array of a shape; if the library handed out one of its own buffers or caches, later calls see the scribble and differ
        # from the same call in a fresh process
        if raised is None and desc["fn"] != "new" and not desc.get("keep") and not rec["alias"]:
            for lab, a in outs:
                if lab.find("_nodes") < 0 and isinstance(a, np.ndarray) and a.flags.writeable and a.dtype.kind == "f" and a.size \
                        and id(a) in by_id:
                    a[...] = a * -0.75 + 13.0
                    by_id[id(a)][2] = ahash(a)
        # pool bookkeeping
        if desc["fn"] == "new" and raised is None:
            pool[desc["id"]] = (result, desc["args"][0])
            tmp = []
            arrays_in(result, desc["id"], tmp)
            for lab, a in tmp:
                register(lab, a, "shape")
        elif desc.get("keep") and raised is None:
            shp = []
            shapes_in(result, shp)
            pool["r%d" % rec["i"]] = [(o, recipe_of(o)) for o in shp]
        refresh_caches()
        full = (pos % FULL_SWEEP == FULL_SWEEP - 1) or pos == len(descs) - 1
        rec["events"] = sweep(full)
        gnow = global_state()
        for gk in gnow:
            if gnow[gk] != gstate[0].get(gk):
                rec["events"].append(("global", "%s: %s -> %s" % (gk, str(gstate[0].get(gk))[:120], str(gnow[gk])[:120])))
        gstate[0] = gnow
        rec["full"] = full
        emit(rec)


def run_single(resolved):
    """executed in a pristine child: the one call, alone"""
    self_obj = None
    if resolved.get("self") is not None:
        self_obj, _ = resolve(resolved["self"], {}, None, None)
    args, _ = resolve(resolved.get("args", []), {}, None, None)
    kw = {k: resolve(v, {}, None, None)[0] for k, v in resolved.get("kw", {}).items()}
    try:
        out = timed(resolved["fn"], self_obj, args, kw)
    except CallTimeout:
        return ("timeout",)
    except Exception as e:               # noqa: BLE001
        out = e
    return norm(out)


LAYOUTS = ("F", "C", "list", "view", "viewF", "rev", "copyFalse", "from_nodes", "int", "intF", "intlist", "i4", "f4",
           # copy=False together with every container / dtype / memory order (the constructor may then keep the caller's array:
           # whatever it keeps must still be usable by every method)
           "copyFalse:C", "copyFalse:list", "copyFalse:view", "copyFalse:int", "copyFalse:intlist", "copyFalse:i4", "copyFalse:f4")


def relayout(rec, lay):
    """the same shape recipe with its control points presented in another layout (None: not applicable)"""
    if rec.get("cls") not in ("Curve", "Triangle"):
        return None
    a = rec["nodes"]["a"]
    out = dict(rec)
    out["copy"] = True
    if lay.startswith("copyFalse:"):
        lay = lay.split(":", 1)[1]
        out["copy"] = False
    if lay == "copyFalse":
        out["nodes"] = {"a": a, "layout": "F"}
        out["copy"] = False
    elif lay == "from_nodes":
        out["nodes"] = {"a": a, "layout": "C"}
        out["ctor"] = "from_nodes"
    elif lay in ("int", "intF", "intlist", "i4"):
        if not integral(a):
            return None
        out["nodes"] = {"a": a, "layout": lay}
    elif lay == "f4":
        if not f32_exact(a):
            return None
        out["nodes"] = {"a": a, "layout": lay}
    else:
        out["nodes"] = {"a": a, "layout": lay}
    return out


def run_layouts(resolved):
    """executed in a child: the call with `self` (and shape arguments) rebuilt in every layout"""
    outs = {}
    for lay in LAYOUTS:
        r2 = dict(resolved)
        if resolved.get("self") is None or relayout(resolved["self"], lay) is None:
            continue
        r2["self"] = relayout(resolved["self"], lay)
        r2["args"] = [relayout(x, lay) or x if isinstance(x, dict) and "cls" in x else x for x in resolved.get("args", [])]
        outs[lay] = run_single(r2)
    return outs


# ------------------------------------------------------------------------------------------ jobs (fork)
def _write_frame(fd, obj):
    data = pickle.dumps(obj, protocol=4)
    os.write(fd, struct.pack("<Q", len(data)))
    off = 0
    while off < len(data):
        off += os.write(fd, data[off:off + (1 << 16)])


class Job:
    def __init__(self, func, payload, stream):
        self.frames = []
        self.buf = b""
        self.errfile = tempfile.NamedTemporaryFile(prefix="c14-", suffix=".err", delete=False)
        r, w = os.pipe()
        sys.stdout.flush()
        pid = os.fork()
        if pid == 0:
            code = 0
            try:
                os.close(r)
                os.dup2(self.errfile.fileno(), 2)
                if stream:
                    func(payload, lambda rec: _write_frame(w, rec))
                else:
                    _write_frame(w, func(payload))
            except BaseException:        # noqa: BLE001
                try:
                    _write_frame(w, {"job_error": traceback.format_exc()})
                except BaseException:    # noqa: BLE001
                    pass
                code = 3
            os._exit(code)
        os.close(w)
        self.fd = r
        self.pid = pid
        self.status = None

    def feed(self):
        chunk = os.read(self.fd, 1 << 20)
        if not chunk:
            return False
        self.buf += chunk
        while len(self.buf) >= 8:
            n = struct.unpack("<Q", self.buf[:8])[0]
            if len(self.buf) < 8 + n:
                break
            self.frames.append(pickle.loads(self.buf[8:8 + n]))
            self.buf = self.buf[8 + n:]
        return True

    def finish(self):
        os.close(self.fd)
        _, st = os.waitpid(self.pid, 0)
        self.status = st
        try:
            with open(self.errfile.name, "rb") as fh:
                fh.seek(max(0, os.path.getsize(self.errfile.name) - 3000))
                self.stderr = fh.read().decode("utf8", "replace")
        finally:
            self.errfile.close()
            os.unlink(self.errfile.name)

    @property
    def crashed(self):
        return self.status != 0


def run_jobs(func, payloads, par, stream=False):
    """run func(payload) in forked children, at most `par` at a time; returns the Job objects in order"""
    jobs = [None] * len(payloads)
    active = {}
    nxt = 0
    while nxt < len(payloads) or active:
        while nxt < len(payloads) and len(active) < par:
            j = Job(func, payloads[nxt], stream)
            jobs[nxt] = j
            active[j.fd] = j
            nxt += 1
        ready, _, _ = select.select(list(active), [], [], 60)
        for fd in ready:
            j = active[fd]
            if not j.feed():
                del active[fd]
                j.finish()
    return jobs


def _hist_job(descs, emit):
    run_history(descs, emit)


PAR = int(os.environ.get("C14_PAR", "6"))


def dkey(resolved):
    return json.dumps(resolved, sort_keys=True)


class Pristine:
    """results of single calls executed alone in pristine children, cached by resolved call"""

    def __init__(self):
        self.cache = {}
        self.executed = 0

    def ensure(self, resolveds):
        todo = {}
        for r in resolveds:
            k = dkey(r)
            if k not in self.cache and k not in todo:
                todo[k] = r
        keys = list(todo)
        jobs = run_jobs(run_single, [todo[k] for k in keys], PAR)
        for k, j in zip(keys, jobs):
            self.executed += 1
            if j.crashed or not j.frames or (isinstance(j.frames[0], dict) and "job_error" in j.frames[0]):
                self.cache[k] = ("crash", j.status, (j.stderr or "")[-400:] if not j.frames else str(j.frames[0])[-400:])
            else:
                self.cache[k] = j.frames[0]

    def get(self, resolved):
        return self.cache[dkey(resolved)]


# ------------------------------------------------------------------------------------------ analysis
def records(job):
    return [f for f in job.frames if "start" not in f and "job_error" not in f and "begin" not in f]


def analyse(job, pristine):
    """records of one history -> list of failures {key, what, index} (index = position in the history)"""
    recs = records(job)
    fails = []
    jerr = [f for f in job.frames if "job_error" in f]
    if jerr:
        raise SystemExit("history runner failed:\n" + jerr[0]["job_error"])
    done = [r for r in recs if "norm" in r]
    pristine.ensure([r["resolved"] for r in done])
    for pos, r in enumerate(recs):
        if "norm" not in r:
            continue
        p = pristine.get(r["resolved"])
        if is_timeout(p):
            continue
        if p != r["norm"]:
            if isinstance(p, tuple) and p and p[0] == "crash":
                fails.append({"key": "pristine-crash:" + r["fn"], "index": pos,
                              "what": "%s crashes when executed alone: %s" % (r["fn"], p[2])})
            else:
                fails.append({"key": "history-dependence:" + r["fn"], "index": pos,
                              "what": "%s after %d earlier calls gives %s, alone in a fresh process %s" %
                                      (r["fn"], pos, describe(r["norm"]), describe(p))})
        for kind, label in r.get("events", []):
            if kind == "global":
                fails.append({"key": "global-state-changed:" + r["fn"], "index": pos,
                              "what": "call %d (%s) left process-wide state changed - %s - so that later calls of the library (and of "
                                      "anything else in the process) behave differently from the same calls in a fresh process" %
                                      (pos, r["fn"], label)})
                continue
            key = {"input": "input-mutated:", "value": "returned-mutated:", "shape": "shape-mutated:",
                   "cache": "cache-mutated:"}[kind] + r["fn"]
            fails.append({"key": key, "index": pos,
                          "what": "array %s changed during call %d (%s)%s" %
                                  (label, pos, r["fn"], " (or one of the %d calls before)" % FULL_SWEEP if kind == "value" and r.get("full") else "")})
    if job.crashed:
        pos = len(recs)
        begun = [f["begin"] for f in job.frames if "begin" in f]
        site = begun[-1] if begun else "?"
        fails.append({"key": "crash:" + site, "index": pos,
                      "what": "process died (wait status %s) inside call %d (%s) of the history: %s" %
                              (job.status, pos, site, (job.stderr or "")[-500:])})
    return fails


def needed(descs, keep_idx):
    """close a set of positions under the references they use (producers must stay)"""
    by_id = {}
    for p, d in enumerate(descs):
        if d["fn"] == "new":
            by_id[d["id"]] = p
        if d.get("keep"):
            by_id["r%d" % d.get("i", p)] = p
    keep = set(keep_idx)
    work = list(keep)

    def refs(x, acc):
        if isinstance(x, dict):
            if "ref" in x:
                acc.append(x["ref"])
            for v in x.values():
                refs(v, acc)
        elif isinstance(x, list):
            for v in x:
                refs(v, acc)
    while work:
        p = work.pop()
        acc = []
        refs(descs[p], acc)
        for rid in acc:
            q = by_id.get(rid)
            if q is not None and q not in keep:
                keep.add(q)
                work.append(q)
    return sorted(keep)


def minimise(descs, fail, pristine, budget_s=25.0, max_runs=150):
    """delta debugging: drop calls while a failure with the same key persists on the last call"""
    key = fail["key"]
    cur = list(range(fail["index"] + 1)) if fail["index"] < len(descs) else list(range(len(descs)))
    cur = [p for p in cur]
    t0 = time.time()
    runs = 0

    def fails_with(idx):
        nonlocal runs
        runs += 1
        sub = [descs[p] for p in idx]
        job = run_jobs(_hist_job, [sub], 1, stream=True)[0]
        return any(f["key"] == key for f in analyse(job, pristine))

    last = cur[-1]
    n = 2
    while len(cur) > 1 and time.time() - t0 < budget_s and runs < max_runs:
        body = cur[:-1]
        chunk = max(1, len(body) // n)
        reduced = False
        for start in range(0, len(body), chunk):
            cand = needed(descs, body[:start] + body[start + chunk:] + [last])
            if len(cand) >= len(cur):
                continue
            if fails_with(cand):
                cur = cand
                n = max(n - 1, 2)
                reduced = True
                break
            if time.time() - t0 > budget_s or runs >= max_runs:
                break
        if not reduced:
            if chunk == 1:
                break
            n = min(len(body), n * 2)
    return [descs[p] for p in cur], runs


# ------------------------------------------------------------------------------------------ static ties to /repo
REPO = os.environ.get("BEZIER_REPO", "/repo")
EXC_CODE = {"ValueError": 2, "NotImplementedError": 3, "RuntimeError": 4}


def extract_pyx():
    """standalone extractor for the literals of `_speedup.pyx` that harness/extract.py does not produce:
    initial workspace sizes, defaults of the retry arguments, the status -> exception chains"""
    with open(os.path.join(REPO, "src/python/bezier/_speedup.pyx")) as fh:
        src = fh.read()
    out = {}
    m = re.search(r"CURVES_WORKSPACE = np\.empty\(\((\d+), (\d+)\), order=\"F\"\)", src)
    out["curves"] = (int(m.group(1)), int(m.group(2)))
    out["segment_ends"] = int(re.search(r"SEGMENT_ENDS_WORKSPACE = np\.empty\((\d+), dtype=np\.intc\)", src).group(1))
    out["segments"] = int(re.search(r"SEGMENTS_WORKSPACE = np\.empty\(\s*(\d+), dtype=SEGMENT_DTYPE\)", src).group(1))
    out["resizes_allowed"] = int(re.search(r"def triangle_intersections\([^)]*resizes_allowed=(\d+)\)", src, re.S).group(1))
    out["allow_resize"] = re.search(r"def curve_intersections\([^)]*allow_resize=(\w+)\)", src, re.S).group(1)

    def chain(fname):
        body = re.search(r"\ndef %s\(.*?\n(?=def |\Z)" % fname, src, re.S).group(0)
        table = []
        els = None
        parts = re.split(r"\n    (?:if|elif) status == bezier\._status\.Status\.(\w+):", body)
        for name, blk in zip(parts[1::2], parts[2::2]):
            main, _, tail = blk.partition("\n    else:")
            if name == "INSUFFICIENT_SPACE":
                act = 1
            elif name == "SUCCESS":
                act = 0
            else:
                act = EXC_CODE[re.search(r"raise (\w+)\(", main).group(1)]
            table.append((name, act))
            if tail:
                els = EXC_CODE[re.search(r"raise (\w+)\(", tail).group(1)]
        return table, els
    out["curve_chain"] = chain("curve_intersections")
    out["triangle_chain"] = chain("triangle_intersections")
    # the recursion of the resize helper: allowance decremented by one, retried only while positive
    rz = re.search(r"\ndef _triangle_intersections_resize\(.*?\n(?=def )", src, re.S).group(0)
    out["resize_logic"] = bool(re.search(r"if resizes_allowed > 0:", rz)) and \
        bool(re.search(r"resizes_allowed=resizes_allowed - 1", rz)) and \
        bool(re.search(r"if num_intersected > segment_ends_size:\s+reset_triangle_workspaces\(segment_ends_size=num_intersected\)", rz)) and \
        bool(re.search(r"num_segments = SEGMENT_ENDS_WORKSPACE\[num_intersected - 1\]\s+reset_triangle_workspaces\(segments_size=num_segments\)", rz))
    cv = re.search(r"\ndef curve_intersections\(.*?\n(?=def )", src, re.S).group(0)
    out["curve_retry_logic"] = bool(re.search(
        r"if allow_resize:\s+reset_curves_workspace\(num_intersections\)\s+return curve_intersections\(\s+nodes_first, nodes_second, allow_resize=False\)", cv))
    return out, src


def static_checks(res):
    ext, src = extract_pyx()
    consts = C.driver_call("proto_consts")[1]
    tab = C.driver_call("proto_status_table")[1]
    model_consts = [int(x) for x in consts]
    impl_consts = [ext["curves"][1], ext["segment_ends"], ext["segments"], ext["resizes_allowed"]]
    res.count(("consts", tuple(impl_consts)), kind="static")
    if model_consts != impl_consts or ext["curves"][0] != 2 or ext["allow_resize"] != "True":
        res.mismatch("proto_consts", {"pyx": ext}, impl_consts, model_consts,
                     "initial workspace sizes / resizes_allowed of _speedup.pyx differ from Model/Protocol")
    if not (ext["resize_logic"] and ext["curve_retry_logic"]):
        res.mismatch("retry-logic", {}, [ext["resize_logic"], ext["curve_retry_logic"]], [True, True],
                     "the resize / retry statements of _speedup.pyx no longer have the transcribed form")
    # status enum: status.f90 (extracted), status.h, _status.pxd agree; the model knows every code
    gen = {}
    with open(os.path.join(C.LEAN, "BezierVerif", "Generated", "Data.lean")) as fh:
        for m in re.finditer(r"def f90_status_Status_(\w+) : Int := (-?\d+)", fh.read()):
            gen[m.group(1)] = int(m.group(2))
    with open(os.path.join(REPO, "src/python/bezier/_status.pxd")) as fh:
        pxd = {m.group(1): int(m.group(2)) for m in re.finditer(r"^\s+(\w+) = (\d+)\s*$", fh.read(), re.M)}
    with open(os.path.join(REPO, "src/fortran/include/bezier/status.h")) as fh:
        hdr = {m.group(1): int(m.group(2)) for m in re.finditer(r"^\s+(\w+) = (\d+),", fh.read(), re.M)}
    res.count(("status-enum", tuple(sorted(gen.items()))), kind="static")
    if not (gen == hdr == pxd):
        res.mismatch("status-enum", {}, {"f90": gen, "h": hdr, "pxd": pxd}, None, "status enums disagree between status.f90 / status.h / _status.pxd")
    model_codes = sorted(int(x) for x in tab[0])
    if sorted(gen.values()) != model_codes:
        res.mismatch("status-codes", {}, sorted(gen.values()), model_codes, "Model/Protocol.allStatusCodes is not the extracted enum")
    for name, (chain, els), mt, me in (("curve", ext["curve_chain"], tab[1], tab[2]), ("triangle", ext["triangle_chain"], tab[3], tab[4])):
        impl = [[gen.get(n, -1), a] for n, a in chain]
        model = [[int(a), int(b)] for a, b in mt]
        res.count(("chain", name, tuple(map(tuple, impl))), kind="static")
        if impl != model or els != int(me):
            res.mismatch("proto_status_table:" + name, {}, {"chain": impl, "else": els}, {"chain": model, "else": int(me)},
                         "status -> exception chain of _speedup.pyx differs from the transcribed table")
    # the generated C that is actually compiled carries the same source lines
    with open(os.path.join(REPO, "src/python/bezier/_speedup.c")) as fh:
        csrc = fh.read()
    lines = src.split("\n")
    marks = {}
    for m in re.finditer(r'/\* "bezier/_speedup\.pyx":(\d+)\n((?: \*.*\n)+?) \*/', csrc):
        for line in m.group(2).split("\n"):
            if line.endswith("# <<<<<<<<<<<<<<"):
                marks.setdefault(int(m.group(1)), set()).add(line[3:].replace("# <<<<<<<<<<<<<<", "").strip())
    stale = [ln for ln, codes in marks.items() if ln > len(lines) or lines[ln - 1].strip() not in codes]
    decisive = [i + 1 for i, l in enumerate(lines) if re.search(r"status == bezier\._status|if allow_resize|if resizes_allowed > 0|reset_curves_workspace\(num|reset_triangle_workspaces\(seg", l)
                and not l.lstrip().startswith("#")]
    uncovered = [ln for ln in decisive if ln not in marks]
    res.count(("pyx-c", len(marks)), kind="static")
    if stale or uncovered or len(marks) < 100:
        res.mismatch("pyx-vs-c", {}, {"stale_lines": stale[:10], "uncovered": uncovered[:10], "marked": len(marks)}, None,
                     "_speedup.c (what is compiled) was not generated from the current _speedup.pyx")
    # hypothesis `World.Sound`: INSUFFICIENT_SPACE is assigned only by the *_abi routines
    for f in ("curve_intersection.f90", "triangle_intersection.f90"):
        cur = None
        bad = []
        with open(os.path.join(REPO, "src/fortran", f)) as fh:
            for ln, line in enumerate(fh, 1):
                m = re.match(r"\s*subroutine (\w+)", line)
                if m:
                    cur = m.group(1)
                if re.search(r"status\s*=\s*Status_INSUFFICIENT_SPACE", line) and not (cur or "").endswith("_abi"):
                    bad.append((ln, cur))
        res.count(("sound", f), kind="static")
        if bad:
            res.mismatch("world-sound", {"file": f}, bad, [], "Status_INSUFFICIENT_SPACE assigned outside an *_abi routine: hypothesis of the C14 theorems broken")


# ------------------------------------------------------------------------------------------ model correspondence
def check_model(res, job, descs_len):
    """speedup: the observable hidden state after every call equals the Lean machine's prediction"""
    start = [f for f in job.frames if "start" in f]
    recs = [f for f in records(job) if "norm" in f]
    if not start or start[0]["sizes"] is None:
        return
    init = list(start[0]["sizes"])
    ops = []
    owners = []
    for k, r in enumerate(recs):
        op = r["op"]
        if op is None:
            continue
        if isinstance(op, tuple) and op[0] == "multi":
            for o in op[1]:
                ops.append(o)
                owners.append((k, False))
            if owners and op[1]:
                owners[-1] = (k, True)
            continue
        ops.append(op)
        owners.append((k, True))
    if not ops:
        return
    st, val = C.driver_call("proto_run", init, ops)
    rows = val[0]
    cur = list(init)
    pred = {}
    for (k, last), row in zip(owners, rows):
        tag, payload, w, e, s, pure_ok = [int(x) for x in row]
        cur = [w, e, s]
        if last:
            pred[k] = (tag, payload, pure_ok)
        pred[("sizes", k)] = list(cur)
    cur = list(init)
    for k, r in enumerate(recs):
        if ("sizes", k) in pred:
            cur = pred[("sizes", k)]
        res.count(("state", r["fn"], tuple(cur)), nontrivial=r["op"] is not None, state_ops=r["fn"] if r["op"] is not None else "other")
        if list(r["sizes"]) != cur:
            res.mismatch("proto_run:sizes", {"call": k, "fn": r["fn"], "op": r["op"], "init": init}, list(r["sizes"]), cur,
                         "workspace sizes after the call differ from the Lean machine")
            cur = list(r["sizes"])
            break
        if k in pred:
            tag, payload, pure_ok = pred[k]
            exc = r["norm"][1] if r["norm"][0] == "exc" else None
            want = {0: None, 2: "ValueError", 3: "NotImplementedError", 4: "RuntimeError"}.get(tag, "?")
            if want != exc or not pure_ok:
                res.mismatch("proto_run:result", {"call": k, "fn": r["fn"], "op": r["op"]}, exc, want,
                             "exception class differs from the status table / model result not the pure one")
    grew = [r for k, r in enumerate(recs) if k > 0 and r["sizes"] != recs[k - 1]["sizes"]]
    res.dist.setdefault("workspace_changes", {})
    res.dist["workspace_changes"]["histories_with_%s" % ("growth" if grew else "no_growth")] = \
        res.dist["workspace_changes"].get("histories_with_%s" % ("growth" if grew else "no_growth"), 0) + 1
    return tuple(max(r["sizes"][k] for r in recs) for k in range(3))


# ------------------------------------------------------------------------------------------ main
def fn_band(fn):
    if fn in CURVE_FNS:
        return "curve-intersect"
    if fn in TRI_FNS:
        return "triangle-intersect"
    if fn == "new":
        return "constructor"
    return fn.split(".")[0]


def result_band(n):
    if n[0] == "exc":
        return "raises:" + n[1]
    if n[0] == "nd" and len(n[2]) == 2 and n[2][0] == 2:
        c = n[2][1]
        return "2xN:N=%s" % (c if c < 3 else "3-8" if c <= 8 else "9+")
    return n[0]


SLOW = []


def process_history(res, descs, pristine, tag, minimise_budget):
    job = run_jobs(_hist_job, [descs], 1, stream=True)[0]
    return finish_history(res, descs, job, pristine, tag, minimise_budget)


def finish_history(res, descs, job, pristine, tag, minimise_budget):
    fails = analyse(job, pristine)
    recs = records(job)
    for r in recs:
        if "norm" not in r:
            res.skip(r.get("skipped", "?").split(":")[0])
            continue
        res.count((dkey(r["resolved"]),), nontrivial=r["fn"] != "new", call=fn_band(r["fn"]),
                  result=result_band(r["norm"]) if fn_band(r["fn"]).endswith("intersect") else None or "other")
        for a in r.get("alias", []):
            d = res.dist.setdefault("result_aliases", {})
            d[r["fn"] + "<-" + a] = d.get(r["fn"] + "<-" + a, 0) + 1
    for k, r in enumerate(recs):
        if "norm" in r and r["fn"] in CURVE_FNS + TRI_FNS and r["norm"][0] != "exc" and k > 10:
            res.sample({"call": r["fn"], "position_in_history": k, "result": describe(r["norm"])[:200],
                        "same_call_alone_in_fresh_process": describe(pristine.get(r["resolved"]))[:200],
                        "bitwise_equal": pristine.get(r["resolved"]) == r["norm"],
                        "workspace_sizes_after": r["sizes"], "model_op": r["op"]}, cap=4)
    for r in recs:
        if "t" in r:
            SLOW.append((round(r["t"], 3), r["fn"], dkey(r["resolved"])[:300]))
    SLOW.sort(reverse=True)
    del SLOW[5:]
    d = res.dist.setdefault("history_length", {})
    band = "<=60" if len(descs) <= 60 else "61-200" if len(descs) <= 200 else "201-1000" if len(descs) <= 1000 else ">1000"
    d[band] = d.get(band, 0) + 1
    seen = set()
    for f in fails:
        if f["key"] in seen:
            res.dist.setdefault("failure_keys", {})
            res.dist["failure_keys"][tag + f["key"]] = res.dist["failure_keys"].get(tag + f["key"], 0) + 1
            continue
        seen.add(f["key"])
        small, runs = (descs[:f["index"] + 1], 0)
        if minimise_budget > 0:
            small, runs = minimise(descs, f, pristine, budget_s=minimise_budget)
        res.failure(tag + f["key"], "%s [history of %d calls, minimised to %d in %d runs]" % (f["what"], f["index"] + 1, len(small), runs),
                    {"kind": "history", "descs": small, "key": f["key"], "debug": tag.startswith("fcheck")})
    return job, fails


def is_timeout(n):
    """the normalised outcome of a call stopped by the per-call time limit (list after the JSON round trip of a job frame)"""
    return isinstance(n, (tuple, list)) and len(n) == 1 and n[0] == "timeout"


def layout_checks(res, recs, pristine, rnd, limit):
    cands = [r for r in recs if "norm" in r and r["resolved"].get("self") and r["resolved"]["self"].get("cls") in ("Curve", "Triangle")]
    seen = set()
    picked = []
    rnd.shuffle(cands)
    for r in cands:
        k = dkey(r["resolved"])
        if k in seen:
            continue
        seen.add(k)
        picked.append(r)
        if len(picked) >= limit:
            break
    jobs = run_jobs(run_layouts, [r["resolved"] for r in picked], PAR)
    for r, j in zip(picked, jobs):
        if j.crashed or not j.frames or "job_error" in (j.frames[0] if isinstance(j.frames[0], dict) else {}):
            res.failure("layout-crash:" + r["fn"], "layout job died: %s" % ((j.stderr or "")[-300:] or j.frames), {"kind": "layout", "resolved": r["resolved"], "layout": "*"})
            continue
        base = strip_flags(pristine.get(r["resolved"]))
        for lay, n in j.frames[0].items():
            if is_timeout(n) or is_timeout(base):
                # the per-call time limit fired (a slow pure-Python call on a loaded machine): no outcome to compare - inconclusive,
                # never a layout dependence (false alarm of the multi-seed soak, seed 11)
                res.skip("layout-call-timeout:" + r["fn"])
                continue
            res.count(("layout", dkey(r["resolved"]), lay), layout=lay)
            if strip_flags(n) != base:
                res.failure("layout-dependence:%s:%s" % (r["fn"], lay),
                            "%s on the same control points given as %s: %s, as Fortran-ordered float64: %s" %
                            (r["fn"], lay, describe(n), describe(pristine.get(r["resolved"]))),
                            {"kind": "layout", "resolved": r["resolved"], "layout": lay})


def replay(res, rep, pristine):
    if rep["kind"] == "layout":
        pristine.ensure([rep["resolved"]])
        j = run_jobs(run_layouts, [rep["resolved"]], 1)[0]
        base = strip_flags(pristine.get(rep["resolved"]))
        for lay, n in (j.frames[0].items() if j.frames and not j.crashed else []):
            if is_timeout(n) or is_timeout(base):
                continue
            if (rep["layout"] in ("*", lay)) and strip_flags(n) != base:
                res.failure("layout-dependence:%s:%s" % (rep["resolved"]["fn"], lay), "%s vs %s" % (describe(n), describe(base)), rep)
        if j.crashed:
            res.failure("layout-crash:" + rep["resolved"]["fn"], "layout job died", rep)
        return
    job = run_jobs(_hist_job, [rep["descs"]], 1, stream=True)[0]
    for f in analyse(job, pristine):
        if f["key"] == rep["key"]:
            res.failure(f["key"], f["what"], rep)


def debug_subrun(res, seed):
    """thorough: the same history checks under the bounds-checked (-fcheck=all) build, in a separate interpreter"""
    import build_repo
    dbg = build_repo.build(debug=True)
    out = tempfile.NamedTemporaryFile(prefix="c14-dbg-", suffix=".json", delete=False)
    out.close()
    env = dict(os.environ, BEZIER_PKG=os.path.join(dbg, "pkg_speedup"), BEZIER_CONFIG="speedup", VERIF_RESULT=out.name,
               C14_SUB="fcheck", VERIF_SEED=str(seed + 1))
    env.pop("VERIF_REPLAY", None)
    r = subprocess.run([sys.executable, os.path.abspath(__file__)], env=env, stdout=subprocess.PIPE, stderr=subprocess.STDOUT, text=True)
    try:
        with open(out.name) as fh:
            sub = json.load(fh)
    except Exception:
        raise SystemExit("debug sub-run failed rc=%s:\n%s" % (r.returncode, r.stdout[-3000:]))
    finally:
        os.unlink(out.name)
    res.evaluations += sub["evaluations"]
    for k, v in sub["dist"].items():
        dd = res.dist.setdefault("fcheck:" + k, {})
        for kk, vv in v.items():
            dd[kk] = dd.get(kk, 0) + vv
    res.failures += sub["failures"]
    res.mismatches += [m for m in sub["mismatches"] if m]
    for m in sub["mismatches"]:
        if m:
            res.dist.setdefault("mismatch_ops", {})
            res.dist["mismatch_ops"]["fcheck:" + m["op"]] = res.dist["mismatch_ops"].get("fcheck:" + m["op"], 0) + 1
    res.notes.append("-fcheck=all build %s: %d calls in histories, %d failures" % (os.path.basename(dbg), sub["evaluations"], len(sub["failures"])))


def selftest(res, rnd, pristine, speedup):
    descs = GEN.history(rnd, 90, speedup)
    extra = [{"fn": "_selftest.counter", "args": [1.0]} for _ in range(5)] + \
            [{"fn": "_selftest.mutate", "args": [{"a": [[1.0, 2.0], [3.0, 4.0]], "layout": "F"}]},
             {"fn": "_selftest.remember", "args": [{"a": [[1.0, 2.0]], "layout": "F"}]}, {"fn": "_selftest.poke", "args": []}]
    pos = sorted(rnd.sample(range(20, len(descs)), len(extra)))
    for off, (p, e) in enumerate(zip(pos, extra)):
        descs.insert(p + off, dict(e, self=None, kw={}, keep=False))
    for k, d in enumerate(descs):
        if "i" not in d:
            d["i"] = 100000 + k
    job, fails = process_history(res, descs, pristine, "", 25.0)
    want = {"history-dependence:_selftest.counter": 4, "input-mutated:_selftest.mutate": 1, "returned-mutated:_selftest.poke": 2}
    ok = True
    for f in res.failures:
        n = len(f["replay"]["descs"])
        print("selftest:", f["key"], "minimised to", n, "calls")
        if f["key"] in want:
            exp = want.pop(f["key"])
            ok = ok and n == exp
        else:
            ok = False
    # replaying a minimised history reproduces the failure
    for f in list(res.failures):
        r2 = C.Result(PROP)
        replay(r2, f["replay"], pristine)
        print("selftest: replay of", f["key"], "->", "fails again" if r2.failures else "DOES NOT FAIL")
        ok = ok and bool(r2.failures)
    if speedup:
        # a wrong hidden state is noticed by the model correspondence
        r3 = C.Result(PROP)
        check_model(r3, job, len(descs))
        good = not r3.mismatches
        recs = [f for f in job.frames if "norm" in f]
        recs[len(recs) // 2]["sizes"] = tuple(x + 1 for x in recs[len(recs) // 2]["sizes"])
        check_model(r3, job, len(descs))
        print("selftest: model correspondence", "clean on the real run" if good else "DIRTY on the real run",
              "/ tampered state", "noticed" if r3.mismatches else "NOT noticed")
        ok = ok and good and bool(r3.mismatches)
    print("selftest:", "PASS" if ok and not want else "FAIL missing=%s" % sorted(want))
    sys.exit(0 if ok and not want else 1)


def main():
    rnd, seed = C.rng()
    tier = C.tier()
    cfg = C.config_name()
    sub = os.environ.get("C14_SUB", "")
    res = C.Result(PROP)
    rep = C.replay_case()
    pristine = Pristine()
    speedup = _speedup is not None
    if (cfg == "speedup") != speedup:
        raise SystemExit("configuration %s but _speedup %s" % (cfg, "present" if speedup else "missing"))
    if rep:
        if rep.get("debug") and not sub:
            import build_repo
            dbg = build_repo.build(debug=True)
            env = dict(os.environ, BEZIER_PKG=os.path.join(dbg, "pkg_speedup"), C14_SUB="fcheck")
            sys.exit(subprocess.run([sys.executable, os.path.abspath(__file__)], env=env).returncode)
        replay(res, rep, pristine)
        bad = bool(res.failures)
        print("replay: " + ("property fails on this history: " + res.failures[0]["what"] if bad else "property holds on this history"))
        sys.exit(1 if bad else 0)

    if os.environ.get("C14_SELFTEST") == "1":
        return selftest(res, rnd, pristine, speedup)
    search = os.environ.get("VERIF_SEARCH") == "1"
    thorough = tier == "thorough"
    tag = "fcheck:" if sub else ""
    if not sub:
        static_checks(res)
    # plan: (length, heavy share); pure Python intersections cost 10..200 ms each, compiled ones < 1 ms
    if sub:
        plan = [(50, 1.0), (200, 1.0), (600, 1.0), (2000, 1.0)] + [(rnd.randint(50, 400), 1.0) for _ in range(8)]
        budget = 240.0
    elif thorough:
        plan = [(50, 1.0), (120, 1.0), (300, 1.0), (800, 1.0)] + [(2000, 1.0 if speedup else 0.5)] * (6 if speedup else 3) + \
               [(rnd.randint(50, 600), 1.0) for _ in range(40 if speedup else 16)]
        budget = 600.0
    elif speedup:
        plan = [(50, 1.0), (50, 1.0), (80, 1.0), (120, 1.0), (200, 1.0), (400, 1.0), (800, 1.0), (2000, 1.0)] + \
               [(rnd.randint(50, 400), 1.0) for _ in range(10)]
        budget = 75.0 if not search else 60.0
    else:
        plan = [(50, 1.0), (50, 1.0), (80, 1.0), (120, 1.0), (200, 0.8), (300, 0.6), (500, 0.5), (50, 1.0), (90, 1.0)] + \
               [(rnd.randint(50, 150), 1.0) for _ in range(6)]
        budget = 75.0 if not search else 60.0
    t0 = time.time()
    layouts_left = 600 if thorough else 150
    # histories are independent: run a few at a time, analyse as they finish
    batch = 3 if not thorough else 4
    done = 0
    biggest = (0, 0, 0)
    while done < len(plan) and time.time() - t0 < budget:
        chunk = plan[done:done + batch]
        hists = [GEN.history(rnd, ln, speedup, heavy) for ln, heavy in chunk]
        jobs = run_jobs(_hist_job, hists, batch, stream=True)
        for descs, job in zip(hists, jobs):
            left = budget - (time.time() - t0)
            finish_history(res, descs, job, pristine, tag, minimise_budget=max(0.0, min(25.0, left)))
            if speedup:
                m = check_model(res, job, len(descs))
                if m:
                    biggest = tuple(max(a, b) for a, b in zip(biggest, m))
            recs = records(job)
            if not sub and layouts_left > 0:
                take = min(layouts_left, 12 if not thorough else 40)
                layout_checks(res, recs, pristine, rnd, take)
                layouts_left -= take
        done += len(chunk)
    res.notes.append("%s%s: %d histories (%s calls planned), %d distinct calls executed alone in pristine processes, largest workspaces seen %s, %.1fs" %
                     (tag, cfg, done, sum(p[0] for p in plan[:done]), pristine.executed, biggest, time.time() - t0))
    if done < len(plan):
        res.skip("history-not-run:time-budget")
    if SLOW:
        res.notes.append("%s%s slowest calls: %s" % (tag, cfg, "; ".join("%s %.2fs" % (f, t) for t, f, _ in SLOW[:3])))
    if os.environ.get("C14_VERBOSE"):
        for t, f, k in SLOW:
            print(t, f, k)
    if thorough and speedup and not sub and not search:
        debug_subrun(res, seed)
    res.emit()


if __name__ == "__main__":
    main()
