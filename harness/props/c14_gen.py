"""C14 — generators of call histories (pure data: JSON-able call descriptors, no bezier import).

A call descriptor is {"fn": name, "self": value|None, "args": [values], "kw": {name: value}, "keep": bool, "i": index}
with values: plain scalars, {"a": nested list, "layout": L} arrays, {"ref": id[, "pick": j]} objects of the pool,
{"cls": ...} shape recipes built for this call only, {"enum": name}, {"tuple": [...]}, {"edge_nodes_of": value}.
`{"fn": "new", "id": id, "args": [recipe]}` puts a freshly built shape into the pool.
"""
from fractions import Fraction as Fr
from math import comb


def arr(a, layout="F"):
    return {"a": a, "layout": layout}


# ------------------------------------------------------------------------------------------ curves
def cheb_bern(d):
    """Bernstein coefficients on [0,1] of the Chebyshev polynomial T_d(2x-1) (exact)"""
    T = [[Fr(1)], [Fr(0), Fr(1)]]
    for n in range(2, d + 1):
        a = [Fr(0)] + [2 * c for c in T[n - 1]]
        b = T[n - 2] + [Fr(0)] * (len(a) - len(T[n - 2]))
        T.append([p - q for p, q in zip(a, b)])
    poly = [Fr(0)] * (d + 1)
    for k, c in enumerate(T[d]):
        for j in range(k + 1):
            poly[j] += c * comb(k, j) * Fr(2) ** j * Fr(-1) ** (k - j)
    return [sum(Fr(comb(i, j), comb(d, j)) * poly[j] for j in range(i + 1)) for i in range(d + 1)]


def cheb_nodes(d, amp=Fr(29, 64), transpose=False, shift=Fr(0)):
    """graph of 1/2 + amp*T_d over [0,1] (d oscillations); transposed graphs cross it up to d*e times"""
    b = [float(amp * c + Fr(1, 2) + shift) for c in cheb_bern(d)]
    x = [i / d for i in range(d + 1)]
    return [b, x] if transpose else [x, b]


def int_nodes(rnd, dim, n, bound=8):
    return [[float(rnd.randint(-bound, bound)) for _ in range(n)] for _ in range(dim)]


def dyadic_nodes(rnd, dim, n):
    return [[rnd.randint(-64, 64) / 16.0 for _ in range(n)] for _ in range(dim)]


# ------------------------------------------------------------------------------------------ triangles
def lin_tri(d, p0, p1, p2):
    cols = []
    for j in range(d + 1):
        for i in range(d + 1 - j):
            k = d - i - j
            cols.append(((k * p0[0] + i * p1[0] + j * p2[0]) / d, (k * p0[1] + i * p1[1] + j * p2[1]) / d))
    return [[c[0] for c in cols], [c[1] for c in cols]]


def wavy_tri(d, p0, p1, p2, amp):
    """degree-d triangle over p0,p1,p2 whose edge control points are pushed alternately in / out"""
    a = lin_tri(d, p0, p1, p2)
    idx = {}
    c = 0
    for j in range(d + 1):
        for i in range(d + 1 - j):
            idx[(i, j)] = c
            c += 1

    def bump(pts, q0, q1):
        ex, ey = q1[0] - q0[0], q1[1] - q0[1]
        for n, col in enumerate(pts, 1):
            s = amp * (1 if n % 2 else -1)
            a[0][col] += -ey * s
            a[1][col] += ex * s
    bump([idx[(i, 0)] for i in range(1, d)], p0, p1)
    bump([idx[(d - j, j)] for j in range(1, d)], p1, p2)
    bump([idx[(0, d - k)] for k in range(1, d)], p2, p0)
    return a


# (degree1, corners1, amp1, degree2, corners2, amp2): outcomes on the compiled build noted as
# (polygons, segments) -> sizes of the two triangle workspaces after the call from (3, 6)
TRI_ZOO = [
    (3, [(0, -1), (-3, 1), (-4, -4)], 0, 2, [(-4, 4), (-4, 2), (-1, 2)], 0.125),      # disjoint
    (3, [(1, 3), (-1, -1), (-3, 4)], 0.25, 3, [(1, -2), (-3, -4), (1, 2)], 0.25),     # (1, 0)
    (3, [(-2, -2), (-2, -2), (1, 0)], 0, 3, [(-3, 4), (0, -2), (-1, -2)], 0.25),      # (1, 10): segments grow
    (1, [(-2, 3), (-3, 2), (-2, -4)], 0.5, 2, [(-3, 2), (-4, 4), (-1, 4)], 0.25),     # (1, 3)
    (3, [(4, -1), (-2, 0), (2, 4)], 0.5, 3, [(-2, -4), (-1, 0), (-3, 3)], 0.25),      # (1, 6)
    (3, [(4, 2), (4, -1), (0, 0)], 0.5, 2, [(3, 4), (2, -4), (3, -1)], 0.5),          # (1, 7)
    (2, [(1, 4), (4, -2), (-4, -2)], 0, 3, [(0, -1), (-2, -3), (-2, 2)], 0),          # (1, 9)
    (1, [(1, 4), (4, -3), (-2, -2)], 0.125, 2, [(-1, 0), (2, 3), (-1, 3)], 0.5),      # (2, 11)
    (2, [(0, -1), (2, 0), (-3, -1)], 0.5, 1, [(-1, 0), (2, 1), (-4, -4)], 0.25),      # (2, 12)
    (2, [(-2, 1), (3, 3), (1, 4)], 0.5, 3, [(2, 3), (-4, 2), (2, 4)], 0.25),          # (2, 13)
    (3, [(-2, -2), (4, 1), (4, 3)], 0.125, 2, [(4, 2), (4, -2), (2, 2)], 0.5),        # (2, 6)
    (3, [(-2, 0), (0, 2), (2, -2)], 0.25, 1, [(-3, -1), (3, -4), (-2, 4)], 0.5),      # (2, 8)
    (1, [(-3, 4), (-2, 1), (4, 3)], 0.125, 3, [(4, 1), (-2, 3), (2, 4)], 0.5),        # (3, 10)
    (3, [(0, -1), (2, 0), (-3, 2)], 0.5, 3, [(3, -3), (-2, 1), (4, 0)], 0.5),         # (3, 11)
    (2, [(1, -1), (-3, -3), (-1, 4)], 0.5, 3, [(-2, 4), (-3, -4), (4, -1)], 0.5),     # (3, 12)
    (3, [(4, 1), (-4, -1), (-2, -4)], 0.125, 2, [(-3, -4), (-3, 4), (4, 0)], 0.125),  # (3, 9)
    (3, [(-1, -1), (2, 4), (-3, 0)], 0.25, 1, [(-1, 3), (2, 3), (-4, -3)], 0.25),     # (4, 11): BOTH workspaces grow
    (2, [(0, -3), (-3, 4), (-3, -2)], 0.5, 3, [(-2, -4), (0, -1), (-4, 4)], 0.5),     # (4, 12): BOTH workspaces grow
    (2, [(-2, -1), (1, -1), (-2, -1)], 0, 3, [(0, 2), (-3, 4), (-4, -4)], 0),         # NotImplementedError same curvature
    (3, [(-3, 4), (2, 4), (2, -4)], 0.25, 1, [(2, -4), (0, -3), (2, -4)], 0),         # NotImplementedError multiplicity
    (1, [(-3, 0), (-3, 3), (3, 3)], 0.5, 3, [(2, -1), (-3, 3), (-4, 2)], 0),          # RuntimeError number of edges
    (2, [(-2, 2), (3, 1), (0, 4)], 0.5, 2, [(-2, 1), (0, 2), (1, 1)], 0.5),           # RuntimeError unknown
    (1, [(0, 0), (4, 0), (0, 4)], 0, 1, [(1, 1), (2, 1), (1, 2)], 0),                 # second contained in first
    (2, [(1, 1), (2, 1), (1, 2)], 0, 3, [(0, 0), (4, 0), (0, 4)], 0),                 # first contained in second
    (1, [(0, 0), (3, 0), (1.5, 3)], 0, 1, [(0, 2), (3, 2), (1.5, -1)], 0),            # star: three polygons, (3, 9)
    (1, [(0, 0), (1, 0), (0, 1)], 0, 1, [(0.25, 0.25), (1.25, 0.25), (0.25, 1.25)], 0),
]


def zoo_pair(k):
    d1, p, a1, d2, q, a2 = TRI_ZOO[k % len(TRI_ZOO)]
    return (d1, wavy_tri(d1, *p, a1)), (d2, wavy_tri(d2, *q, a2))


def curve_recipe(nodes, layout="F", **extra):
    r = {"cls": "Curve", "nodes": arr(nodes, layout), "degree": len(nodes[0]) - 1}
    r.update(extra)
    return r


def tri_recipe(nodes, degree, layout="F", **extra):
    r = {"cls": "Triangle", "nodes": arr(nodes, layout), "degree": degree, "verify": False}
    r.update(extra)
    return r


CTOR_LAYOUTS = ("F", "F", "F", "C", "list", "view", "viewF")


class Builder:
    def __init__(self, rnd, speedup, heavy=1.0):
        self.rnd = rnd
        self.speedup = speedup
        self.heavy = heavy          # scale of the share of expensive (intersection) calls
        self.descs = []
        self.curves2 = []           # (value, degree) planar curves in the pool
        self.curvesN = []           # (value, degree, dim)
        self.tris = []              # (value, degree)
        self.polys = []             # refs to kept Triangle.intersect results
        self.cheb = {}
        self.nobj = 0

    # -------------------------------------------------------------- plumbing
    def add(self, fn, self_=None, args=(), kw=None, keep=False, **extra):
        d = {"fn": fn, "self": self_, "args": list(args), "kw": kw or {}, "keep": keep, "i": len(self.descs)}
        d.update(extra)
        self.descs.append(d)
        return d["i"]

    def new(self, recipe):
        oid = "o%d" % self.nobj
        self.nobj += 1
        self.add("new", args=[recipe], id=oid)
        return {"ref": oid}

    def new_curve(self, nodes):
        v = self.new(curve_recipe(nodes, self.rnd.choice(CTOR_LAYOUTS)))
        dim = len(nodes)
        if dim == 2:
            self.curves2.append((v, len(nodes[0]) - 1, nodes))
        self.curvesN.append((v, len(nodes[0]) - 1, dim, nodes))
        return v

    def new_tri(self, nodes, degree):
        v = self.new(tri_recipe(nodes, degree, self.rnd.choice(CTOR_LAYOUTS)))
        self.tris.append((v, degree, nodes))
        return v

    # -------------------------------------------------------------- the bank created at the start
    def bank(self):
        rnd = self.rnd
        for d in sorted(rnd.sample(range(2, 9), 4)):
            self.cheb[(d, False)] = self.new_curve(cheb_nodes(d))
        for e in sorted(rnd.sample(range(2, 9), 4)):
            self.cheb[(e, True)] = self.new_curve(cheb_nodes(e, transpose=True))
        self.new_curve([[0.0, 1.0], [0.5, 0.5]])
        self.new_curve([[0.0, 0.5, 1.0], [0.0, 1.0, 0.0]])
        for _ in range(3):
            n = rnd.randint(2, 9)
            self.new_curve(int_nodes(rnd, 2, n))
        self.new_curve(dyadic_nodes(rnd, 3, rnd.randint(2, 5)))
        self.new_curve(dyadic_nodes(rnd, 1, rnd.randint(2, 4)))
        for k in rnd.sample(range(len(TRI_ZOO)), 4):
            (d1, n1), (d2, n2) = zoo_pair(k)
            self.new_tri(n1, d1)
            self.new_tri(n2, d2)
        self.new_tri([[0.0, 1.0, 0.0], [0.0, 0.0, 1.0]], 1)
        self.new_tri([[0.0, 0.5, 1.0, 0.125, 0.375, 0.25], [0.0, 0.125, 0.25, 0.375, 0.5, 1.0]], 2)

    # -------------------------------------------------------------- single random calls
    def curve_value(self, planar=True):
        rnd = self.rnd
        if rnd.random() < 0.7 and self.curves2:
            v, d, nodes = rnd.choice(self.curves2)
            return v, d, nodes
        n = rnd.randint(2, 9)
        nodes = rnd.choice([int_nodes, dyadic_nodes])(rnd, 2, n)
        return curve_recipe(nodes, rnd.choice(CTOR_LAYOUTS)), n - 1, nodes

    def op_newton_stress(self):
        """calls whose Newton iterations are long: exact tangencies (linear convergence, then the double-root system)
        and pairs of transversal crossings a tiny distance apart (the simple-root iteration needs many steps):
        iteration counters and convergence flags are the kind of state that must not survive a call"""
        rnd = self.rnd
        parab = [[-1.0, 0.0, 1.0], [1.0, -1.0, 1.0]]                      # y = x^2 on [-1, 1]
        if rnd.random() < 0.5:
            c = rnd.choice([0.0, 0.0, 0.25, 0.0625])                       # tangent at x = +-sqrt(c)... c = 0: tangent at the vertex
            if c == 0.0:
                line = [[-1.0, 1.0], [0.0, 0.0]]
            else:
                x0 = c ** 0.5                                               # tangent line of y = x^2 at x0 (exact for c = 1/4, 1/16)
                line = [[-1.0, 1.0], [-2 * x0 - c, 2 * x0 - c]]
        else:
            gap = 2.0 ** -rnd.choice([20, 24, 27, 30, 34])                 # two crossings about sqrt(gap) apart
            line = [[-1.0, 1.0], [gap, gap]]
        s, o = curve_recipe(parab), curve_recipe(line)
        if rnd.random() < 0.5:
            s, o = o, s
        return self.add("Curve.intersect", s, [o], {})

    def op_curve_intersect(self):
        rnd = self.rnd
        r = rnd.random()
        kw = {}
        if r < 0.45:                                   # many crossings: forces workspace growth / later reuse
            if rnd.random() < 0.6 and self.cheb:
                a = rnd.choice([k for k in self.cheb if not k[1]])
                b = rnd.choice([k for k in self.cheb if k[1]])
                s, o = self.cheb[a], self.cheb[b]
            else:
                d, e = rnd.randint(1, 8), rnd.randint(1, 8)
                while d * e > 30:
                    d, e = rnd.randint(1, 8), rnd.randint(1, 8)
                sh = Fr(rnd.randint(-4, 4), 64)
                s = curve_recipe(cheb_nodes(d, shift=sh))
                o = curve_recipe(cheb_nodes(e, transpose=True))
            if rnd.random() < 0.5:
                s, o = o, s
        elif r < 0.65:
            s = self.curve_value()[0]
            o = self.curve_value()[0]
        elif r < 0.75:                                 # both lines: `check_lines` path, incl. parallel / coincident / touching
            fam = rnd.choice(["cross", "parallel", "overlap", "touch", "disjoint-collinear"])
            if fam == "cross":
                s = curve_recipe(int_nodes(rnd, 2, 2, 4))
                o = curve_recipe(int_nodes(rnd, 2, 2, 4))
            elif fam == "parallel":
                s = curve_recipe([[0.0, 2.0], [0.0, 1.0]])
                o = curve_recipe([[0.0, 2.0], [1.0, 2.0]])
            elif fam == "overlap":
                s = curve_recipe([[0.0, 2.0], [0.0, 2.0]])
                o = curve_recipe([[1.0, 3.0], [1.0, 3.0]])
            elif fam == "touch":
                s = curve_recipe([[0.0, 1.0], [0.0, 0.0]])
                o = curve_recipe([[1.0, 2.0], [0.0, 0.0]])
            else:
                s = curve_recipe([[0.0, 1.0], [0.0, 0.0]])
                o = curve_recipe([[2.0, 3.0], [0.0, 0.0]])
        elif r < 0.85:                                 # special positions: coincident, tangent, high multiplicity, too many candidates
            fam = rnd.choice(["same", "sub", "tangent", "triple", "quartic", "toomany", "elevated"])
            base = [[0.0, 0.5, 1.0], [0.0, 1.0, 0.0]]
            if fam == "same":
                s, o = curve_recipe(base), curve_recipe(base)
            elif fam == "sub":
                s, o = curve_recipe(base), curve_recipe([[0.25, 0.5, 0.75], [0.375, 0.625, 0.375]])
            elif fam == "tangent":
                s, o = curve_recipe(base), curve_recipe([[0.0, 0.5, 1.0], [1.0, 0.0, 1.0]])
            elif fam == "triple":
                s = curve_recipe([[-1.0, -1 / 3, 1 / 3, 1.0], [-1.0, 1.0, -1.0, 1.0]])
                o = curve_recipe([[-1.0, 1.0], [0.0, 0.0]])
            elif fam == "quartic":
                s = curve_recipe([[-1.0, -0.5, 0.0, 0.5, 1.0], [1.0, -1.0, 1.0, -1.0, 1.0]])
                o = curve_recipe([[-1.0, 1.0], [0.0, 0.0]])
            elif fam == "toomany":
                s = curve_recipe([[0.0, 1 / 3, 2 / 3, 1.0], [0.0, 1.0, -1.0, 0.0]])
                o = curve_recipe([[0.0, 1 / 3, 2 / 3, 1.0], [0.0, 1.0000001, -1.0, 0.0]])
            else:
                s = curve_recipe(base)
                o = curve_recipe([[0.0, 1 / 3, 2 / 3, 1.0], [0.0, 2 / 3, 2 / 3, 0.0]])
        elif r < 0.93:                                 # calls that raise before any numerical work
            fam = rnd.choice(["3d", "type", "strategy", "3d-noverify"])
            s = self.curve_value()[0]
            if fam == "3d":
                o = curve_recipe(dyadic_nodes(rnd, 3, 3))
            elif fam == "type":
                return self.add("Curve.intersect", s, [rnd.choice([42, None, "curve"])])
            elif fam == "strategy":
                return self.add("Curve.intersect", s, [self.curve_value()[0]], {"strategy": None})
            else:
                o = curve_recipe(dyadic_nodes(rnd, 3, 3))
                kw = {"verify": False}
        else:                                          # the algebraic strategy never touches the workspaces
            # incl. degree pairs the algebraic strategy refuses (NotImplementedError raised from inside its front end: whatever it
            # set up before must be undone on that path too - seed C14_j) with overlapping boxes
            d, e = rnd.choice([(1, 1), (1, 2), (2, 1), (2, 2), (1, 3), (3, 4), (4, 3), (4, 4), (2, 5), (5, 1)])
            s = curve_recipe(int_nodes(rnd, 2, d + 1, 4))
            o = curve_recipe(int_nodes(rnd, 2, e + 1, 4))
            kw = {"strategy": {"enum": "ALGEBRAIC"}}
        return self.add("Curve.intersect", s, [o], kw)

    def op_all_intersections(self):
        rnd = self.rnd
        if rnd.random() < 0.6:
            d, e = rnd.randint(1, 6), rnd.randint(1, 5)
            n1, n2 = cheb_nodes(d), cheb_nodes(e, transpose=True)
        else:
            n1, n2 = int_nodes(rnd, 2, rnd.randint(2, 6)), int_nodes(rnd, 2, rnd.randint(2, 6))
        return self.add("_geometric_intersection.all_intersections", None, [arr(n1), arr(n2)])

    def tri_value(self):
        rnd = self.rnd
        if rnd.random() < 0.5 and self.tris:
            return rnd.choice(self.tris)
        d = rnd.choice((1, 1, 2, 3))
        p = [(rnd.randint(-4, 4), rnd.randint(-4, 4)) for _ in range(3)]
        nodes = wavy_tri(d, *p, rnd.choice((0, 0.125, 0.25, 0.5)))
        return tri_recipe(nodes, d, rnd.choice(CTOR_LAYOUTS)), d, nodes

    def op_tri_intersect(self):
        rnd = self.rnd
        r = rnd.random()
        kw = {}
        if r < 0.55:
            (d1, n1), (d2, n2) = zoo_pair(rnd.randrange(len(TRI_ZOO)))
            s, o = tri_recipe(n1, d1), tri_recipe(n2, d2)
            if rnd.random() < 0.3:
                s, o = o, s
        elif r < 0.85:
            s, o = self.tri_value()[0], self.tri_value()[0]
        elif r < 0.93:
            s = self.tri_value()[0]
            fam = rnd.choice(["type", "3d", "strategy"])
            if fam == "type":
                return self.add("Triangle.intersect", s, [self.curve_value()[0]])
            if fam == "3d":
                o = tri_recipe([[0.0, 1.0, 0.0], [0.0, 0.0, 1.0], [0.0, 0.0, 0.0]], 1)
            else:
                return self.add("Triangle.intersect", s, [self.tri_value()[0]], {"strategy": 7})
        else:
            s = tri_recipe(lin_tri(1, (0, 0), (rnd.randint(1, 4), 0), (0, rnd.randint(1, 4))), 1)
            o = tri_recipe(lin_tri(1, (0.25, 0.25), (rnd.randint(1, 4), 0.5), (0.5, rnd.randint(1, 4))), 1)
            kw = {"strategy": {"enum": "ALGEBRAIC"}}
        i = self.add("Triangle.intersect", s, [o], kw, keep=True)
        self.polys.append({"ref": "r%d" % i})
        return i

    def op_tri_raw(self):
        rnd = self.rnd
        (d1, n1), (d2, n2) = zoo_pair(rnd.randrange(len(TRI_ZOO)))
        return self.add("_triangle_intersection.geometric_intersect", None, [arr(n1), d1, arr(n2), d2, True])

    def op_tri_lattice(self):
        """two positively oriented degree-1 triangles with vertices on a small lattice: shared / touching / collinear
        edges and corner incidences exercise the bookkeeping paths (unused / coincident / corner entries) whose
        buffers are the natural place for state to leak between calls"""
        rnd = self.rnd
        g = rnd.choice([2, 2, 3])

        def lt():
            while True:
                p = [(rnd.randint(0, g), rnd.randint(0, g)) for _ in range(3)]
                if (p[1][0] - p[0][0]) * (p[2][1] - p[0][1]) - (p[2][0] - p[0][0]) * (p[1][1] - p[0][1]) > 0:
                    return [[float(q[0]) for q in p], [float(q[1]) for q in p]]
        return self.add("_triangle_intersection.geometric_intersect", None, [arr(lt()), 1, arr(lt()), 1, True])

    def params(self, k=None):
        rnd = self.rnd
        k = k or rnd.randint(1, 6)
        return [rnd.choice([0.0, 1.0, 0.5, 0.25, 0.75, rnd.random(), rnd.uniform(-1, 2)]) for _ in range(k)]

    def op_curve_method(self):
        rnd = self.rnd
        if rnd.random() < 0.75 or not self.curvesN:
            v, d, nodes = self.curve_value()
            dim = 2
        else:
            v, d, dim, nodes = rnd.choice(self.curvesN)
        m = rnd.choice(["evaluate", "evaluate_multi", "evaluate_hodograph", "subdivide", "elevate", "reduce_",
                        "specialize", "locate", "locate", "nodes", "copy", "degree", "self_intersections", "length",
                        "evaluate_multi_bad", "locate_bad"])
        if m == "evaluate":
            return self.add("Curve.evaluate", v, [self.params(1)[0]])
        if m == "evaluate_multi":
            return self.add("Curve.evaluate_multi", v, [arr(self.params(), rnd.choice(["F", "list"]))])
        if m == "evaluate_multi_bad":
            return self.add("Curve.evaluate_multi", v, [arr([self.params(2)], "F")])
        if m == "evaluate_hodograph":
            return self.add("Curve.evaluate_hodograph", v, [self.params(1)[0]])
        if m in ("subdivide", "elevate", "reduce_", "copy"):
            i = self.add("Curve." + m, v, [], keep=True)
            if m == "subdivide" and dim == 2 and rnd.random() < 0.5:
                # previously returned shapes become inputs of later calls
                self.add("Curve.intersect", {"ref": "r%d" % i, "pick": 0}, [{"ref": "r%d" % i, "pick": 1}])
            return i
        if m == "specialize":
            a, b = self.params(2)
            return self.add("Curve.specialize", v, [a, b], keep=True)
        if m == "locate":
            col = rnd.randrange(len(nodes[0]))
            pt = [[r[col]] for r in nodes] if rnd.random() < 0.6 else [[rnd.uniform(-1, 1)] for _ in nodes]
            return self.add("Curve.locate", v, [arr(pt, rnd.choice(["F", "C"]))])
        if m == "locate_bad":
            return self.add("Curve.locate", v, [arr([[0.0], [0.0], [0.0], [0.0]])])
        if m == "self_intersections":
            loop = curve_recipe([[0.0, 1.0, -0.5, 0.5], [0.0, 1.0, 1.0, 0.0]])
            return self.add("Curve.self_intersections", loop, [])
        if m == "length" and not self.speedup:
            m = "degree"                                # pure Python needs SciPy (absent): not a property of the library
        return self.add("Curve." + m, v, [])

    def op_tri_method(self):
        rnd = self.rnd
        v, d, nodes = self.tri_value()
        m = rnd.choice(["area", "edges", "edges", "evaluate_barycentric", "evaluate_barycentric_multi",
                        "evaluate_cartesian", "evaluate_cartesian_multi", "subdivide", "elevate", "is_valid",
                        "locate", "nodes", "bary_bad", "locate_bad"])
        if m == "evaluate_barycentric":
            a, b = rnd.choice([(0.25, 0.5), (0.0, 1.0), (0.125, 0.125), (0.5, 0.5), (0.6, 0.3), (0.2, 0.7)])
            return self.add("Triangle.evaluate_barycentric", v, [a, b, 1.0 - a - b])
        if m == "bary_bad":
            return self.add("Triangle.evaluate_barycentric", v, rnd.choice([[0.5, 0.5, 0.5], [-0.5, 0.75, 0.75]]))
        if m == "evaluate_barycentric_multi":
            # rows whose binary64 sum is exactly 1 and rows whose sum is 1 only up to rounding (0.6 + 0.3 + 0.1 < 1)
            pool = [[0.25, 0.5, 0.25], [0.0, 0.0, 1.0], [0.5, 0.125, 0.375], [0.6, 0.3, 0.1], [0.2, 0.7, 0.1], [0.3, 0.3, 0.4],
                    [0.7, 0.2, 0.1]]
            pv = rnd.sample(pool, rnd.randint(1, 4))
            return self.add("Triangle.evaluate_barycentric_multi", v, [arr(pv, rnd.choice(["F", "C"]))])
        if m == "evaluate_cartesian":
            return self.add("Triangle.evaluate_cartesian", v, list(rnd.choice([(0.25, 0.5), (0.0, 0.0), (0.125, 0.75)])))
        if m == "evaluate_cartesian_multi":
            pv = [[0.25, 0.5], [0.0, 1.0], [0.125, 0.125]][:rnd.randint(1, 3)]
            return self.add("Triangle.evaluate_cartesian_multi", v, [arr(pv, rnd.choice(["F", "C"]))])
        if m in ("subdivide", "elevate", "edges"):
            i = self.add("Triangle." + m, v, [], keep=True)
            if m == "edges" and rnd.random() < 0.5:
                self.add("Curve.intersect", {"ref": "r%d" % i, "pick": 0}, [{"ref": "r%d" % i, "pick": 1}])
            return i
        if m in ("locate", "locate_bad"):
            # pure-Python locate on a degenerate triangle (repeated / collinear corners) subdivides for minutes
            c = [(nodes[0][k], nodes[1][k]) for k in (0, d, len(nodes[0]) - 1)]
            det = (c[1][0] - c[0][0]) * (c[2][1] - c[0][1]) - (c[1][1] - c[0][1]) * (c[2][0] - c[0][0])
            if abs(det) < 0.5:
                m = "area"
        if m == "locate":
            pt = [[nodes[0][0]], [nodes[1][0]]] if rnd.random() < 0.4 else [[rnd.uniform(-2, 2)], [rnd.uniform(-2, 2)]]
            return self.add("Triangle.locate", v, [arr(pt)])
        if m == "locate_bad":
            return self.add("Triangle.locate", v, [arr([[0.25, 0.5], [0.25, 0.5]])])
        return self.add("Triangle." + m, v, [])

    def op_object_chain(self):
        """state that lives in an OBJECT: read lazily computed attributes of a pooled triangle / curve, derive a new object
        from it (elevate, subdivide, specialize, reduce_), then query the derived object.  The pristine run rebuilds the
        derived object from its nodes, so anything inherited from the parent's caches shows as history dependence."""
        rnd = self.rnd
        if rnd.random() < 0.6:
            if rnd.random() < 0.6 or not self.tris:
                fam = rnd.choice(["cubic", "cubic-wavy", "thin-linear", "quadratic"])
                p = [(rnd.randint(-4, 4), rnd.randint(-4, 4)) for _ in range(3)]
                if fam == "cubic":
                    self.new_tri(lin_tri(3, *p), 3)
                elif fam == "cubic-wavy":
                    self.new_tri(wavy_tri(3, *p, rnd.choice((0.125, 0.25))), 3)
                elif fam == "thin-linear":
                    # nearly collinear corners: the degree-1 verdict and the verdict of the elevated nodes round differently
                    x = rnd.choice([0.1, 0.3, 0.7]); k = rnd.choice([1, 2, 3])
                    self.new_tri([[x, x + 0.3, x - 0.4], [1.6, 1.6 - 1.2 * (1 - 2.0 ** -50 * k), 1.6 + 1.6]], 1)
                else:
                    self.new_tri(wavy_tri(2, *p, rnd.choice((0, 0.25))), 2)
                v, d, nodes = self.tris[-1]
            else:
                v, d, nodes = rnd.choice(self.tris)
            for m in rnd.sample(["is_valid", "area", "edges"], rnd.randint(0, 3)):
                self.add("Triangle." + m, v, [])
            der = rnd.choice(["elevate", "elevate", "subdivide"])
            i = self.add("Triangle." + der, v, [], keep=True)
            ref = {"ref": "r%d" % i} if der == "elevate" else {"ref": "r%d" % i, "pick": rnd.randint(0, 3)}
            last = None
            for m in rnd.sample(["is_valid", "area", "edges", "nodes"], rnd.randint(1, 3)):
                last = self.add("Triangle." + m, ref, [])
            return last
        v, d, nodes = rnd.choice(self.curves2) if self.curves2 else self.curve_value()
        for m in rnd.sample(["length", "nodes"], rnd.randint(0, 2)):
            self.add("Curve." + m, v, [])
        der = rnd.choice(["elevate", "subdivide", "specialize", "reduce_"])
        if der == "specialize":
            i = self.add("Curve.specialize", v, [0.25, 0.75], keep=True)
        else:
            i = self.add("Curve." + der, v, [], keep=True)
        ref = {"ref": "r%d" % i, "pick": rnd.randint(0, 1)} if der == "subdivide" else {"ref": "r%d" % i}
        last = None
        for m in rnd.sample(["length", "nodes", "degree"], rnd.randint(1, 2)):
            last = self.add("Curve." + m, ref, [])
        return last

    def op_polygon(self):
        rnd = self.rnd
        if not self.polys:
            return self.op_tri_intersect()
        v = dict(rnd.choice(self.polys))
        v["pick"] = rnd.randint(0, 3)
        m = rnd.choice(["area", "area", "num_sides", "edge_area"])
        if m == "edge_area":
            return self.add("_triangle_helpers.compute_area", None, [{"edge_nodes_of": v}])
        return self.add("CurvedPolygon." + m, v, [])

    def op_helper(self):
        rnd = self.rnd
        n = rnd.randint(2, 7)
        dim = rnd.choice((1, 2, 2, 2, 3))
        nodes = rnd.choice([int_nodes, dyadic_nodes])(rnd, dim, n)
        s = self.params(1)[0]
        f = rnd.choice(["subdivide_nodes", "evaluate_multi", "evaluate_multi_barycentric", "elevate_nodes",
                        "specialize_curve", "evaluate_hodograph", "get_curvature", "newton_refine", "locate_point",
                        "reduce_pseudo_inverse", "full_reduce", "bbox", "contains_nd", "cross_product",
                        "wiggle_interval", "vector_close", "in_interval", "simple_convex_hull", "polygon_collide",
                        "t.de_casteljau_one_round", "t.specialize_triangle", "t.subdivide_nodes", "t.jacobian_both",
                        "t.jacobian_det", "t.evaluate_barycentric", "t.evaluate_barycentric_multi",
                        "t.evaluate_cartesian_multi", "t.compute_edge_nodes", "bbox_intersect", "ti.newton_refine",
                        "ti.locate_point", "ih.newton_refine", "compute_length"])
        CH, H, TH = "_curve_helpers.", "_helpers.", "_triangle_helpers."
        if f in ("subdivide_nodes", "elevate_nodes", "full_reduce"):
            return self.add(CH + f, None, [arr(nodes)])
        if f == "reduce_pseudo_inverse":
            k = rnd.randint(2, 6)
            return self.add(CH + f, None, [arr([r[:k] for r in nodes])])
        if f == "compute_length":
            if not self.speedup:
                return self.add(CH + "elevate_nodes", None, [arr(nodes)])
            return self.add(CH + f, None, [arr(nodes)])
        if f == "evaluate_multi":
            return self.add(CH + f, None, [arr(nodes), arr(self.params())])
        if f == "evaluate_multi_barycentric":
            p = self.params()
            return self.add(CH + f, None, [arr(nodes), arr([1.0 - x for x in p]), arr(p)])
        if f == "specialize_curve":
            a, b = self.params(2)
            return self.add(CH + f, None, [arr(nodes), a, b])
        if f == "evaluate_hodograph":
            return self.add(CH + f, None, [s, arr(nodes)])
        if f == "get_curvature":
            n2 = [r for r in (nodes + nodes)[:2]]
            return self.add(CH + f, None, [arr(n2), arr([[1.0], [0.5]]), s])
        if f == "newton_refine":
            return self.add(CH + f, None, [arr(nodes), arr([[r[0] + 0.125] for r in nodes]), s])
        if f == "locate_point":
            return self.add(CH + f, None, [arr(nodes), arr([[r[-1]] for r in nodes])])
        if f == "bbox":
            return self.add(H + f, None, [arr((nodes + nodes)[:2])])
        if f == "contains_nd":
            return self.add(H + f, None, [arr(nodes), arr([0.25] * dim)])
        if f == "cross_product":
            return self.add(H + f, None, [arr([rnd.uniform(-2, 2), 1.0]), arr([0.5, rnd.uniform(-2, 2)])])
        if f == "wiggle_interval":
            return self.add(H + f, None, [rnd.choice([0.0, 1.0, 0.5, -2.0 ** -50, 1.0 + 2.0 ** -45, 1.5])])
        if f == "vector_close":
            v = [rnd.uniform(-1, 1) for _ in range(3)]
            w = [x + rnd.choice([0.0, 2.0 ** -45, 0.5]) for x in v]
            return self.add(H + f, None, [arr(v), arr(w)])
        if f == "in_interval":
            return self.add(H + f, None, [s, 0.0, 1.0])
        if f == "simple_convex_hull":
            return self.add(H + f, None, [arr(int_nodes(rnd, 2, rnd.randint(1, 8), 3))])
        if f == "polygon_collide":
            return self.add(H + f, None, [arr(int_nodes(rnd, 2, 3, 4)), arr(int_nodes(rnd, 2, 4, 4))])
        if f == "bbox_intersect":
            return self.add("_geometric_intersection.bbox_intersect", None,
                            [arr(int_nodes(rnd, 2, 3, 4)), arr(int_nodes(rnd, 2, 4, 4))])
        if f == "ih.newton_refine":
            return self.add("_intersection_helpers.newton_refine", None,
                            [0.25, arr([[0.0, 0.5, 1.0], [0.0, 1.0, 0.0]]), 0.75, arr([[0.0, 1.0], [0.5, 0.5]])])
        # triangle helpers
        d = rnd.choice((1, 2, 3))
        while True:
            p = [(rnd.randint(-4, 4), rnd.randint(-4, 4)) for _ in range(3)]
            if abs((p[1][0] - p[0][0]) * (p[2][1] - p[0][1]) - (p[1][1] - p[0][1]) * (p[2][0] - p[0][0])) >= 2:
                break
        tn = wavy_tri(d, *p, rnd.choice((0, 0.125)))
        if f == "t.de_casteljau_one_round":
            return self.add(TH + "de_casteljau_one_round", None, [arr(tn), d, 0.25, 0.5, 0.25])
        if f == "t.specialize_triangle":
            return self.add(TH + "specialize_triangle", None,
                            [arr(tn), d, {"tuple": [1.0, 0.0, 0.0]}, {"tuple": [0.5, 0.5, 0.0]}, {"tuple": [0.5, 0.0, 0.5]}])
        if f == "t.subdivide_nodes":
            return self.add(TH + "subdivide_nodes", None, [arr(tn), d])
        if f == "t.jacobian_both":
            return self.add(TH + "jacobian_both", None, [arr(tn), d, 2])
        if f == "t.jacobian_det":
            return self.add(TH + "jacobian_det", None, [arr(tn), d, arr([[0.25, 0.5], [0.125, 0.125]])])
        if f == "t.evaluate_barycentric":
            return self.add(TH + "evaluate_barycentric", None, [arr(tn), d, 0.25, 0.5, 0.25])
        if f == "t.evaluate_barycentric_multi":
            return self.add(TH + "evaluate_barycentric_multi", None, [arr(tn), d, arr([[0.25, 0.5, 0.25], [1.0, 0.0, 0.0]]), 2])
        if f == "t.evaluate_cartesian_multi":
            return self.add(TH + "evaluate_cartesian_multi", None, [arr(tn), d, arr([[0.25, 0.5], [0.0, 0.0]]), 2])
        if f == "t.compute_edge_nodes":
            return self.add(TH + "compute_edge_nodes", None, [arr(tn), d])
        if f == "ti.newton_refine":
            return self.add("_triangle_intersection.newton_refine", None, [arr(tn), d, 0.5, 0.25, 0.25, 0.25])
        return self.add("_triangle_intersection.locate_point", None, [arr(tn), d, tn[0][0], tn[1][0]])

    def op_reused_buffers(self):
        """helper calls whose array arguments are caller-owned buffers that are refilled and handed over again: the same
        array objects carry other values than in an earlier call (a cache keyed on identity instead of value shows here)"""
        rnd = self.rnd
        TH, CH = "_triangle_helpers.", "_curve_helpers."
        f = rnd.choice(["specialize_triangle", "specialize_triangle", "evaluate_multi", "evaluate_barycentric_multi",
                        "evaluate_cartesian_multi", "locate_point"])

        def buf(name, a):
            return {"a": a, "layout": "F", "buf": name}
        if f == "specialize_triangle":
            d = rnd.choice((2, 3, 4))
            while True:
                p = [(rnd.randint(-4, 4), rnd.randint(-4, 4)) for _ in range(3)]
                if abs((p[1][0] - p[0][0]) * (p[2][1] - p[0][1]) - (p[1][1] - p[0][1]) * (p[2][0] - p[0][0])) >= 2:
                    break
            tn = wavy_tri(d, *p, rnd.choice((0, 0.125)))
            ws = rnd.choice([([1.0, 0.0, 0.0], [0.5, 0.5, 0.0], [0.5, 0.0, 0.5]), ([0.0, 0.5, 0.5], [0.5, 0.0, 0.5], [0.5, 0.5, 0.0]),
                             ([0.5, 0.5, 0.0], [0.0, 1.0, 0.0], [0.0, 0.5, 0.5]), ([0.25, 0.5, 0.25], [0.0, 0.0, 1.0], [0.75, 0.25, 0.0]),
                             ([0.5, 0.0, 0.5], [0.0, 0.5, 0.5], [0.0, 0.0, 1.0])])
            return self.add(TH + "specialize_triangle", None, [arr(tn), d, buf("wa", ws[0]), buf("wb", ws[1]), buf("wc", ws[2])])
        if f == "evaluate_multi":
            n = rnd.randint(2, 6)
            return self.add(CH + "evaluate_multi", None, [arr(int_nodes(rnd, 2, n)), buf("sv", self.params(4))])
        if f == "locate_point":
            n = rnd.randint(2, 5)
            xs = [float(k * 2 + rnd.randint(0, 1)) for k in range(n)]
            return self.add(CH + "locate_point", None, [arr([xs, [float(rnd.randint(-3, 3)) for _ in range(n)]]),
                                                        buf("pt", [[rnd.choice(xs)], [float(rnd.randint(-3, 3))]])])
        d = rnd.choice((1, 2, 3))
        tn = wavy_tri(d, (0, 0), (4, 0), (0, 4), rnd.choice((0, 0.125)))
        if f == "evaluate_barycentric_multi":
            rows = rnd.sample([[0.25, 0.5, 0.25], [1.0, 0.0, 0.0], [0.5, 0.125, 0.375], [0.0, 0.5, 0.5], [0.125, 0.125, 0.75]], 3)
            return self.add(TH + "evaluate_barycentric_multi", None, [arr(tn), d, buf("bary", rows), 2])
        rows = rnd.sample([[0.25, 0.5], [0.0, 0.0], [0.125, 0.75], [0.5, 0.5], [0.375, 0.125]], 3)
        return self.add(TH + "evaluate_cartesian_multi", None, [arr(tn), d, buf("cart", rows), 2])

    def op_extreme_scale(self):
        """calls whose arithmetic meets a floating-point event that is silent under NumPy's default error handling (underflow of a
        power of a tiny parameter, products of microscopic coordinates): their outcome must not depend on what earlier calls did to
        the process (seed C14_j: an error mode left switched to "raise")"""
        rnd = self.rnd
        f = rnd.choice(["evaluate", "evaluate_multi", "is_valid", "area", "hodograph"])
        if f in ("evaluate", "evaluate_multi", "hodograph"):
            v, d, nodes = self.curve_value()
            tiny = rnd.choice([2.0 ** -600, 2.0 ** -1000, 5e-324])
            if f == "evaluate":
                return self.add("Curve.evaluate", v, [tiny])
            if f == "hodograph":
                return self.add("Curve.evaluate_hodograph", v, [tiny])
            return self.add("Curve.evaluate_multi", v, [arr([tiny, 0.5, 1.0 - 2.0 ** -53], "F")])
        sc = rnd.choice([2.0 ** -200, 2.0 ** -400, 2.0 ** -530])
        d = rnd.choice([1, 2, 3])
        p0, p1, p2 = (0.0, 0.0), (sc * rnd.choice([1.0, 3.0]), 0.0), (sc * 0.5, sc * rnd.choice([1.0, 2.0]))
        t = tri_recipe(lin_tri(d, p0, p1, p2), d)
        return self.add("Triangle." + f, t, [])

    def op_state(self):
        """speedup only: the management entry points of the hidden state"""
        rnd = self.rnd
        f = rnd.choice(["free_c", "free_t", "reset_c", "reset_t", "reset_t2"])
        if f == "free_c":
            return self.add("_speedup.free_curve_intersections_workspace")
        if f == "free_t":
            return self.add("_speedup.free_triangle_intersections_workspace")
        if f == "reset_c":
            return self.add("_speedup.reset_curves_workspace", None, [rnd.choice([1, 1, 2, 3, 5, 20])])
        if f == "reset_t":
            return self.add("_speedup.reset_triangle_workspaces", None, [],
                            {"segment_ends_size": rnd.choice([1, 2, 3]), "segments_size": rnd.choice([3, 4, 6])})
        return self.add("_speedup.reset_triangle_workspaces", None, [],
                        {rnd.choice(["segment_ends_size", "segments_size"]): rnd.choice([3, 4, 8])})

    def op_repeat(self):
        """the same call again, later in the history"""
        cands = [d for d in self.descs if d["fn"] not in ("new",) and not d["fn"].startswith("_speedup.")]
        if not cands:
            return self.op_curve_intersect()
        d = dict(self.rnd.choice(cands[-60:]))
        d.pop("i")
        keep = d.pop("keep", False)
        fn = d.pop("fn")
        return self.add(fn, d.get("self"), d.get("args", []), d.get("kw", {}), keep=keep)

    def grow(self, length):
        rnd = self.rnd
        h = self.heavy
        table = [(self.op_curve_intersect, 22 * h), (self.op_all_intersections, 4 * h), (self.op_tri_intersect, 12 * h),
                 (self.op_tri_raw, 3 * h), (self.op_tri_lattice, 30 * h), (self.op_newton_stress, 10 * h), (self.op_curve_method, 18), (self.op_tri_method, 14), (self.op_polygon, 4),
                 (self.op_helper, 14), (self.op_repeat, 9 * h), (self.op_object_chain, 10), (self.op_reused_buffers, 8), (self.op_extreme_scale, 5)]
        if self.speedup:
            table.append((self.op_state, 5))
        tot = sum(w for _, w in table)
        while len(self.descs) < length:
            x = rnd.uniform(0, tot)
            for f, w in table:
                x -= w
                if x <= 0:
                    f()
                    break
        return self.descs


def history(rnd, length, speedup, heavy=1.0):
    b = Builder(rnd, speedup, heavy)
    b.bank()
    return b.grow(max(length, len(b.descs) + 10))
