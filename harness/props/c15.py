"""C15 — geometric and algebraic intersection strategies agree: differential oracle on the real code.

impl  : bezier.Curve.intersect(other, strategy=GEOMETRIC|ALGEBRAIC), function level
        bezier._geometric_intersection.all_intersections (shim: pure hazmat or compiled _speedup) and
        bezier.hazmat.algebraic_intersection.all_intersections; bezier.Triangle.intersect(other, strategy=...)
spec  : harness/isolate.py (exact solution set of B1(s) = B2(t) in the closed unit square, every root simple) on the
        UN-ELEVATED exact nets; exact degree of a net (forward differences); exact degree elevation
model : Lean side = dispatch / refusal theorems and Vandermonde tables (Tables/C15, Props/C15); nothing is asked of the
        driver here

Roles of a case
  compare      a pair of planar nets (family lattice | random | planted | zoo), optionally presented degree-elevated
               (elevation computed in exact rationals, both nets scaled by a common odd integer so that every presented
               coordinate is a binary64 number).  rd1, rd2 = exact degrees of the un-elevated nets.
               * unsupported reduced pair (rd > 4, or {rd1, rd2} not in 1-1 1-2 1-3 1-4 2-2 2-3 2-4 3-3): the algebraic
                 strategy must raise NotImplementedError (strictly disjoint control-point boxes: empty 2 x 0 instead)
                                                    -> `algebraic:unsupported-not-refused:<rd1>-<rd2>`,
                                                       `algebraic:unsupported-wrong-error:<rd1>-<rd2>:<Type>`
               * supported pair, a presented degree >= 5 (an elevated lower-degree curve): the property says the algebraic
                 path reduces first                 -> `algebraic-raised:<rd1>-<rd2>:<Type>:presented-degree-5+`
               * pairs on which the library's floating-point full_reduce goes BELOW the exact degree (near-degenerate zoo
                 curves 75, 77, 78) are outside; an exactly elevated net that full_reduce does not bring down to the exact
                 degree                             -> `algebraic:elevated-not-reduced:<rd1>-<rd2>`
               * supported pair, IN DOMAIN (isolator: certified, every root sin^2 >= 2^-14, separation >= 2^-16, every root
                 parameter exactly 0 / 1 or in [2^-16, 1 - 2^-16]):
                   rd1 * rd2 <= 4: both strategies return normally and both column sets equal the certified root set
                   (root boxes inflated by 2^-20)
                     `strategies-disagree:<rd1>-<rd2>:<which>:<class>`, which in algebraic-misses | algebraic-extra |
                         geometric-misses | geometric-extra; class = exact class of the INPUT, first that applies:
                         algebraic-misses: straight-curve-of-degree-2+ (collinear control points, exact degree >= 2) |
                           axis-parallel-tangent-at-crossing (the coordinate polynomial locate_point solves is stationary or
                           nearly so, |derivative| <= 2^-6 max |control difference|, at every lost root) | nearly-degree-reduced-curve (top forward difference <= 2^-4 of the first
                           differences) | far-from-origin (max |coordinate| >= 32 x extent) |
                           clustered-roots-of-intersection-polynomial (the exact intersection polynomial has a second real root
                           within 2^-6 of every lost root) | shared-endpoint | endpoint-on-other-curve | interior-crossing | mixed
                         geometric-misses: tangent-bbox-curve-on-axis-parallel-line | curve-on-axis-parallel-line:dyadic-break-point
                           (both: the known C03 / C17 families) | shared-endpoint | endpoint-on-other-curve | interior-crossing
                         *-extra: duplicate-column | column-not-a-certified-root
                     `algebraic-raised:<rd1>-<rd2>:<Type>[:<claim>:<exact class>]`; for NotImplementedError: claim in
                         claims-non-simple | claims-coincident | claims-unsupported-degrees, exact class (exact resultant over Q)
                         in squarefree-intersection-polynomial | repeated-root-at-certified-crossing (degenerate implicit form)
                         | repeated-root-away-from-crossings (tangency of the extended curves / complex) |
                         zero-intersection-polynomial (both curves on one algebraic curve)
                     `geometric-raised:<rd1>-<rd2>:<Type>`
                   rd1 * rd2 in 6, 8, 9: every algebraic column is within 2^-20 of a geometric column
                     `algebraic-not-subset:<rd1>-<rd2>:<why>` (why = geometric-misses:<class> when the column IS a certified
                         root the geometric strategy lost, column-not-a-certified-root otherwise);
                     `algebraic-raised:<rd1>-<rd2>:<Type>` for anything but NotImplementedError;
                   silent misses of certified roots and refusals by the algebraic strategy there are PINNED PROBES
                   (tag `probe`, notes, samples), not failures
  overlap      overlapping sub-arcs of one parent   -> `algebraic:overlap-not-refused:degree<k>`
  tangency     planted double root, reduced degree product <= 4
                                                    -> `algebraic:tangency-not-refused:<rd1>-<rd2>`
  disjoint     strictly disjoint control-point boxes: both strategies return shape (2, 0)
                                                    -> `nonempty-for-disjoint-boxes:<strategy>`
  triangle     valid triangles of degree 1..2 in general position: both strategies give the same number of regions and
               the same total area within 2^-30 * size^2
                                                    -> `triangle-strategies-disagree:<d1>-<d2>:<edge-pair diagnosis>`,
                                                       `triangle-algebraic-raised:<d1>-<d2>:<Type>:<edge-pair diagnosis>`
                                                       (anything but NotImplementedError), `triangle-geometric-raised:...`
At most 3 witnesses per key are written out (all are counted in dist.failure_keys).
SciPy is absent from /venv: ImportError on the algebraic path is a skip, not a failure.
"""
import os
import sys
import time
import warnings
import numpy as np
from fractions import Fraction as Fr
from math import gcd
import common as C
import exact as X
import curvezoo as Z
import isolate as ISO

SIN2_MIN = Fr(1, 2 ** 14)
SEP_MIN = Fr(1, 2 ** 16)
EDGE_MIN = Fr(1, 2 ** 16)
INFLATE = Fr(1, 2 ** 20)
AREA_TOL = Fr(1, 2 ** 30)
SUPPORTED = {(1, 1), (1, 2), (1, 3), (1, 4), (2, 2), (2, 3), (2, 4), (3, 3)}


# ------------------------------------------------------------------------------------------- exact helpers
def true_degree(net):
    """exact polynomial degree of the curve (largest k with a non-zero k-th forward difference in some coordinate)"""
    best = 0
    for row in net:
        cur = list(row)
        k = 0
        while len(cur) > 1:
            cur = [cur[j + 1] - cur[j] for j in range(len(cur) - 1)]
            k += 1
            if any(v != 0 for v in cur):
                best = max(best, k)
    return best


def elevate(net, times):
    for _ in range(times):
        net = [X.elevate_exact(r) for r in net]
    return net


def odd_part_lcm(nets):
    m = 1
    for net in nets:
        for r in net:
            for v in r:
                d = Fr(v).denominator
                while d % 2 == 0:
                    d //= 2
                m = m * d // gcd(m, d)
    return m


def present(b1, b2, e1, e2):
    """(presented n1, presented n2, scaled base b1, scaled base b2) with every coordinate a binary64 number, or None"""
    m = odd_part_lcm([elevate(b1, e1), elevate(b2, e2)])
    b1 = [[v * m for v in r] for r in b1]
    b2 = [[v * m for v in r] for r in b2]
    n1, n2 = elevate(b1, e1), elevate(b2, e2)
    if not all(Z.net_is_f64(n) for n in (b1, b2, n1, n2)):
        return None
    return n1, n2, b1, b2


def boxes_disjoint(n1, n2):
    return (max(n1[0]) < min(n2[0]) or max(n2[0]) < min(n1[0]) or
            max(n1[1]) < min(n2[1]) or max(n2[1]) < min(n1[1]))


def tangent_box_line_degenerate(n1, n2):
    """boxes tangent along an axis-parallel line AND one curve entirely on that line (class of the C03 finding)"""
    if boxes_disjoint(n1, n2):
        return False
    for r in (0, 1):
        for a, b in ((n1, n2), (n2, n1)):
            c = max(a[r])
            if c == min(b[r]) and (all(v == c for v in a[r]) or all(v == c for v in b[r])):
                return True
    return False


def well_conditioned(iso):
    """None if the pair is in the domain of the property, else the reason it is not (same domain as C03)"""
    if iso.status != "certified":
        return "isolator-undecided:" + iso.reason
    for r in iso.roots:
        if r.sin2_lo < SIN2_MIN:
            return "small-angle"
        for lo, hi, ex in ((r.s_lo, r.s_hi, r.s_exact), (r.t_lo, r.t_hi, r.t_exact)):
            if ex is None and not (lo >= EDGE_MIN and hi <= 1 - EDGE_MIN):
                return "root-near-boundary"
    sep = iso.min_separation()
    if sep is not None and sep < SEP_MIN:
        return "roots-too-close"
    return None


def match(cols, roots):
    """hits per root, list of columns matching no root"""
    hits = [0] * len(roots)
    unmatched = []
    for (s, t) in cols:
        m = [i for i, r in enumerate(roots)
             if r.s_lo - INFLATE <= s <= r.s_hi + INFLATE and r.t_lo - INFLATE <= t <= r.t_hi + INFLATE]
        if not m:
            unmatched.append((s, t))
        for i in m:
            hits[i] += 1
    return hits, unmatched


def sylvester_det(p, q, n):
    """determinant of the 2n x 2n Sylvester matrix of p, q (ascending coefficient lists padded to formal degree n)"""
    p = list(p) + [Fr(0)] * (n + 1 - len(p))
    q = list(q) + [Fr(0)] * (n + 1 - len(q))
    m = [[Fr(0)] * (2 * n) for _ in range(2 * n)]
    for i in range(n):
        for j in range(n + 1):
            m[i][i + j] = p[n - j]
            m[n + i][i + j] = q[n - j]
    det = Fr(1)
    sz = 2 * n
    for c in range(sz):
        piv = next((r for r in range(c, sz) if m[r][c] != 0), None)
        if piv is None:
            return Fr(0)
        if piv != c:
            m[c], m[piv] = m[piv], m[c]
            det = -det
        det *= m[c][c]
        for r in range(c + 1, sz):
            if m[r][c] != 0:
                f = m[r][c] / m[c][c]
                m[r] = [a - f * b for a, b in zip(m[r], m[c])]
    return det


def located_first(b1, b2):
    """the algebraic path implicitizes / locates on the curve of lower reduced degree (the first one on a tie)"""
    return true_degree(b1) <= true_degree(b2)


def intersection_polynomial(b1, b2):
    """exact g(t) = Res_s(xL(s) - xH(t), yL(s) - yH(t)) (ascending coefficients), L = located curve, H = the other"""
    L, H = (b1, b2) if located_first(b1, b2) else (b2, b1)
    n, m = true_degree(L), true_degree(H)
    px, py = ISO._to_power(L[0])[:n + 1], ISO._to_power(L[1])[:n + 1]
    N = n * m
    g = [Fr(0)]
    pts = [Fr(k, N) for k in range(N + 1)]
    for k, tk in enumerate(pts):
        x, y = Z.ev(H[0], tk), Z.ev(H[1], tk)
        v = sylvester_det([px[0] - x] + px[1:], [py[0] - y] + py[1:], n)
        basis = [Fr(1)]
        den = Fr(1)
        for j, tj in enumerate(pts):
            if j != k:
                basis = X.poly_mul(basis, [-tj, Fr(1)])
                den *= tk - tj
        g = X.poly_add(g, X.poly_scale(basis, v / den))
    return ISO._trim(g)


def refusal_class(b1, b2, roots, msg):
    """class of the INPUT (exact) and of the refusal (message) when the algebraic strategy refuses an in-domain pair"""
    claim = "claims-coincident" if msg.startswith("Coincident") else (
        "claims-non-simple" if "non-simple" in msg else ("claims-unsupported-degrees" if "Degree 1" in msg else "claims-other"))
    g = intersection_polynomial(b1, b2)
    if not g:
        return claim + ":zero-intersection-polynomial"
    dg = [i * g[i] for i in range(1, len(g))]
    h = ISO._pgcd(g, dg) if len(g) > 1 else [Fr(1)]
    if len(h) <= 1:
        return claim + ":squarefree-intersection-polynomial"
    first = located_first(b1, b2)
    for r in roots:
        lo, hi = (r.t_lo, r.t_hi) if first else (r.s_lo, r.s_hi)
        if ISO._has_root_in(h, lo, hi):
            return claim + ":repeated-root-at-certified-crossing"
    return claim + ":repeated-root-away-from-crossings"


REFUSAL_TEXT = {
    "zero-intersection-polynomial": "the exact intersection polynomial vanishes identically: both curves lie on one algebraic "
                                    "curve but share only isolated points of the unit square",
    "squarefree-intersection-polynomial": "the exact intersection polynomial is square-free",
    "repeated-root-at-certified-crossing": "the exact intersection polynomial has a repeated root AT a certified simple "
                                           "crossing: the implicit form of the located curve is degenerate (e.g. a straight "
                                           "segment parametrised with degree 2)",
    "repeated-root-away-from-crossings": "the exact intersection polynomial has a repeated root, but not at a solution in "
                                         "the unit square (tangency of the extended curves, or a complex one)",
}


def nearly_reduced(net):
    """top forward difference small against the first differences (a slightly perturbed elevated curve)"""
    for row_set in (net,):
        n = true_degree(row_set)
        if n < 2:
            return False
        top = 0
        first = 0
        for row in row_set:
            cur = list(row)
            first = max([first] + [abs(cur[j + 1] - cur[j]) for j in range(len(cur) - 1)])
            for _ in range(n):
                cur = [cur[j + 1] - cur[j] for j in range(len(cur) - 1)]
            top = max([top] + [abs(v) for v in cur])
        return top * 16 <= first


def stationary_locate_coordinate(b1, b2, root):
    """does the coordinate polynomial that locate_point solves (lower degree coordinate of the located curve, x on a tie,
    never a constant one) have a (near) stationary point at the root (|derivative| <= 2^-6 of the largest control-point
    difference)?  Then a perturbation of the point moves the located parameter by its square root (or 64 times): the
    2^-38 residual test of locate_point fails and the algebraic path drops the root silently"""
    first = located_first(b1, b2)
    L = b1 if first else b2
    lo, hi = (root.s_lo, root.s_hi) if first else (root.t_lo, root.t_hi)
    dx, dy = true_degree([L[0]]), true_degree([L[1]])
    row = L[0] if dx <= dy else L[1]
    if min(dx, dy) == 0:
        row = L[1] if dx == 0 else L[0]
    n = len(row) - 1
    diffs = [row[j + 1] - row[j] for j in range(n)]
    bound = max(abs(v) for v in diffs)
    a, b = Z.ev(diffs, lo), Z.ev(diffs, hi)
    return a == 0 or b == 0 or (a > 0) != (b > 0) or min(abs(a), abs(b)) <= bound / 2 ** 6


def collinear_of_degree_2plus(net):
    """a straight segment parametrised with degree >= 2 (its implicit form is a power of the line equation)"""
    if true_degree(net) < 2:
        return False
    x0, y0 = net[0][0], net[1][0]
    pts = list(zip(net[0], net[1]))
    far = max(pts, key=lambda p: abs(p[0] - x0) + abs(p[1] - y0))
    dx, dy = far[0] - x0, far[1] - y0
    return all(dx * (y - y0) - dy * (x - x0) == 0 for x, y in pts)


def far_from_origin(b1, b2):
    xs = list(b1[0]) + list(b2[0])
    ys = list(b1[1]) + list(b2[1])
    extent = max(max(xs) - min(xs), max(ys) - min(ys))
    return max(abs(v) for v in xs + ys) >= 32 * extent


def real_root_count(g, lo, hi):
    """number of distinct real roots of the non-zero polynomial g (ascending Fractions) in [lo, hi] (Sturm)"""
    g = ISO._trim(g)
    if len(g) <= 1:
        return 0
    dg = [i * g[i] for i in range(1, len(g))]
    h = ISO._pgcd(g, dg)
    if len(h) > 1:
        g = ISO._pdiv_exact(g, h)
    extra = 0
    while ISO._peval(g, lo) == 0:       # move off a root sitting on the border
        lo -= Fr(1, 2 ** 80)
    while ISO._peval(g, hi) == 0:
        hi += Fr(1, 2 ** 80)
    chain = [g, [i * g[i] for i in range(1, len(g))]]
    while len(chain[-1]) > 1:
        r = ISO._pmod(chain[-2], chain[-1])
        if not r:
            break
        chain.append([-c for c in r])

    def var(x):
        sg = [v for v in (ISO._peval(q, x) for q in chain) if v != 0]
        return sum(1 for i in range(len(sg) - 1) if (sg[i] > 0) != (sg[i + 1] > 0))
    return var(lo) - var(hi) + extra


def algebraic_miss_class(b1, b2, missed):
    """class of the INPUT on which the algebraic strategy silently loses certified roots (exact tests, first that applies)"""
    if collinear_of_degree_2plus(b1) or collinear_of_degree_2plus(b2):
        return "straight-curve-of-degree-2+"
    if all(stationary_locate_coordinate(b1, b2, r) for r in missed):
        return "axis-parallel-tangent-at-crossing"
    if nearly_reduced(b1) or nearly_reduced(b2):
        return "nearly-degree-reduced-curve"
    if far_from_origin(b1, b2):
        return "far-from-origin"
    g = intersection_polynomial(b1, b2)
    if g:
        first = located_first(b1, b2)
        w = Fr(1, 2 ** 6)
        if all(real_root_count(g, (r.t_lo if first else r.s_lo) - w, (r.t_hi if first else r.s_hi) + w) >= 2 for r in missed):
            return "clustered-roots-of-intersection-polynomial"
    return root_class(missed)


def geometric_miss_class(n1, n2, missed):
    if tangent_box_line_degenerate(n1, n2):
        return "tangent-bbox-curve-on-axis-parallel-line"
    for a, b, which in ((n1, n2, "s"), (n2, n1, "t")):
        # b lies on an axis-parallel line and a reaches it exactly at a dyadic break point of the bisection
        if any(all(v == row[0] for v in row) for row in b):
            def dyadic(lo, hi):
                return any((-((-lo * 2 ** m) // 1)) <= (hi * 2 ** m) // 1 for m in range(0, 9))
            if all(dyadic(r.s_lo, r.s_hi) if which == "s" else dyadic(r.t_lo, r.t_hi) for r in missed):
                return "curve-on-axis-parallel-line:dyadic-break-point"
    return root_class(missed)


def root_class(missed):
    """class of the certified roots a strategy lost (a property of the INPUT)"""
    if all((r.s_exact is None) != (r.t_exact is None) for r in missed):
        return "endpoint-on-other-curve"
    if all(r.s_exact is not None and r.t_exact is not None for r in missed):
        return "shared-endpoint"
    if all(r.s_exact is None and r.t_exact is None for r in missed):
        return "interior-crossing"
    return "mixed"


# ------------------------------------------------------------------------------------------- generators
def lattice_pair(rnd, d1, d2, grid=5):
    """5 x 5 lattice nets of the given (presented) degrees; same perturbation modes as curvezoo.lattice_pairs"""
    def net(deg):
        return [[Fr(rnd.randrange(grid)) for _ in range(deg + 1)] for _ in range(2)]
    while True:
        n1, n2 = net(d1), net(d2)
        mode = rnd.choice(["free", "free", "free", "shared-end", "end-on-node", "repeat", "axis-line", "diag-line", "touch"])
        if mode == "shared-end":
            i, j = rnd.choice([0, d1]), rnd.choice([0, d2])
            n2[0][j], n2[1][j] = n1[0][i], n1[1][i]
        elif mode == "end-on-node":
            i, j = rnd.choice([0, d1]), rnd.randint(0, d2)
            n2[0][j], n2[1][j] = n1[0][i], n1[1][i]
        elif mode == "repeat":
            k = rnd.randint(0, d1 - 1)
            n1[0][k + 1], n1[1][k + 1] = n1[0][k], n1[1][k]
        elif mode == "axis-line":
            r = rnd.choice([0, 1])
            c = rnd.choice([min(n2[r]), max(n2[r])])
            n1[r] = [c] * (d1 + 1)
        elif mode == "diag-line":
            c = rnd.randrange(grid)
            sg = rnd.choice([1, -1])
            n1[1] = [Fr(max(0, min(grid - 1, c + sg * (v - n1[0][0])))) for v in n1[0]]
        elif mode == "touch":
            r = rnd.choice([0, 1])
            sh = max(n1[r]) - min(n2[r])
            n2[r] = [v + sh for v in n2[r]]
        if Z.constant(n1) or Z.constant(n2):
            continue
        return {"family": "lattice", "tag": mode, "b1": n1, "b2": n2}


def smooth24(rnd, deg, flip):
    """regular-looking arc, coordinates dyadic with 24 fractional bits (so that odd multiples stay binary64)"""
    x = rnd.uniform(-0.2, 0.1)
    y = rnd.uniform(0.2, 0.8)
    xs, ys = [], []
    for _ in range(deg + 1):
        xs.append(Fr(round(x * 2 ** 24), 2 ** 24))
        ys.append(Fr(round(y * 2 ** 24), 2 ** 24))
        x += rnd.uniform(0.3, 1.0) * (1.8 / deg)
        y += rnd.uniform(-1.0, 1.0) * (1.2 / deg)
    return [ys, xs] if flip else [xs, ys]


def random_pair(rnd, d1, d2):
    n1 = smooth24(rnd, d1, False)
    n2 = smooth24(rnd, d2, rnd.random() < 0.7)
    sc = Fr(2) ** rnd.choice([0, 0, 0, -12, 10])
    off = Fr(rnd.choice([0, 0, 0, 3, -100]))
    n1 = [[(v + off) * sc for v in r] for r in n1]
    n2 = [[(v + off) * sc for v in r] for r in n2]
    return {"family": "random", "tag": "scale %s offset %s" % (sc, off * sc), "b1": n1, "b2": n2}


def planted_pair(rnd, d1, d2):
    while True:
        a, b = Z.dyadic_param(rnd, 3), Z.dyadic_param(rnd, 3)
        n1, n2 = Z.dyadic_net(rnd, d1), Z.dyadic_net(rnd, d2)
        p, q = Z.point(n1, a), Z.point(n2, b)
        n2 = Z.translate(n2, p[0] - q[0], p[1] - q[1])
        if Z.constant(n1) or Z.constant(n2) or not (Z.net_is_f64(n1) and Z.net_is_f64(n2)):
            continue
        return {"family": "planted", "tag": "at (%s, %s)" % (a, b), "b1": n1, "b2": n2}


def nearly_reduced_pair(rnd, d1, d2):
    """curve 2 (degree d2 >= 2) = an exactly elevated lower-degree dyadic curve with its inner control points moved by
    2^-4 .. 2^-8; curve 1 (degree d1) a dyadic net translated to cross it at dyadic parameters; randomly swapped"""
    while True:
        dl = rnd.randint(1, d2 - 1)
        low = Z.dyadic_net(rnd, dl)
        e = elevate(low, d2 - dl)
        m = odd_part_lcm([e])
        n2 = [[v * m for v in r] for r in e]
        k = rnd.randint(4, 8)
        for r in n2:
            for j in range(1, d2):
                r[j] += Fr(rnd.choice([-1, 1, 0]) * m, 2 ** k)
        if true_degree(n2) != d2:
            continue
        n1 = [[v * m for v in r] for r in Z.dyadic_net(rnd, d1)]
        a, b = Z.dyadic_param(rnd, 3, ends=0.1), Z.dyadic_param(rnd, 3, ends=0.1)
        p, q = Z.point(n1, a), Z.point(n2, b)
        n1 = Z.translate(n1, q[0] - p[0], q[1] - p[1])
        if Z.constant(n1) or not (Z.net_is_f64(n1) and Z.net_is_f64(n2)):
            continue
        g = {"family": "nearly-reduced", "tag": "degree %d elevated to %d, bumps 2^-%d, crossing at (%s, %s)" % (dl, d2, k, a, b),
             "b1": n1, "b2": n2}
        return g


def near_parallel_axes_pair(rnd):
    """two genuine parabolas whose axes make a small but non-zero angle (about 0.44 * 2^-k rad, k = 9..19): the L2-normalised
    intersection polynomial has a small GENUINE leading coefficient (t^4 coefficient = (n . a2)^2 between about 1e-12 and 1e-6 of the
    others) - between round-off and the 2^-26 'numerically zero' threshold of the repeated-root test, where a coefficient must not be
    discarded before the root solve.  Exact dyadic nets, simple transversal crossings, presented under an exact similarity (power-of-two
    scale, axis swap, mirror, dyadic translation).  The unchanged tree returns exactly the certified set on this family (seed C15_g)."""
    k = rnd.randint(9, 19)
    delta = Fr(rnd.choice([1, -1]), 2 ** k)
    first = [[Fr(0), Fr(9, 2), Fr(3)], [Fr(0), Fr(3, 2), Fr(-3)]]
    second = [[Fr(9, 4), Fr(0), Fr(9, 2) + 3 * delta], [Fr(9, 4), Fr(-3), Fr(-3, 2) - 3 * delta]]
    sc = Fr(2) ** rnd.randint(-3, 3)
    tx, ty = Fr(rnd.randint(-8, 8), 4), Fr(rnd.randint(-8, 8), 4)
    swap, mx, my = rnd.random() < 0.5, rnd.choice([1, -1]), rnd.choice([1, -1])

    def tr(net):
        x = [mx * sc * v + tx for v in net[0]]
        y = [my * sc * v + ty for v in net[1]]
        return [y, x] if swap else [x, y]
    b1, b2 = tr(first), tr(second)
    if rnd.random() < 0.5:
        b1, b2 = b2, b1
    return {"family": "near-parallel-axes", "tag": "axes at angle 0.44 * 2^-%d, scale %s" % (k, sc), "b1": b1, "b2": b2}


def high_degree_pair(rnd):
    """one curve of exact degree 5 or 6 (not an elevated lower-degree curve) against a curve of degree 1..4, boxes meeting"""
    while True:
        dh, dl = rnd.choice([5, 5, 6]), rnd.randint(1, 4)
        nh, nl = Z.dyadic_net(rnd, dh), Z.dyadic_net(rnd, dl)
        if true_degree(nh) != dh or Z.constant(nl) or boxes_disjoint(nh, nl):
            continue
        b1, b2 = (nh, nl) if rnd.random() < 0.5 else (nl, nh)
        return {"family": "high-degree", "tag": "degree %d net" % dh, "b1": b1, "b2": b2}


def tri_nodes(p0, e1, e2, d, bumps):
    """degree-d net of the affine triangle p0, p0+e1, p0+e2 (d in 1, 2); bumps = offsets of the three mid-edge nodes"""
    out = [[], []]
    mids = iter(bumps)
    for k in range(d + 1):
        for j in range(d + 1 - k):
            i = d - j - k
            pt = [p0[c] + Fr(j, d) * e1[c] + Fr(k, d) * e2[c] for c in (0, 1)]
            if d == 2 and max(i, j, k) == 1:
                bx, by = next(mids)
                pt = [pt[0] + bx, pt[1] + by]
            out[0].append(pt[0])
            out[1].append(pt[1])
    return out


def triangle_case(rnd, d1, d2):
    def tri(d, centre):
        while True:
            q = 64
            e1 = [Fr(rnd.randint(2 * q, 4 * q), q), Fr(rnd.randint(-q, q), q)]
            e2 = [Fr(rnd.randint(-q, q), q), Fr(rnd.randint(2 * q, 4 * q), q)]
            if e1[0] * e2[1] - e1[1] * e2[0] <= 0:
                continue
            p0 = [centre[0] - (e1[0] + e2[0]) / 4, centre[1] - (e1[1] + e2[1]) / 4]
            bumps = [(Fr(rnd.randint(-12, 12), q), Fr(rnd.randint(-12, 12), q)) for _ in range(3)]
            return tri_nodes(p0, e1, e2, d, bumps)
    c1 = [Fr(rnd.randint(-64, 64), 64), Fr(rnd.randint(-64, 64), 64)]
    c2 = [c1[0] + Fr(rnd.randint(-96, 96), 64), c1[1] + Fr(rnd.randint(-96, 96), 64)]
    return {"t1": tri(d1, c1), "t2": tri(d2, c2), "d1": d1, "d2": d2}


# ------------------------------------------------------------------------------------------- failure records
_PER_KEY = {}
PER_KEY_CAP = 3


# refusals that the property itself documents ("where the algebraic strategy cannot answer (unsupported degrees,
# coincident curves, repeated roots) it raises the documented not-implemented error"): not failures
DOCUMENTED_REFUSALS = (
    "presented-degree-5+",                                   # full_reduce supports at most 5 nodes: UnsupportedDegree (a NotImplementedError)
    "claims-non-simple:repeated-root-away-from-crossings",   # the exact intersection polynomial has a repeated root (not square-free)
    "claims-non-simple:repeated-root-at-certified-crossing",  # e.g. a straight segment presented with collinear quadratic control points
    "claims-coincident:zero-intersection-polynomial",        # one curve lies on the implicit curve of the other
)
_MISSES = {"algebraic": 0}


def fail(res, key, what, rc):
    """normalise the key (the degree pair goes into the message, not the key: keys name the failure CLASS so that
    known findings can be listed), divert documented refusals, keep at most PER_KEY_CAP written-out witnesses per key"""
    import re
    if any(dname in key for dname in DOCUMENTED_REFUSALS):
        res.count(("documented-refusal", key, str(rc)[:200]), nontrivial=False, documented_refusal=key)
        return
    key = re.sub(r":\d-\d(?=:|$)", "", key)
    m = re.match(r"(?:strategies-disagree|algebraic-not-subset):geometric-misses:(.*)$", key)
    if m:
        key = "geometric-misses:" + m.group(1)                 # the C03 families, seen from C15
    if key.startswith("strategies-disagree:algebraic-misses"):
        cls = key.split(":", 2)[2] if key.count(":") >= 2 else "-"
        what = "[class %s] %s" % (cls, what)
        d = res.dist.setdefault("algebraic_miss_class", {})
        d[cls] = d.get(cls, 0) + 1
        if cls.startswith("designed-family:"):
            # a family constructed so that the unchanged tree returns exactly the certified set: a miss there is NOT the listed
            # low-rate finding F-P and gets a key of its own (not listed)
            key = "algebraic-misses:" + cls.split(":", 1)[1]
        else:
            key = "algebraic-misses:simple-root-lost"            # low-rate on the unchanged tree; guarded by miss_rate_guard
        _MISSES["algebraic"] += 1
    if key.startswith("triangle-algebraic-raised:ValueError:edge-pair-algebraic-misses"):
        key = "triangle-algebraic-raised:ValueError:edge-pair-algebraic-misses"
    n = _PER_KEY.get(key, 0)
    _PER_KEY[key] = n + 1
    if n < PER_KEY_CAP:
        res.failure(key, what, rc)
    else:
        d = res.dist.setdefault("failure_keys", {})
        d[key] = d.get(key, 0) + 1


DESIGNED_FAMILIES = {"near-parallel-axes"}
MODEL_QUEUE = []
MODEL_BUDGET = [120]


def model_tie(bezier, res):
    """run the queued pairs through the driver op algebraic_all_intersections (oracle protocol of harness/alg_oracle.py)"""
    if not MODEL_QUEUE:
        return
    import alg_oracle
    from bezier.hazmat import algebraic_intersection as AI
    from bezier.hazmat import helpers as HH
    par = alg_oracle.alg_params(AI)
    w = alg_oracle.wiggle_default(HH)
    outs = alg_oracle.model_all_intersections(par, w, [(q[1], q[2]) for q in MODEL_QUEUE])
    agree = 0
    for (rc, n1, n2, cols), out in zip(MODEL_QUEUE, outs):
        ok = False
        if out[0] == "ok":
            mcols = [(float(a), float(b)) for a, b in zip(out[1], out[2])]
            free = list(mcols)
            ok = len(mcols) == len(cols)
            for (a, b) in cols:
                j = next((k for k, (u, v) in enumerate(free) if abs(a - u) <= 1e-9 and abs(b - v) <= 1e-9), None)
                if j is None:
                    ok = False
                    break
                free.pop(j)
        if ok:
            agree += 1
        else:
            res.mismatch("algebraic_all_intersections", rc, str(cols)[:300], str(out[:3])[:300],
                         "the implementation returned exactly the certified set, the model of the algebraic strategy did not")
    res.notes.append("model tie of the algebraic strategy (degree product <= 4, implementation = certified set): %d of %d pairs agree"
                     % (agree, len(MODEL_QUEUE)))
    d = res.dist.setdefault("algebraic_model_tie", {})
    d["agree"] = agree
    d["differ"] = len(MODEL_QUEUE) - agree


def miss_rate_guard(res):
    """the (listed) low-rate silent misses of the algebraic strategy must stay low-rate: on the unchanged tree about 0.3 % of
    the in-domain pairs of degree product <= 4 lose a root; more than 2 % is reported under its own key"""
    pairs = res.dist.get("claim", {}).get("equality", 0)
    if pairs >= 200 and _MISSES["algebraic"] > 0.02 * pairs:
        res.failure("algebraic-miss-rate-above-2-percent", "the algebraic strategy silently misses certified simple roots on %d of %d in-domain "
                    "pairs of degree product <= 4 (baseline of the unchanged tree: about 0.3 %%)" % (_MISSES["algebraic"], pairs),
                    {"note": "aggregate; see the individual algebraic-misses witnesses"})


# ------------------------------------------------------------------------------------------- library calls
def call(bezier, strategy, route, arr1, arr2):
    """("ok", 2xN array) | ("skip", why) | ("exc", type name, message)"""
    from bezier.hazmat import intersection_helpers as IH
    try:
        if route == "Curve.intersect":
            c1 = bezier.Curve(arr1, arr1.shape[1] - 1, copy=True)
            c2 = bezier.Curve(arr2, arr2.shape[1] - 1, copy=True)
            st = IH.IntersectionStrategy.GEOMETRIC if strategy == "geometric" else IH.IntersectionStrategy.ALGEBRAIC
            out = c1.intersect(c2, strategy=st)
        elif strategy == "geometric":
            from bezier import _geometric_intersection as GI
            out, _ = GI.all_intersections(arr1, arr2)
        else:
            from bezier.hazmat import algebraic_intersection as AI
            out, _ = AI.all_intersections(arr1, arr2)
    except ImportError as e:   # SciPy is absent from /venv
        return "skip", "algebraic strategy needs " + (getattr(e, "name", None) or "an absent module"), ""
    except Exception as e:     # noqa: BLE001
        msg = e.args[0] if e.args and isinstance(e.args[0], str) else str(e)
        return "exc", type(e).__name__, (msg + ("" if len(e.args) <= 1 else " " + " ".join(str(a) for a in e.args[1:])))[:140]
    return "ok", np.asarray(out), ""


def columns(out):
    return C.finite_cols(out)[0]


def fcols(cols):
    return str([(float(s), float(t)) for s, t in cols])


def outcome(st, out):
    if st == "ok":
        n = out.shape[1] if out.ndim == 2 else -1
        return "returned-%s" % (n if n < 5 else "5+")
    return "raised:" + out if st == "exc" else "skipped"


# ------------------------------------------------------------------------------------------- json
def jnet(net):
    return [[str(v) for v in r] for r in net]


def unjnet(net):
    return [[Fr(v) for v in r] for r in net]


def jcase(c):
    out = {}
    for k, v in c.items():
        out[k] = jnet(v) if k in ("n1", "n2", "b1", "b2", "t1", "t2") else v
    return out


def unjcase(c):
    out = {}
    for k, v in c.items():
        out[k] = unjnet(v) if k in ("n1", "n2", "b1", "b2", "t1", "t2") else v
    return out


# ------------------------------------------------------------------------------------------- case list
def build_cases(rnd, tier, search):
    thorough = tier == "thorough"
    cases = []

    def add(role, g, e1=0, e2=0):
        pr = present(g["b1"], g["b2"], e1, e2)
        if pr is None:
            return False
        n1, n2, b1, b2 = pr
        cases.append({"role": role, "family": g["family"], "tag": g["tag"], "n1": n1, "n2": n2, "b1": b1, "b2": b2,
                      "e1": e1, "e2": e2})
        return True

    n_lat, n_rnd, n_pl = (600, 150, 150) if thorough else ((200, 50, 50) if search else (150, 40, 40))
    elev_every = 3
    idx = 0
    for d1 in range(1, 5):
        for d2 in range(1, 5):
            gens = ([lambda: lattice_pair(rnd, d1, d2)] * n_lat + [lambda: random_pair(rnd, d1, d2)] * n_rnd +
                    [lambda: planted_pair(rnd, d1, d2)] * n_pl)
            for g in gens:
                p = g()
                add("compare", p)
                idx += 1
                # the same pair presented degree-elevated (once or twice, one or both curves), presented degree <= 4
                if (min(d1, d2), max(d1, d2)) in SUPPORTED and idx % elev_every == 0:
                    opts = [(a, b) for a in range(0, 3) for b in range(0, 3)
                            if (a or b) and d1 + a <= 4 and d2 + b <= 4]
                    if opts:
                        a, b = rnd.choice(opts)
                        add("compare", p, a, b)
    # slightly perturbed elevated curves (the intersection polynomial has a tiny leading coefficient)
    for d1, d2 in ((1, 2), (1, 3), (1, 4), (2, 2), (2, 3), (3, 3), (2, 4)):
        for _ in range(80 if thorough else 20):
            g = nearly_reduced_pair(rnd, d1, d2)
            if rnd.random() < 0.5:
                g["b1"], g["b2"] = g["b2"], g["b1"]
            add("compare", g)
    # parabolas with nearly parallel axes: small genuine leading coefficient of the intersection polynomial (seed C15_g)
    for i in range(120 if thorough else 36):
        g = near_parallel_axes_pair(rnd)
        if i % 3 == 2:
            a, b = rnd.choice([(1, 0), (0, 1), (1, 1), (2, 0), (0, 2), (2, 2), (1, 2)])
            add("compare", g, a, b)
        else:
            add("compare", g)
    # elevated beyond the degree the reduction accepts (presented degree 5 or 6)
    for _ in range(60 if thorough else 16):
        d1, d2 = rnd.choice(sorted(SUPPORTED))
        if rnd.random() < 0.5:
            d1, d2 = d2, d1
        p = rnd.choice([lattice_pair, planted_pair])(rnd, d1, d2)
        if rnd.random() < 0.5:
            add("compare", p, 5 - d1 + rnd.randint(0, 1), 0)
        else:
            add("compare", p, 0, 5 - d2 + rnd.randint(0, 1))
    # exact degree 5, 6
    for _ in range(120 if thorough else 30):
        add("compare", high_degree_pair(rnd))
    # zoo
    if not search:
        for p in Z.zoo_pairs(rnd, full=thorough, per_curve=6):
            g = {"family": "zoo", "tag": p["tag"], "b1": p["n1"], "b2": p["n2"]}
            if Z.constant(g["b1"]) or Z.constant(g["b2"]):
                continue
            add("compare", g)
            d1, d2 = len(g["b1"][0]) - 1, len(g["b2"][0]) - 1
            if rnd.random() < 0.25:
                opts = [(a, b) for a in range(0, 3) for b in range(0, 3) if (a or b) and d1 + a <= 4 and d2 + b <= 4]
                if opts:
                    a, b = rnd.choice(opts)
                    add("compare", g, a, b)
    # near misses: the extension of one curve just beyond an end point crosses the other; no intersection on [0,1]^2
    for _ in range(240 if thorough else 60):
        p = Z.near_miss(rnd)
        add("compare", {"family": "near-miss", "tag": p["tag"], "b1": p["n1"], "b2": p["n2"]})
    # refusals: overlapping sub-arcs of a common parent (degree 1..4)
    for _ in range(400 if thorough else 100):
        p = Z.overlapping_arcs(rnd, max_deg=4)
        add("overlap", {"family": "overlap", "tag": p["tag"], "b1": p["n1"], "b2": p["n2"]})
    # refusals: planted tangencies, reduced degree product <= 4
    got = 0
    want = 400 if thorough else 100
    cases.append({"role": "tangency", "family": "tangent", "tag": "witness: two parabolas tangent at (1/2, 3/4)",
                  "n1": [list(r) for r in Z.WITNESS_BOGUS_TANGENT[2][0]], "n2": [list(r) for r in Z.WITNESS_BOGUS_TANGENT[2][1]],
                  "b1": [list(r) for r in Z.WITNESS_BOGUS_TANGENT[2][0]], "b2": [list(r) for r in Z.WITNESS_BOGUS_TANGENT[2][1]],
                  "e1": 0, "e2": 0})
    while got < want:
        p = Z.planted_tangency(rnd, max_deg=4)
        r1, r2 = true_degree(p["n1"]), true_degree(p["n2"])
        if min(r1, r2) < 1 or r1 * r2 > 4:
            continue
        if rnd.random() < 0.5:
            p["n1"], p["n2"] = p["n2"], p["n1"]
        if add("tangency", {"family": "tangent", "tag": p["tag"], "b1": p["n1"], "b2": p["n2"]}):
            got += 1
    # disjoint control-point boxes
    for _ in range(240 if thorough else 60):
        d1, d2 = rnd.randint(1, 4), rnd.randint(1, 4)
        p = rnd.choice([lattice_pair, planted_pair])(rnd, d1, d2)
        r = rnd.choice([0, 1])
        sh = max(p["b1"][r]) - min(p["b2"][r]) + Fr(rnd.choice([1, 3, 1000]), rnd.choice([1, 2 ** 20]))
        p["b2"][r] = [v + sh for v in p["b2"][r]]
        p["family"] = "disjoint"
        add("disjoint", p)
    # triangles
    if not search:
        for d1 in (1, 2):
            for d2 in (1, 2):
                for _ in range(240 if thorough else 80):
                    c = triangle_case(rnd, d1, d2)
                    c["role"] = "triangle"
                    cases.append(c)
    return cases


# ------------------------------------------------------------------------------------------- per-case checks
class Probe:
    def __init__(self):
        self.by = {}

    def rec(self, deg, **kw):
        d = self.by.setdefault(deg, {"in_domain": 0, "with_roots": 0, "roots": 0, "alg_missed_roots": 0,
                                     "pairs_alg_misses": 0, "alg_refused": 0, "geo_missed_roots": 0, "agree": 0,
                                     "alg_refused_squarefree": 0, "pairs_alg_misses_stationary": 0})
        for k, v in kw.items():
            d[k] += v


def check_compare(bezier, res, probe, c, route):
    n1, n2, b1, b2 = c["n1"], c["n2"], c["b1"], c["b2"]
    rd1, rd2 = true_degree(b1), true_degree(b2)
    pd1, pd2 = len(n1[0]) - 1, len(n2[0]) - 1
    deg = "%d-%d" % (rd1, rd2)
    prod = rd1 * rd2
    elevated = "%d+%d" % (pd1 - rd1, pd2 - rd2)
    rc = {"role": "compare", "case": jcase(c), "route": route}
    key = (rc["case"]["n1"], rc["case"]["n2"], route)
    arr1, arr2 = C.farr(n1), C.farr(n2)
    where = "%s (%s, %s; reduced degrees %s, presented %d-%d)" % (route, c["family"], c["tag"], deg, pd1, pd2)
    tags = {"family": c["family"], "elevated": elevated}
    degtag = deg if max(rd1, rd2) <= 4 else "max-degree-5+"
    disjoint = boxes_disjoint(n1, n2)
    supported = (min(rd1, rd2), max(rd1, rd2)) in SUPPORTED

    # the library's own (floating point) degree reduction against the exact degree
    if max(pd1, pd2) <= 4:
        from bezier import _curve_helpers
        fr1 = _curve_helpers.full_reduce(np.asfortranarray(arr1.copy(order="F"))).shape[1] - 1
        fr2 = _curve_helpers.full_reduce(np.asfortranarray(arr2.copy(order="F"))).shape[1] - 1
        if fr1 < rd1 or fr2 < rd2:
            # a curve within the relative reduction threshold of a lower-degree curve: "degree after reduction" is the
            # library's, the exact classification does not apply
            res.count(key, nontrivial=False, role="compare", degrees=degtag,
                      domain="outside:float-reduction-below-exact-degree", **tags)
            return
        if fr1 > rd1 or fr2 > rd2:
            fail(res, "algebraic:elevated-not-reduced:" + deg, "%s: full_reduce leaves degrees %d-%d although the exact "
                 "degrees are %s" % (where, fr1, fr2, deg), rc)

    if not supported:
        sa, oa, ma = call(bezier, "algebraic", route, arr1, arr2)
        sg, og, _ = call(bezier, "geometric", route, arr1, arr2)
        res.count(key, nontrivial=not disjoint, role="unsupported-degrees", degrees=degtag, domain="n-a:unsupported",
                  algebraic=outcome(sa, oa), geometric=outcome(sg, og), **tags)
        if sa == "skip":
            res.skip(oa)
        elif disjoint:
            if not (sa == "ok" and oa.shape == (2, 0)):
                fail(res, "nonempty-for-disjoint-boxes:algebraic", "%s: disjoint boxes, algebraic strategy %s" %
                            (where, outcome(sa, oa)), rc)
        elif sa == "ok":
            fail(res, "algebraic:unsupported-not-refused:" + deg, "%s: the algebraic strategy returned normally (%d columns) "
                        "on an unsupported degree pair instead of raising NotImplementedError" % (where, oa.shape[1]), rc)
        elif oa not in ("NotImplementedError", "UnsupportedDegree"):   # UnsupportedDegree is a NotImplementedError
            fail(res, "algebraic:unsupported-wrong-error:%s:%s" % (deg, oa), "%s: the algebraic strategy raised %s (%s) "
                        "instead of NotImplementedError" % (where, oa, ma), rc)
        return

    if max(pd1, pd2) >= 5:
        sa, oa, ma = call(bezier, "algebraic", route, arr1, arr2)
        res.count(key, role="elevated-beyond-4", degrees=degtag, domain="n-a:presented-degree-5+",
                  algebraic=outcome(sa, oa), **tags)
        if sa == "skip":
            res.skip(oa)
        elif sa == "exc" and not disjoint:
            fail(res, "algebraic-raised:%s:%s:presented-degree-5+" % (deg, oa), "%s: a supported pair presented degree-elevated "
                        "to degree %d is not reduced, the algebraic strategy raises %s (%s)" % (where, max(pd1, pd2), oa, ma), rc)
        return

    iso = ISO.isolate(b1, b2)
    why = well_conditioned(iso)
    if why is not None:
        res.count(key, nontrivial=False, role="compare", degrees=degtag, domain="outside:" + why.split(":")[0], **tags)
        if disjoint:
            for strategy in ("geometric", "algebraic"):
                st, out, _ = call(bezier, strategy, route, arr1, arr2)
                if st == "skip":
                    res.skip(out)
                elif not (st == "ok" and out.shape == (2, 0)):
                    fail(res, "nonempty-for-disjoint-boxes:" + strategy, "%s: disjoint boxes, %s strategy %s" %
                                (where, strategy, outcome(st, out)), rc)
        return

    roots = iso.roots
    sg, og, mg = call(bezier, "geometric", route, arr1, arr2)
    sa, oa, ma = call(bezier, "algebraic", route, arr1, arr2)
    nroots = len(roots)
    base = dict(role="compare", degrees=degtag, domain="inside", route=route, certified_roots=nroots if nroots < 5 else "5+",
                geometric=outcome(sg, og), algebraic=outcome(sa, oa),
                claim="equality" if prod <= 4 else "inclusion", **tags)
    probe.rec(deg, in_domain=1, with_roots=1 if nroots else 0, roots=nroots)
    if sa == "skip":
        res.skip(oa)
        res.count(key, **base)
        return
    for st, out, strategy in ((sg, og, "geometric"), (sa, oa, "algebraic")):
        if st == "ok" and (out.ndim != 2 or out.shape[0] != 2):
            fail(res, "result-shape:" + strategy, "%s: result shape %r is not 2 x N" % (where, out.shape), rc)
            res.count(key, **base)
            return
    gcols = columns(og) if sg == "ok" else None
    acols = columns(oa) if sa == "ok" else None
    for st, out, strategy in ((sg, og, "geometric"), (sa, oa, "algebraic")):
        if st == "ok" and C.finite_cols(out)[1]:
            fail(res, "non-finite-parameter:" + strategy, "%s: the %s strategy returns a NaN / infinite parameter: %s" %
                 (where, strategy, out.tolist()), rc)
    shown = "certified roots %s; geometric %s; algebraic %s" % (
        str([(float(r.mid()[0]), float(r.mid()[1])) for r in roots]),
        fcols(gcols) if gcols is not None else "raised " + og, fcols(acols) if acols is not None else "raised " + oa)
    res.sample({"family": c["family"], "tag": c["tag"], "degrees": deg, "elevated": elevated, "route": route,
                "certified_roots": nroots, "geometric": outcome(sg, og), "algebraic": outcome(sa, oa)})
    g_ok = a_ok = False
    g_missed = a_missed = []
    if gcols is not None:
        gh, gun = match(gcols, roots)
        g_missed = [roots[i] for i, h in enumerate(gh) if h == 0]
        g_dup = [roots[i] for i, h in enumerate(gh) if h > 1]
        g_ok = not g_missed and not g_dup and not gun
        probe.rec(deg, geo_missed_roots=len(g_missed))
    if acols is not None:
        ah, aun = match(acols, roots)
        a_missed = [roots[i] for i, h in enumerate(ah) if h == 0]
        a_dup = [roots[i] for i, h in enumerate(ah) if h > 1]
        a_ok = not a_missed and not a_dup and not aun
    if g_ok and a_ok:
        probe.rec(deg, agree=1)

    if sg == "exc":
        fail(res, "geometric-raised:%s:%s" % (deg, og), "%s: geometric strategy raised %s (%s) on an in-domain pair; %s" %
                    (where, og, mg, shown), rc)

    if prod <= 4:
        res.count(key, verdict="both-equal-certified-set" if (g_ok and a_ok) else "deviation", **base)
        if a_ok and route == "all_intersections" and max(pd1, pd2) <= 4 and len(MODEL_QUEUE) < MODEL_BUDGET[0]:
            # tie of the Lean model of the algebraic strategy (Model/AlgebraicAssembly.lean; exact between the external numerics,
            # which are answered with numpy's values): only where the implementation returned exactly the certified set, so that
            # every threshold decision has a clear margin
            MODEL_QUEUE.append((rc, n1, n2, [(float(a), float(b)) for a, b in acols]))
        if sa == "exc":
            probe.rec(deg, alg_refused=1)
            cls = ":" + refusal_class(b1, b2, roots, ma) if oa == "NotImplementedError" else ""
            fail(res, "algebraic-raised:%s:%s%s" % (deg, oa, cls), "%s: algebraic strategy raised %s (%s) on an in-domain pair "
                 "with %d certified simple crossings (%s); %s" %
                 (where, oa, ma, nroots, REFUSAL_TEXT.get(cls.split(":")[-1], "-"), shown), rc)
        for strategy, cols_, missed, dup, un in (("geometric", gcols, g_missed, g_dup if gcols is not None else [],
                                                  gun if gcols is not None else []),
                                                 ("algebraic", acols, a_missed, a_dup if acols is not None else [],
                                                  aun if acols is not None else [])):
            if cols_ is None:
                continue
            if missed and strategy == "algebraic":
                probe.rec(deg, alg_missed_roots=len(missed), pairs_alg_misses=1)
            if missed:
                cls = algebraic_miss_class(b1, b2, missed) if strategy == "algebraic" else geometric_miss_class(b1, b2, missed)
                if strategy == "algebraic" and c["family"] in DESIGNED_FAMILIES:
                    cls = "designed-family:" + c["family"]
                r = missed[0]
                fail(res, "strategies-disagree:%s:%s-misses:%s" % (deg, strategy, cls),
                            "%s: the %s strategy does not report %d of %d certified simple crossings, e.g. (s, t) in "
                            "[%r, %r] x [%r, %r] (sin^2 >= %.3g); %s" %
                            (where, strategy, len(missed), nroots, float(r.s_lo), float(r.s_hi), float(r.t_lo), float(r.t_hi),
                             float(r.sin2_lo), shown), rc)
            if dup or un:
                kind = "duplicate-column" if (dup and not un) else "column-not-a-certified-root"
                fail(res, "strategies-disagree:%s:%s-extra:%s" % (deg, strategy, kind),
                            "%s: the %s strategy reports %d column(s) matching no certified crossing and %d crossing(s) more "
                            "than once; %s" % (where, strategy, len(un), len(dup), shown), rc)
        return

    # degree products 6, 8, 9: inclusion + pinned probes
    verdict = "inclusion-holds"
    rcls = ""
    if sa == "exc":
        verdict = "algebraic-refused" if oa in ("NotImplementedError", "UnsupportedDegree") else "algebraic-raised-other"
        rcls = ":" + refusal_class(b1, b2, roots, ma) if oa == "NotImplementedError" else ""
        probe.rec(deg, alg_refused=1, alg_refused_squarefree=1 if rcls.endswith(":squarefree-intersection-polynomial") else 0)
        if verdict == "algebraic-raised-other":
            fail(res, "algebraic-raised:%s:%s" % (deg, oa), "%s: algebraic strategy raised %s (%s), not the documented "
                        "NotImplementedError, on an in-domain pair; %s" % (where, oa, ma, shown), rc)
    elif gcols is not None:
        for (s, t) in acols:
            if any(abs(s - gs) <= INFLATE and abs(t - gt) <= INFLATE for gs, gt in gcols):
                continue
            is_root = any(r.s_lo - INFLATE <= s <= r.s_hi + INFLATE and r.t_lo - INFLATE <= t <= r.t_hi + INFLATE for r in roots)
            whyk = "geometric-misses" if is_root else "column-not-a-certified-root"
            if is_root and g_missed:
                whyk += ":" + geometric_miss_class(b1, b2, g_missed)
            verdict = "inclusion-fails"
            fail(res, "algebraic-not-subset:%s:%s" % (deg, whyk), "%s: algebraic column (%r, %r) has no geometric column "
                        "within 2^-20 (%s); %s" % (where, float(s), float(t),
                                                   "it IS a certified crossing" if is_root else "it is NOT a certified crossing",
                                                   shown), rc)
            break
    if acols is not None:
        mcls = algebraic_miss_class(b1, b2, a_missed) if a_missed else ""
        stat = mcls == "axis-parallel-tangent-at-crossing"
        probe.rec(deg, alg_missed_roots=len(a_missed), pairs_alg_misses=1 if a_missed else 0,
                  pairs_alg_misses_stationary=1 if stat else 0)
        pr = ("algebraic-silently-misses-certified-root:" + mcls) \
            if a_missed else ("algebraic-extra-column" if (a_dup or aun) else "algebraic-equals-certified-set")
    else:
        pr = "algebraic-raised:" + oa + rcls
    res.count(key, verdict=verdict, probe="%s:%s" % (deg, pr), **base)
    if a_missed and acols is not None:
        res.sample({"pinned-probe": "algebraic strategy silently misses certified roots", "degrees": deg,
                    "family": c["family"], "n1": jnet(n1), "n2": jnet(n2), "shown": shown}, cap=12)


def check_refusal(bezier, res, c, route):
    role = c["role"]
    n1, n2 = c["n1"], c["n2"]
    rd1, rd2 = true_degree(c["b1"]), true_degree(c["b2"])
    deg = "%d-%d" % (rd1, rd2)
    rc = {"role": role, "case": jcase(c), "route": route}
    key = (role, rc["case"]["n1"], rc["case"]["n2"], route)
    arr1, arr2 = C.farr(n1), C.farr(n2)
    where = "%s (%s, %s; degrees %s)" % (route, c["family"], c["tag"], deg)
    sa, oa, ma = call(bezier, "algebraic", route, arr1, arr2)
    if sa == "skip":
        res.skip(oa)
        return
    if role == "disjoint":
        sg, og, _ = call(bezier, "geometric", route, arr1, arr2)
        res.count(key, role=role, degrees=deg, family=c["family"], domain="n-a:refusal-or-empty",
                  algebraic=outcome(sa, oa), geometric=outcome(sg, og))
        for strategy, st, out in (("geometric", sg, og), ("algebraic", sa, oa)):
            if not (st == "ok" and out.shape == (2, 0)):
                fail(res, "nonempty-for-disjoint-boxes:" + strategy, "%s: strictly disjoint control-point boxes, the %s "
                            "strategy %s instead of returning an empty 2 x 0 array" % (where, strategy, outcome(st, out)), rc)
        return
    refused = sa == "exc" and oa in ("NotImplementedError", "UnsupportedDegree")
    res.count(key, role=role, degrees=deg, family=c["family"], domain="n-a:refusal-or-empty", algebraic=outcome(sa, oa),
              refusal="%s:%s" % (role, "refused" if refused else outcome(sa, oa)))
    if refused:
        return
    if role == "overlap":
        k = "algebraic:overlap-not-refused:degree%d" % max(rd1, rd2)
        if sa == "ok":
            fail(res, k, "%s: the algebraic strategy returned normally (%d columns: %s) on overlapping sub-arcs of a common "
                        "degree-%d parent instead of raising NotImplementedError" %
                        (where, oa.shape[1], fcols(columns(oa)), max(rd1, rd2)), rc)
        else:
            fail(res, "algebraic:overlap-wrong-error:degree%d:%s" % (max(rd1, rd2), oa),
                        "%s: the algebraic strategy raised %s (%s) on overlapping sub-arcs" % (where, oa, ma), rc)
    else:
        if sa == "ok":
            fail(res, "algebraic:tangency-not-refused:" + deg, "%s: planted double root, the algebraic strategy returned "
                        "normally %d column(s) %s instead of raising NotImplementedError (non-simple roots)" %
                        (where, oa.shape[1], fcols(columns(oa))), rc)
        else:
            fail(res, "algebraic:tangency-wrong-error:%s:%s" % (deg, oa),
                        "%s: planted double root, the algebraic strategy raised %s (%s)" % (where, oa, ma), rc)


def diagnose_triangle(bezier, T1, T2):
    """which edge pair makes the two strategies differ: (key suffix, text)"""
    for i, e1 in enumerate(T1.edges):
        for j, e2 in enumerate(T2.edges):
            a1, a2 = np.asfortranarray(e1.nodes), np.asfortranarray(e2.nodes)
            m1, m2 = C.to_fr(a1), C.to_fr(a2)
            iso = ISO.isolate(m1, m2)
            sg, og, _ = call(bezier, "geometric", "all_intersections", a1, a2)
            sa, oa, ma = call(bezier, "algebraic", "all_intersections", a1, a2)
            if iso.status != "certified":
                if (sg, sa) != ("ok", "ok") or og.shape != oa.shape:
                    return "edge-pair-undecided", "edge pair (%d, %d): isolator undecided, geometric %s, algebraic %s" % (
                        i, j, outcome(sg, og), outcome(sa, oa))
                continue
            txt = "edge pair (%d, %d) nets %s x %s: certified roots %s, geometric %s, algebraic %s" % (
                i, j, jnet(m1), jnet(m2), str([(float(r.mid()[0]), float(r.mid()[1]), "sin^2>=%.3g" % float(r.sin2_lo))
                                                for r in iso.roots]),
                fcols(columns(og)) if sg == "ok" else "raised " + og, fcols(columns(oa)) if sa == "ok" else "raised " + oa)
            for name, st, out in (("algebraic", sa, oa), ("geometric", sg, og)):
                if st != "ok":
                    return "edge-pair-%s-raised-%s" % (name, out), txt
                hits, un = match(columns(out), iso.roots)
                if any(h == 0 for h in hits):
                    missed = [r for r, h in zip(iso.roots, hits) if h == 0]
                    cls = ""
                    if name == "algebraic":
                        cls = ":" + algebraic_miss_class(m1, m2, missed)
                    return "edge-pair-%s-misses%s" % (name, cls), txt
                if un or any(h > 1 for h in hits):
                    return "edge-pair-%s-extra" % name, txt
    return "no-edge-pair-deviates", "every edge pair: both strategies equal the certified set"


def check_triangle(bezier, res, c):
    from bezier.hazmat import intersection_helpers as IH
    t1, t2, d1, d2 = c["t1"], c["t2"], c["d1"], c["d2"]
    deg = "%d-%d" % (d1, d2)
    rc = {"role": "triangle", "case": jcase(c), "route": "Triangle.intersect"}
    key = ("triangle", rc["case"]["t1"], rc["case"]["t2"])
    T1 = bezier.Triangle(C.farr(t1), d1, copy=True)
    T2 = bezier.Triangle(C.farr(t2), d2, copy=True)
    try:
        both_valid = bool(T1.is_valid and T2.is_valid)
    except ValueError:          # the validity test gave up ("Did not reach a conclusion"): not usable as a valid input
        both_valid = False
    if not both_valid:
        res.count(key, nontrivial=False, role="triangle", degrees="T" + deg, triangle_outcome="invalid-triangle-skipped")
        return
    size = max([Fr(1)] + [abs(v) for t in (t1, t2) for r in t for v in r])
    got = {}
    for name, strat in (("geometric", IH.IntersectionStrategy.GEOMETRIC), ("algebraic", IH.IntersectionStrategy.ALGEBRAIC)):
        try:
            regs = T1.intersect(T2, strategy=strat)
            got[name] = ("ok", len(regs), sum(Fr(float(r.area)) for r in regs))
        except ImportError as e:
            res.skip("algebraic strategy needs " + (getattr(e, "name", None) or "an absent module"))
            return
        except Exception as e:  # noqa: BLE001
            got[name] = ("exc", type(e).__name__, str(e)[:100])
    g, a = got["geometric"], got["algebraic"]
    oc = "both-returned" if g[0] == a[0] == "ok" else "geometric:%s algebraic:%s" % (
        "ok" if g[0] == "ok" else g[1], "ok" if a[0] == "ok" else a[1])
    res.count(key, nontrivial=g[0] == "ok" and g[1] > 0, role="triangle", degrees="T" + deg, triangle_outcome=oc,
              regions=g[1] if g[0] == "ok" else "n-a")
    if g[0] == "exc":
        fail(res, "triangle-geometric-raised:%s:%s" % (deg, g[1]), "Triangle.intersect (degrees %s) geometric strategy raised "
                    "%s (%s)" % (deg, g[1], g[2]), rc)
    if a[0] == "exc":
        if a[1] not in ("NotImplementedError", "UnsupportedDegree"):
            k, txt = diagnose_triangle(bezier, T1, T2)
            fail(res, "triangle-algebraic-raised:%s:%s:%s" % (deg, a[1], k), "Triangle.intersect (degrees %s) algebraic strategy "
                        "raised %s (%s) while the geometric strategy %s; %s" %
                        (deg, a[1], a[2], "returned %d region(s)" % g[1] if g[0] == "ok" else "raised " + g[1], txt), rc)
        return
    if g[0] != "ok":
        return
    if g[1] != a[1] or abs(g[2] - a[2]) > AREA_TOL * size * size:
        k, txt = diagnose_triangle(bezier, T1, T2)
        fail(res, "triangle-strategies-disagree:%s:%s" % (deg, k), "Triangle.intersect (degrees %s): geometric %d region(s) "
                    "total area %r, algebraic %d region(s) total area %r, allowed difference %.3g; %s" %
                    (deg, g[1], float(g[2]), a[1], float(a[2]), float(AREA_TOL * size * size), txt), rc)


# ------------------------------------------------------------------------------------------- main
def main():
    warnings.simplefilter("ignore")
    np.seterr(all="ignore")
    bezier = C.import_bezier()
    rnd, seed = C.rng()
    tier = C.tier()
    res = C.Result("C15")
    rep = C.replay_case()
    probe = Probe()
    if rep:
        work = [(unjcase(rep["case"]), rep.get("route", "Curve.intersect"))]
        work[0][0]["role"] = rep["role"]
    else:
        cases = build_cases(rnd, tier, bool(os.environ.get("VERIF_SEARCH")))
        only = os.environ.get("VERIF_C15_ONLY")               # development aid: one family
        if only:
            cases = [c for c in cases if c.get("family") == only]
        work = [(c, rnd.choice(["Curve.intersect", "all_intersections"])) for c in cases]
    budget = float(os.environ.get("VERIF_C15_BUDGET", "0") or 0)
    t0 = time.time()
    done = 0
    for c, route in work:
        if budget and time.time() - t0 > budget:
            res.notes.append("time budget reached after %d of %d cases" % (done, len(work)))
            break
        done += 1
        if c["role"] == "compare":
            check_compare(bezier, res, probe, c, route)
        elif c["role"] == "triangle":
            check_triangle(bezier, res, c)
        else:
            check_refusal(bezier, res, c, route)
    for deg in sorted(probe.by):
        d = probe.by[deg]
        a, b = (int(x) for x in deg.split("-"))
        if a * b <= 4:
            res.notes.append("degree pair %s (equality claimed): in-domain pairs %d (with crossings %d, certified roots %d), "
                             "both strategies equal the certified set on %d; algebraic strategy raises on %d pair(s), silently "
                             "misses %d root(s) on %d pair(s); geometric misses %d root(s)" %
                             (deg, d["in_domain"], d["with_roots"], d["roots"], d["agree"], d["alg_refused"],
                              d["alg_missed_roots"], d["pairs_alg_misses"], d["geo_missed_roots"]))
        else:
            res.notes.append("PINNED PROBE degree pair %s (inclusion only): in-domain pairs %d (with crossings %d, certified roots "
                             "%d); algebraic strategy silently misses %d root(s) on %d pair(s) (%d of them: every missed root has an "
                             "axis-parallel tangent of the located curve), refuses %d pair(s) (%d with a square-free exact "
                             "intersection polynomial); geometric misses %d root(s); both equal the certified set on %d" %
                             (deg, d["in_domain"], d["with_roots"], d["roots"], d["alg_missed_roots"], d["pairs_alg_misses"],
                              d["pairs_alg_misses_stationary"], d["alg_refused"], d["alg_refused_squarefree"],
                              d["geo_missed_roots"], d["agree"]))
    tot = {"in": 0, "miss": 0}
    for deg, d in probe.by.items():
        a, b = (int(x) for x in deg.split("-"))
        if a * b > 4:
            tot["in"] += d["in_domain"]
            tot["miss"] += d["pairs_alg_misses"]
    if tot["in"]:
        res.notes.append("PINNED PROBE degree products 6..9: algebraic strategy silently misses a certified root on %d of %d "
                         "in-domain pairs (%.1f %%)" % (tot["miss"], tot["in"], 100.0 * tot["miss"] / tot["in"]))
    miss_rate_guard(res)
    if not rep:
        model_tie(bezier, res)
    res.emit()
    if rep:
        bad = bool(res.failures)
        print("replay: " + ("property fails on this input: " + res.failures[0]["what"] if bad
                            else "property holds on this input"))
        sys.exit(1 if bad else 0)


main()
